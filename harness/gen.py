"""Generators: query strings (grammar directed + malformed), programmatic trees, layouts.

Every random choice comes from the `random.Random` passed in, so (seed, index) replays a case.
Trees are generated as JSON dicts (see common.dump_tree) so that they can be sent to the model
and loaded into the implementation alike.
"""
import random

SEPS = [" ", " ", " ", "  ", "\t", "\n", "\r\n", " \n  ", " ", "　", "\x0b", "\x0c",
        "\x1c", "\x1f", "\x85", " ", "  "]
WORDS = ["a", "b", "c", "foo", "bar", "x1", "héllo", "\\AND", "ANDx", "and", "or", "not", "xOR",
         "a\\:b", "foo*", "?x", "*", "te?t", "2024-01-01T12:30:45", "T12:30", "a+b", "a-b", "x/y",
         ",", "a\"b", "a'b", "a<b", "a>=b", "=b", "a=b", "\\(x\\)", "\\ y", "12", "1.5", "\\-z",
         "日本", "x\\\\", "\\*", "a\\*b", "TOx", "to", "a.b", "Z", "34", "30:15", "45x", "T12", "10t20",
         # not in NFC / NFKC normal form (a parser that normalises its input shifts every later position)
         "cafe\u0301", "e\u0301x", "\u1100\u1161", "a\u030a", "\ufb01n", "\u2126", "x\u00b2",
         # escaped blank at the end / start of the word
         "foo\\ ", "\\ a\\ ",
         # spellings other query languages use for the operators (plain words here), signs before two digits,
         # lower-case look-alikes of the time and operator syntax, numbers with an offset
         "&&", "||", "!", "a&&b", "zone-12", "level+10", "15", "45", "2015-12-19t22:30:45z", "t22:30",
         "2015-12-19T22:30:45+02:00", "iso-8859-15",
         # characters that mean something to the machinery a message or an output goes through (%-formatting,
         # str.format, html, a comment sign): plain characters of a word here
         "100%", "%s", "%(q)s", "50%d", "{0}", "{x}", "a&b", "#tag",
         # a byte order mark is a character like another (of a word, when it touches one)
         "\ufeffbom", "\ufeff", "x\ufeff"]
PHRASES = ['"100% sure"', '"cafe\u0301 e\u0301"', '"a b"', '""', '"a\\"b"', '"x:y"', '"AND"', '"a (b) [c]"', '"é ü"', '" lead"', '"t\\\\"',
           '"a\tb"', '"wild*"']
PHRASES_NL = ['"a\nb"']
PHRASES_CTRL = ['"a\x0bb"', '"x\u2028y"', '"a\rb"', '"p\x1cq"', '"m\x85n"', '"t\x0cu"']
REGEXES_CTRL = ['/a\x0bb/', '/x\u2029y/']
REGEXES = ["/a b/", "//", "/a\\/b/", "/[a-z]+/", "/x(y|z)/"]
REGEXES_NL = ["/a\nb/"]
NUMS = ["", "", "2", "2.0", ".5", "007", "1.", "10", "100", "0.50", "1.25", "0", "0.0", "3.14159",
        "0.0000001", ".00000025", "0.000001", "1234567.125", "100000000000000000000", "000.000", "5000000"]
NUMS_LONG = ["1234567890123456789012345678901", "0.1234567890123456789012345678901",
             # 17 to 28 significant digits: still exact at the precision the library normalises with
             "1.00000000000000001", "12345678901234567", "12345678901234568", "0.12345678901234567",
             "0.50000000000000001", "1234567890.1234567890123456"]
NUMS_BAD = [".", "1.2.3", "..", "1..2"]
INTS = ["", "", "1", "2", "03", "10", "0"]
FIELDS = ["f", "title", "a.b", "author.name", "f1", "x_y", "été", "a\\:b", "f-g", "*", "a.b.c", "T12", "part12",
          "t07", "xT30", "nom\u0301", "zone-12", "level+10", "iso-8859-15", "room"]


class QueryGen:
    """grammar-directed generator of query strings with arbitrary layout"""

    def __init__(self, rng, newline_lexemes=False, long_nums=False, bad_nums=False,
                 blank_before_colon=True, max_depth=4):
        self.r = rng
        self.newline_lexemes = newline_lexemes
        self.long_nums = long_nums
        self.bad_nums = bad_nums
        self.blank_before_colon = blank_before_colon
        self.max_depth = max_depth

    # ---- lexemes
    _extra_words = None

    @classmethod
    def extra_words(cls):
        """directed search: whatever the implementation's `reserved` table holds besides AND / OR / NOT / TO (nothing on
        the pinned tree) is put into the word pool, so that a change of that table is met by the queries"""
        if cls._extra_words is None:
            try:
                from . import common
                cls._extra_words = sorted(k for k in common.impl().parser.reserved if k not in ("AND", "OR", "NOT", "TO"))
            except Exception:
                cls._extra_words = []
        return cls._extra_words

    def word(self):
        extra = self.extra_words()
        if extra and self.r.random() < 0.15:
            return self.r.choice(extra)
        return self.r.choice(WORDS)

    def phrase(self):
        pool = PHRASES + (PHRASES_NL if self.newline_lexemes else [])
        if self.r.random() < 0.12:
            pool = PHRASES_CTRL
        return self.r.choice(pool)

    def regex(self):
        pool = REGEXES + (REGEXES_NL if self.newline_lexemes else [])
        if self.r.random() < 0.12:
            pool = REGEXES_CTRL
        return self.r.choice(pool)

    def num(self):
        pool = list(NUMS)
        if self.long_nums:
            pool += NUMS_LONG
        if self.bad_nums:
            pool += NUMS_BAD
        return self.r.choice(pool)

    # ---- token-level derivations; each returns a list of (text, glue) where glue tells whether
    # the token must be glued to the previous one (no separator allowed, e.g. ~2 after a term)
    def expr(self, d):
        r = self.r
        if d <= 0:
            return self.unary(0)
        k = r.random()
        if k < 0.25:
            n = r.choice([2, 2, 3, 4])
            out = []
            for i in range(n):
                out += self.expr(d - 1)
            return out
        if k < 0.45:
            n = r.choice([2, 2, 3])
            out = self.expr(d - 1)
            for i in range(n - 1):
                out += [("OR", "op")] + self.expr(d - 1)
            return out
        if k < 0.65:
            n = r.choice([2, 2, 3])
            out = self.expr(d - 1)
            for i in range(n - 1):
                out += [("AND", "op")] + self.expr(d - 1)
            return out
        return self.unary(d)

    def term_or_phrase(self):
        return [(self.word() if self.r.random() < 0.7 else self.phrase(), "tok")]

    def bound(self):
        r = self.r
        k = r.random()
        if k < 0.15:
            return [("-", "tok")] + self.term_or_phrase()
        if k < 0.25:
            return [("*", "tok")]
        return self.term_or_phrase()

    def unary(self, d):
        r = self.r
        k = r.random()
        if d <= 0:
            k = k * 0.45
        if k < 0.22:
            return [(self.word(), "tok")]
        if k < 0.28:
            return [(self.phrase(), "tok")]
        if k < 0.31:
            return [(self.regex(), "tok")]
        if k < 0.36:
            return [(self.word(), "tok"), ("~" + self.num(), "post")]
        if k < 0.40:
            return [(self.phrase(), "tok"), ("~" + r.choice(INTS + ([".", "1.5"] if self.bad_nums else [])), "post")]
        if k < 0.43:
            return [("TO", "tok")]
        if k < 0.45:
            return [(r.choice(["<", "<=", ">", ">="]), "tok")] + self.term_or_phrase()
        if k < 0.53:
            return [(r.choice(["+", "-", "NOT"]), "pre")] + self.unary(d - 1)
        if k < 0.63:
            return [("(", "tok")] + self.expr(d - 1) + [(")", "tok")]
        if k < 0.73:
            return [(r.choice(["[", "{"]), "tok")] + self.bound() + [("TO", "op")] + self.bound() + \
                [(r.choice(["]", "}"]), "tok")]
        if k < 0.86:
            return [(r.choice(FIELDS), "tok"), (":", "colon")] + self.unary(d - 1)
        return self.unary(d - 1) + [("^" + self.num(), "post")]

    def layout(self, toks):
        """join tokens with random separators"""
        r = self.r
        mode = r.choice(["spaced", "spaced", "tight", "wild"])
        out = []
        if r.random() < 0.3:
            out.append(r.choice(SEPS))
        for i, (text, kind) in enumerate(toks):
            if i > 0:
                prev_text, prev_kind = toks[i - 1]
                if kind == "colon" and not self.blank_before_colon:
                    sep = ""
                elif kind in ("post", "colon") or prev_kind in ("colon",):
                    # mostly glued, sometimes separated
                    sep = "" if r.random() < 0.8 else r.choice(SEPS)
                elif mode == "tight":
                    need = (prev_text[-1:].isalnum() or prev_text[-1:] in "*?\"/") and \
                        (text[:1].isalnum() or text[:1] in "*?\\\"/")
                    sep = r.choice(SEPS) if need or r.random() < 0.2 else ""
                elif mode == "wild":
                    sep = "".join(r.choice(SEPS) for _ in range(r.choice([0, 1, 1, 2, 3])))
                else:
                    sep = r.choice(SEPS) if r.random() < 0.92 else ""
                out.append(sep)
            out.append(text)
        if r.random() < 0.3:
            out.append(r.choice(SEPS))
        return "".join(out)

    def query(self):
        d = self.r.choice([0, 1, 1, 2, 2, 3, self.max_depth])
        return self.layout(self.expr(d))

    def tokens(self):
        d = self.r.choice([0, 1, 1, 2, 2, 3, self.max_depth])
        return self.expr(d)


ALPHABET = list("ab AND OR NOT TO") + list("()[]{}<>=+-~^:\"/\\*?.12 \t\n") + ["é", "　", "'", ",", "!", "|", "&"]


def malformed(rng, qg):
    """strings that are mostly *not* in the language"""
    k = rng.random()
    if k < 0.3:
        return "".join(rng.choice(ALPHABET) for _ in range(rng.choice([0, 1, 2, 3, 5, 8, 13])))
    toks = [t for t, _ in qg.tokens()]
    if not toks:
        return ""
    n = rng.choice([1, 1, 2])
    for _ in range(n):
        op = rng.choice(["del", "ins", "swap", "dup"])
        i = rng.randrange(len(toks)) if toks else 0
        if op == "del" and toks:
            del toks[i]
        elif op == "ins":
            toks.insert(i, rng.choice(["(", ")", "[", "]", "{", "}", "TO", "AND", "OR", "NOT", ":", "~", "^",
                                       "+", "-", "\"", "/", "\\", "<", ">=", "^.", "~1.2.3"]))
        elif op == "swap" and len(toks) > 1:
            j = rng.randrange(len(toks))
            toks[i], toks[j] = toks[j], toks[i]
        elif op == "dup" and toks:
            toks.insert(i, toks[i])
    return rng.choice(["", " "]).join(toks) if rng.random() < 0.5 else " ".join(toks)


# ---------------------------------------------------------------------------------------------
# programmatic trees (JSON dicts)
# ---------------------------------------------------------------------------------------------

TREE_WORDS = ["a", "b", "c", "foo", "*", "fo*", "a b", "=b", "T12", "30", "TO", "a\"b", "x+y", "a-b", "1",
              "AND", "é", "", "a\\ b", "foo\\ ", "\\ x", "e\u0301"]
TREE_PHRASES = ['"100% sure"', '"cafe\u0301 e\u0301"', '"a b"', '""', '"x"', '"a\\"b"', '"c d e"']
TREE_REGEX = ["/a/", "//", "/b c/"]
TREE_FIELDS = ["f", "g", "a.b", "bad name", "é", "", "f1", "a.b.c", "T12", "xT07",
               # escapes in a field name, names starting with a digit, with a combining mark / a middle dot
               "first\\ name", "a\\:b", "c\\-d", "2019", "1st_author", "007", "cafe\u0301", "a\u00b7b"]

OPS = ["AndOperation", "OrOperation", "UnknownOperation", "BoolOperation"]
UNARIES = ["Plus", "Not", "Prohibit"]


def mk(c, ch=(), **kw):
    d = {"c": c, "h": "", "t": "", "p": None, "s": None, "n": None, "ch": list(ch)}
    d.update(kw)
    return d


def W(v, **kw):
    return mk("Word", v=v, **kw)


def P(v, **kw):
    return mk("Phrase", v=v, **kw)


def num(coeff, exp=0, neg=False, imp=False):
    return {"neg": neg, "coeff": str(coeff), "exp": exp, "imp": imp}


class TreeGen:
    """random programmatic trees over all item classes"""

    def __init__(self, rng, layout="none", names=False, wild=0.15, none_items=0.02, ops=OPS,
                 words=TREE_WORDS, max_children=4, positions=False):
        self.r = rng
        self.layout = layout          # "none" | "partial" | "full"
        self.names = names
        self.wild = wild              # probability of an un-grammatical child
        self.none_items = none_items
        self.ops = ops
        self.words = words
        self.max_children = max_children
        self.positions = positions
        self._name_counter = 0

    def lay(self, d):
        r = self.r
        if self.layout == "full" or (self.layout == "partial" and r.random() < 0.5):
            d["h"] = r.choice(["", "", " ", "  ", "\n", "\t "])
            d["t"] = r.choice(["", "", " ", "  ", "\n", " \t"])
        if self.positions and r.random() < 0.7:
            d["p"] = r.randrange(0, 50)
            d["s"] = r.randrange(0, 20)
        if self.names and r.random() < 0.3:
            self._name_counter += 1
            d["n"] = "n%d" % self._name_counter
        return d

    def word(self):
        return self.lay(W(self.r.choice(self.words)))

    def phrase(self):
        return self.lay(P(self.r.choice(TREE_PHRASES)))

    def dec(self):
        r = self.r
        k = r.random()
        if k < 0.25:
            return num(0, 0, imp=True)
        coeff = r.choice([0, 1, 2, 5, 25, 10, 100, 314, 7])
        exp = r.choice([0, 0, 0, -1, -2, 1, 2])
        neg = r.random() < 0.1
        return num(coeff, exp, neg)

    def integer(self):
        r = self.r
        if r.random() < 0.25:
            return num(1, 0, imp=True)
        return num(r.choice([0, 1, 2, 3, 10, 12]), 0, r.random() < 0.1 and False)

    def leaf(self):
        r = self.r
        k = r.random()
        if k < self.none_items:
            return self.lay(mk("NoneItem"))
        if k < 0.6:
            return self.word()
        if k < 0.85:
            return self.phrase()
        return self.lay(mk("Regex", v=r.choice(TREE_REGEX)))

    def tree(self, d):
        r = self.r
        if d <= 0:
            return self.leaf()
        k = r.random()
        wild = r.random() < self.wild
        if k < 0.12:
            return self.leaf()
        if k < 0.37:
            n = r.choice([1, 2, 2, 2, 3, self.max_children]) if r.random() < 0.9 else 0
            if r.random() < 0.004:
                # far more operands than any "reasonable" limit a change may introduce
                return self.lay(mk(r.choice(self.ops), [self.leaf() for _ in range(r.choice([60, 130, 1030]))]))
            return self.lay(mk(r.choice(self.ops), [self.tree(d - 1) for _ in range(n)]))
        if k < 0.47:
            return self.lay(mk(r.choice(UNARIES), [self.tree(d - 1)]))
        if k < 0.57:
            return self.lay(mk("Group", [self.tree(d - 1)]))
        if k < 0.69:
            inner = self.tree(d - 1)
            if not wild and r.random() < 0.5:
                inner = self.lay(mk("FieldGroup", [self.tree(d - 1)]))
            return self.lay(mk("SearchField", [inner], name=r.choice(TREE_FIELDS)))
        if k < 0.73:
            return self.lay(mk("FieldGroup", [self.tree(d - 1)]))
        if k < 0.81:
            lo = self.tree(d - 1) if wild else (self.word() if r.random() < 0.8 else self.phrase())
            hi = self.tree(d - 1) if wild else (self.word() if r.random() < 0.8 else self.phrase())
            return self.lay(mk("Range", [lo, hi], il=r.random() < 0.5, ih=r.random() < 0.5))
        if k < 0.86:
            t = self.tree(d - 1) if wild else self.word()
            return self.lay(mk("Fuzzy", [t], num=self.dec()))
        if k < 0.90:
            t = self.tree(d - 1) if wild else self.phrase()
            return self.lay(mk("Proximity", [t], num=self.integer()))
        if k < 0.96:
            return self.lay(mk("Boost", [self.tree(d - 1)], num=self.dec()))
        a = self.tree(d - 1) if wild else (self.word() if r.random() < 0.8 else self.phrase())
        return self.lay(mk(r.choice(["From", "To"]), [a], inc=r.random() < 0.5))

    def any(self):
        return self.tree(self.r.choice([0, 1, 2, 2, 3, 3, 4]))


def mutate_tree(rng, d):
    """single-point mutation of a tree json: returns (mutant, description) or None"""
    import copy
    from .common import tree_nodes
    m = copy.deepcopy(d)
    nodes = list(tree_nodes(m))
    path, node = rng.choice(nodes)
    c = node["c"]
    choices = ["layout", "name", "pos"]
    if "v" in node:
        choices += ["value"] * 3
    if "name" in node:
        choices += ["fname"] * 3
    if "num" in node:
        choices += ["num", "numspell", "implicit"] * 2
    if "il" in node:
        choices += ["il", "ih"] * 2
    if "inc" in node:
        choices += ["inc"] * 3
    if node["ch"]:
        choices += ["dropchild", "swapchild", "dupchild"] if c.endswith("Operation") else []
    choices += ["class"] * 2
    k = rng.choice(choices)
    if k == "layout":
        node["h"] += " "
        node["t"] += "\n"
    elif k == "name":
        node["n"] = (node["n"] or "") + "z"
    elif k == "pos":
        node["p"] = (node["p"] or 0) + 1
        node["s"] = (node["s"] or 0) + 2
    elif k == "value":
        inner = node["v"] if c == "Word" else node["v"][1:-1]
        kk = rng.random()
        if inner and kk < 0.3:
            # the same text with one more / one less escaping backslash, another case, a blank doubled: values that
            # a lossy comparison (unescaped, case-folded, blank-normalised) would take for equal (seeded C09-G)
            i = rng.randrange(len(inner))
            how = rng.choice(["escape", "escape", "case", "blank"])
            if how == "escape":
                inner2 = inner[:i] + "\\" + inner[i:]
                if inner[i] == "\\" and i + 1 < len(inner):
                    inner2 = inner[:i] + inner[i + 1:]
            elif how == "case":
                inner2 = inner.swapcase() if inner.swapcase() != inner else inner + "X"
            else:
                inner2 = inner.replace(" ", "  ", 1) if " " in inner else inner + "\\ "
            if inner2 == inner or (c != "Word" and inner2.endswith("\\") and not inner2.endswith("\\\\")):
                inner2 = inner + "x"
            node["v"] = inner2 if c == "Word" else node["v"][0] + inner2 + node["v"][-1]
        elif c == "Word":
            node["v"] += "x"
        else:
            node["v"] = node["v"][:-1] + "x" + node["v"][-1:]
    elif k == "fname":
        node["name"] += "x"
    elif k == "num":
        node["num"] = dict(node["num"], coeff=str(int(node["num"]["coeff"]) + 1), imp=False)
    elif k == "numspell":
        if node["num"].get("imp") or c == "Proximity":
            return None
        node["num"] = dict(node["num"], coeff=str(int(node["num"]["coeff"]) * 10), exp=node["num"]["exp"] - 1)
    elif k == "implicit":
        if c == "Proximity":
            if node["num"].get("imp"):
                node["num"] = num(1, 0)
            elif int(node["num"]["coeff"]) == 1 and not node["num"]["neg"]:
                node["num"] = num(1, 0, imp=True)
            else:
                return None
        elif c == "Fuzzy":
            if node["num"].get("imp"):
                node["num"] = num(5, -1)
            else:
                return None
        else:
            if node["num"].get("imp"):
                node["num"] = num(1, 0)
            else:
                return None
    elif k in ("il", "ih", "inc"):
        node[k] = not node[k]
    elif k == "dropchild":
        del node["ch"][rng.randrange(len(node["ch"]))]
    elif k == "swapchild":
        if len(node["ch"]) < 2:
            return None
        i = rng.randrange(len(node["ch"]) - 1)
        node["ch"][i], node["ch"][i + 1] = node["ch"][i + 1], node["ch"][i]
    elif k == "dupchild":
        node["ch"].append(copy.deepcopy(node["ch"][0]))
    elif k == "class":
        swaps = {"Word": None, "Group": "FieldGroup", "FieldGroup": "Group", "AndOperation": "OrOperation",
                 "OrOperation": "UnknownOperation", "UnknownOperation": "BoolOperation",
                 "BoolOperation": "AndOperation", "Plus": "Not", "Not": "Prohibit", "Prohibit": "Plus",
                 "From": "To", "To": "From"}
        new = swaps.get(c)
        if new is None:
            return None
        node["c"] = new
    return m, "%s at %s" % (k, list(path))
