"""Tree inputs and non-mutation / identity helpers shared by the visitor / transformer properties."""
from . import common, gen


def all_nodes(t):
    stack = [t]
    while stack:
        n = stack.pop()
        yield n
        stack.extend(n.children)


def id_paths(t, path=()):
    """{id(node): path}"""
    out = {id(t): path}
    for i, c in enumerate(t.children):
        out.update(id_paths(c, path + (i,)))
    return out


def snapshot(t):
    return (common.dump_tree(t), sorted(id_paths(t).items(), key=lambda kv: kv[1]))


def unchanged(t, snap):
    return snapshot(t) == snap


def shares_nodes(a, b, placeholders_ok=True):
    """does `b` contain a node object of `a`?  `clone_item` legitimately fills the children of a clone with the
    NONE_ITEM singleton; a complete copy (default transformer) must not even share that one (seeded C08-F)"""
    T = common.impl().tree
    ia = {id(n) for n in all_nodes(a) if not (placeholders_ok and n is T.NONE_ITEM)}
    return any(id(n) in ia for n in all_nodes(b) if not (placeholders_ok and n is T.NONE_ITEM))


def use_placeholder_singleton(t, rng, p=0.5):
    """replace (in place, before any snapshot) NoneItem leaves without layout by the NONE_ITEM singleton itself:
    half-built trees carry that very object"""
    T = common.impl().tree
    for n in list(all_nodes(t)):
        ch = list(n.children)
        new = [T.NONE_ITEM if (type(c) is T.NoneItem and not c.head and not c.tail and c.pos is None
                               and c.size is None and rng.random() < p) else c for c in ch]
        if any(x is not y for x, y in zip(ch, new)):
            n.children = new
    return t


def parsed_tree(ctx, rng, **kw):
    """json of a tree obtained by parsing a generated query (None if the query is rejected)"""
    from . import parsing
    qg = gen.QueryGen(rng, **kw)
    for _ in range(20):
        q = qg.query()
        r, t = parsing.impl_parse(q)
        if t is not None:
            return q, r["ok"]
    return None, None


def mixed_tree(ctx, rng, p_parsed=0.5, **tgkw):
    """(origin, tree json): parsed from a generated query or programmatic"""
    if rng.random() < p_parsed:
        q, d = parsed_tree(ctx, rng)
        if d is not None:
            return "parsed", d
    tg = gen.TreeGen(rng, **tgkw)
    return "built", common.normalize(tg.any())


def classes_of(d):
    return sorted({n["c"] for _, n in common.tree_nodes(d)})


class SharedObjects:
    """Long-lived library objects (transformers, printers, checkers, builders) must behave like fresh ones whatever
    they processed before. After a case the same long-lived object (one per configuration `key`) is given the case's
    tree and then near-identical trees (single-point mutants: another inclusiveness, numeral, value, layout ...), and
    every answer is compared with the answer of a freshly made object. A memo keyed on a lossy digest (repr, printed
    form, id) or state left behind by a failing call shows up as a difference."""

    def __init__(self, ctx, rng, label):
        self.ctx, self.rng, self.label = ctx, rng, label
        self.objs = {}

    @staticmethod
    def _run(call, obj, d):
        try:
            return ("ok", call(obj, common.load_tree(d)))
        except Exception as e:          # the kind of failure is part of the behaviour
            return ("exc", type(e).__name__)

    def check(self, key, make, call, d, info, mutants=2, poison=()):
        key = repr(key)
        if key not in self.objs:
            self.objs[key] = make()
        shared = self.objs[key]
        # inputs on which the call fails half-way: whatever they leave behind must not show afterwards
        todo = [("a tree on which the call fails", dd) for dd in poison if dd is not None]
        todo += [("the same tree", d)]
        for _ in range(mutants):
            mu = gen.mutate_tree(self.rng, d)
            if mu is not None:
                todo.append(("a tree differing in one point (%s)" % mu[1], mu[0]))
        for what, dd in todo:
            try:
                common.load_tree(dd)
            except Exception:
                continue
            want = self._run(call, make(), dd)
            got = self._run(call, shared, dd)
            self.ctx.count("history: long-lived %s" % self.label)
            if got != want:
                self.ctx.fail("a long-lived %s answers differently from a fresh one on %s (history dependence)" % (
                    self.label, what), dict(info, second_tree=dd, fresh=want, shared=got))
                # a polluted object would fail on everything that follows: start again
                self.objs[key] = make()
                shared = self.objs[key]
