"""Tree inputs and non-mutation / identity helpers shared by the visitor / transformer properties."""
from . import common, gen


def all_nodes(t):
    stack = [t]
    while stack:
        n = stack.pop()
        yield n
        stack.extend(n.children)


def id_paths(t, path=()):
    """{id(node): path}"""
    out = {id(t): path}
    for i, c in enumerate(t.children):
        out.update(id_paths(c, path + (i,)))
    return out


def snapshot(t):
    return (common.dump_tree(t), sorted(id_paths(t).items(), key=lambda kv: kv[1]))


def unchanged(t, snap):
    return snapshot(t) == snap


def shares_nodes(a, b):
    T = common.impl().tree
    ia = {id(n) for n in all_nodes(a) if n is not T.NONE_ITEM}
    return any(id(n) in ia for n in all_nodes(b) if n is not T.NONE_ITEM)


def parsed_tree(ctx, rng, **kw):
    """json of a tree obtained by parsing a generated query (None if the query is rejected)"""
    from . import parsing
    qg = gen.QueryGen(rng, **kw)
    for _ in range(20):
        q = qg.query()
        r, t = parsing.impl_parse(q)
        if t is not None:
            return q, r["ok"]
    return None, None


def mixed_tree(ctx, rng, p_parsed=0.5, **tgkw):
    """(origin, tree json): parsed from a generated query or programmatic"""
    if rng.random() < p_parsed:
        q, d = parsed_tree(ctx, rng)
        if d is not None:
            return "parsed", d
    tg = gen.TreeGen(rng, **tgkw)
    return "built", common.normalize(tg.any())


def classes_of(d):
    return sorted({n["c"] for _, n in common.tree_nodes(d)})
