"""Tree inputs and non-mutation / identity helpers shared by the visitor / transformer properties."""
from . import common, gen


def all_nodes(t):
    stack = [t]
    while stack:
        n = stack.pop()
        yield n
        stack.extend(n.children)


def id_paths(t, path=()):
    """{id(node): path}"""
    out = {id(t): path}
    for i, c in enumerate(t.children):
        out.update(id_paths(c, path + (i,)))
    return out


def snapshot(t):
    return (common.dump_tree(t), sorted(id_paths(t).items(), key=lambda kv: kv[1]))


def unchanged(t, snap):
    return snapshot(t) == snap


def shares_nodes(a, b, placeholders_ok=True):
    """does `b` contain a node object of `a`?  `clone_item` legitimately fills the children of a clone with the
    NONE_ITEM singleton; a complete copy (default transformer) must not even share that one (seeded C08-F)"""
    T = common.impl().tree
    ia = {id(n) for n in all_nodes(a) if not (placeholders_ok and n is T.NONE_ITEM)}
    return any(id(n) in ia for n in all_nodes(b) if not (placeholders_ok and n is T.NONE_ITEM))


def use_placeholder_singleton(t, rng, p=0.5):
    """replace (in place, before any snapshot) ONE NoneItem leaf without layout by the NONE_ITEM singleton itself:
    half-built trees carry that very object. (Only one: the identity-based oracles map every node object to its
    path, which needs the objects of a tree to be distinct.)"""
    T = common.impl().tree
    if rng.random() >= p:
        return t
    for n in list(all_nodes(t)):
        ch = list(n.children)
        for i, c in enumerate(ch):
            if type(c) is T.NoneItem and not c.head and not c.tail and c.pos is None and c.size is None \
                    and getattr(c, "_luqum_name", None) is None:
                ch[i] = T.NONE_ITEM
                n.children = ch
                return t
    return t


MID_REFUSED = ["[10 90]", "price:[10 90]", "f:[a b]", "{1 2}", "[a TO", "f:[1 TO 2", "f:{1", "[", "(a b", "(a OR", "((a)",
               "a AND", "a OR", "NOT", "f:", "f:(a", "f:(a AND", '"abc', "/re", "+", "-", "a:b:", "a AND AND b", "a )",
               "[1 TO 2 3]", "a^ ^", "< ", ">=", "f:[* TO", "[a TO b", "x [1 2] y", "(a [b c)"]


def parsed_tree(ctx, rng, **kw):
    """json of a tree obtained by parsing a generated query (None if the query is rejected)"""
    from . import parsing
    qg = gen.QueryGen(rng, **kw)
    for _ in range(20):
        if rng.random() < 0.12:
            # history: an input refused at once (nothing but blanks, or blanks and then a character no token starts
            # with, or an operator with nothing before it) goes through the same entry point first — what a parse left
            # behind when it stopped before the first element must not leak into the next tree (seeded C17-G)
            if rng.random() < 0.5:
                blanks = "".join(rng.choice(" \t\n\r") for _ in range(rng.randint(1, 4)))
                parsing.impl_parse(blanks + rng.choice(["", "", "'", "\\", ")", "^2", "~", ":", "AND"]))
                ctx.count("history: an input refused before its first element")
            else:
                # ... or in the middle of a construct (an open bracket, a range without its TO, a dangling operator):
                # whatever mode the lexer or the parser was in must be left behind (seeded C13-G: a flag set by `[`
                # and cleared only by the TO of the range)
                parsing.impl_parse(rng.choice(MID_REFUSED))
                ctx.count("history: an input refused in the middle of a construct")
        q = qg.query()
        r, t = parsing.impl_parse(q)
        if t is not None:
            common.register_parsed(r["ok"], q)
            return q, r["ok"]
    return None, None


def mixed_tree(ctx, rng, p_parsed=0.5, **tgkw):
    """(origin, tree json): parsed from a generated query or programmatic"""
    if rng.random() < p_parsed:
        q, d = parsed_tree(ctx, rng)
        if d is not None:
            return "parsed", d
    tg = gen.TreeGen(rng, **tgkw)
    return "built", common.normalize(tg.any())


def classes_of(d):
    return sorted({n["c"] for _, n in common.tree_nodes(d)})


import json


def edit_in_place(rng, d, t):
    """edit the loaded tree `t` (whose dump is `d`) IN PLACE at a node below the root, the way the quick start's
    "manipulating" section does: another value for a term, or the children of an inner node in another order.
    Returns the dump the tree must now be equal to, or None. Equality is a function of the CURRENT content:
    whatever a tree was compared with before must not matter (seeded C09-E: a memoised hash, dropped only when
    the node itself is assigned to)"""
    import copy
    nodes = [(p, n) for p, n in common.tree_nodes(d) if p]
    if not nodes:
        nodes = []
    terms = [(p, n) for p, n in nodes if n["c"] in ("Word", "Phrase")]
    inner = [(p, n) for p, n in nodes if len(n["ch"]) >= 2 and n["c"].endswith("Operation")]
    if not terms and not inner and not any("num" in n for _, n in common.tree_nodes(d)):
        return None
    d2 = copy.deepcopy(d)

    def at_json(x, p):
        for i in p:
            x = x["ch"][i]
        return x

    def at_obj(x, p):
        for i in p:
            x = x.children[i]
        return x
    attr_nodes = [(p, n) for p, n in common.tree_nodes(d) if n["ch"] and not n["c"].endswith("Operation")]
    if attr_nodes and rng.random() < 0.3:
        # plain attribute assignment (`field.expr = ...`, `range_.high = ...`), not the `children` setter
        p, n = rng.choice(attr_nodes)
        i = rng.randrange(len(n["ch"]))
        repl = gen.P('"edited"') if n["c"] == "Proximity" else gen.W("edited")
        node = at_obj(t, p)
        names = list(type(node)._children_attrs)
        if i < len(names):
            at_json(d2, p)["ch"][i] = repl
            setattr(node, names[i], common.load_tree(repl))
            return d2
    num_nodes = [(p, n) for p, n in common.tree_nodes(d) if "num" in n]
    if num_nodes and (rng.random() < 0.35 or (not terms and not inner)):
        # the number of a fuzzy / proximity / boost assigned in place (`node.degree = Decimal(2)`), implicit ones
        # included: what is printed (nothing, for an implicit one) stays, the value is the new one
        # (seeded C09-H: the clone of an implicit number re-derives the default instead of copying the value)
        from decimal import Decimal
        p, n = rng.choice(num_nodes)
        node = at_obj(t, p)
        new = Decimal(rng.choice(["2", "3", "0.25"])) if n["c"] != "Proximity" else rng.choice([2, 3, 7])
        setattr(node, "force" if n["c"] == "Boost" else "degree", new)
        at_json(d2, p)["num"] = common.num_json(new, n["num"].get("imp"))
        return d2
    if terms and (not inner or rng.random() < 0.7):
        p, n = rng.choice(terms)
        v = rng.choice(["edited", "bar", "x"]) if n["c"] == "Word" else rng.choice(['"edited"', '"a b"'])
        at_json(d2, p)["v"] = v
        at_obj(t, p).value = v
    else:
        p, n = rng.choice(inner)
        order = list(range(len(n["ch"])))
        rng.shuffle(order)
        at_json(d2, p)["ch"] = [at_json(d2, p)["ch"][i] for i in order]
        node = at_obj(t, p)
        kids = list(node.children)
        node.children = [kids[i] for i in order]
    return d2


class _Tagged:
    """a plain mixin, as an application that decorates its own node classes would write"""
    tag = None


_SUBCLASSES = {}


def user_subclasses(o, rng, share=0.5, only_root=False):
    """turn a share of the nodes of `o` into instances of user-defined subclasses whose FIRST base is a plain mixin
    (`class TaggedWord(Tagged, Word)`): everything the library does by class -- handler lookup along the class
    hierarchy, isinstance tests, cloning with `type(self)` -- must treat them as the luqum class they derive from
    (seeded C08-G, C15-G: the hierarchy walked through `__base__`, which follows the first base only).
    Returns the number of nodes re-classed."""
    n = 0
    for x in ([o] if only_root else all_nodes(o)):
        base = type(x)
        if base.__module__ != "luqum.tree" or base.__name__ == "NoneItem" or rng.random() >= share:
            continue
        if base not in _SUBCLASSES:
            _SUBCLASSES[base] = type("Tagged" + base.__name__, (_Tagged, base), {})
        x.__class__ = _SUBCLASSES[base]
        n += 1
    return n


def share_equal_subtrees(o):
    """make structurally identical sub-trees (same dump, layout included) ONE object, as a program that builds a
    query from parts does (`fg = FieldGroup(...); AndOperation(SearchField("f", fg), Plus(fg))`). Returns the number
    of nodes replaced. The verdict on a node depends on where it stands, not on whether the object was met before
    (seeded C20-E: a visited-id set in `check`)"""
    seen = {}
    n = 0
    stack = [o]
    while stack:
        node = stack.pop()
        kids = list(node.children)
        new = []
        for c in kids:
            key = (type(c).__name__, json.dumps(common.dump_tree(c), sort_keys=True, default=str))
            if key in seen and seen[key] is not c:
                new.append(seen[key])
                n += 1
            else:
                seen.setdefault(key, c)
                new.append(c)
        if any(a is not b for a, b in zip(kids, new)):
            node.children = new
        stack.extend(c for c in new)
    return n


DEEP = 2500


def deep_tree(rng, d, depth=DEEP):
    """builder of a legal but absurdly nested tree `x OR +(+(+( ... d ... )))` (built iteratively, as objects: the
    harness itself never recurses over it). Every recursive walk of the library gives up on it with RecursionError
    somewhere in the middle (the caller catches it); whatever it had noted on the way -- an operator seen, names
    given, chunks collected -- must not leak into the next call (seeded round E: C10, C15, C18 keep such state on
    a long-lived object and clear it only at the end of a successful call)"""
    wrapper = rng.choice(["Group", "Plus", "Plus", "Not"])
    top = rng.choice(["OrOperation", "AndOperation"])

    def build():
        T = common.impl().tree
        inner = common.load_tree(d)
        cls = getattr(T, wrapper)
        for _ in range(depth):
            inner = cls(inner)
        inner.head = " "
        return getattr(T, top)(T.Word("x", tail=" "), inner)
    return build


def poison(rng, d, fn):
    """call `fn` on a deeply nested tree and swallow the failure, as an application would"""
    try:
        fn(deep_tree(rng, d)())
    except Exception:
        pass


def repeat_a_sibling(rng, d):
    """`d` with one operand of some operation replaced by a copy of another operand (so that the tree has two
    structurally identical parts); `d` itself when it has no operation with two operands"""
    import copy
    ops = [p for p, n in common.tree_nodes(d) if n["c"].endswith("Operation") and len(n["ch"]) >= 2]
    if not ops:
        return d
    d2 = copy.deepcopy(d)
    n = d2
    for i in rng.choice(ops):
        n = n["ch"][i]
    i, j = rng.sample(range(len(n["ch"])), 2)
    if rng.random() < 0.6:
        # rather the larger of the two is the one repeated (an operand that has operands of its own)
        size = [sum(1 for _ in common.tree_nodes(c)) for c in n["ch"]]
        if size[j] > size[i]:
            i, j = j, i
    n["ch"][j] = copy.deepcopy(n["ch"][i])
    return d2


class _Dag:
    """builder of `d` with its structurally identical parts made one object"""

    def __init__(self, d):
        self.d = d
        self.shared = 0

    def __call__(self):
        o = common.load_tree(self.d)
        self.shared = share_equal_subtrees(o)
        return o


class SharedObjects:
    """Long-lived library objects (transformers, printers, checkers, builders) must behave like fresh ones whatever
    they processed before. After a case the same long-lived object (one per configuration `key`) is given the case's
    tree and then near-identical trees (single-point mutants: another inclusiveness, numeral, value, layout ...), and
    every answer is compared with the answer of a freshly made object. A memo keyed on a lossy digest (repr, printed
    form, id) or state left behind by a failing call shows up as a difference."""

    def __init__(self, ctx, rng, label, known_params=None, pure=True, raw=None):
        self.ctx, self.rng, self.label = ctx, rng, label
        self.objs = {}
        self.known_params = known_params    # parameter names of the pinned `__call__` (None: not probed)
        self.pure = pure                    # the answer is a function of the tree's structure and content only
        self.probed = set()
        self.raw = raw                      # raw(obj, tree) -> the library's own result object (a tree), if it returns one

    @staticmethod
    def _run(call, obj, d):
        try:
            return ("ok", call(obj, d() if callable(d) else common.load_tree(d)))
        except Exception as e:          # the kind of failure is part of the behaviour
            return ("exc", type(e).__name__)

    def deep_poison(self, d):
        return deep_tree(self.rng, d)

    def structure_only(self, make, call, d, info):
        """the answer for a tree some of whose equal parts are ONE object (a query assembled from parts) is the answer
        for the tree with distinct objects: nothing may be keyed on object identity (seeded C20-E)"""
        d = repeat_a_sibling(self.rng, d)
        dag = _Dag(d)
        got = self._run(call, make(), dag)
        if not dag.shared:
            return
        want = self._run(call, make(), d)
        self.ctx.count("history: equal parts shared as one object")
        if got != want:
            self.ctx.fail("%s answers differently when structurally identical parts of the tree are one shared object" %
                          self.label, dict(info, distinct_objects=want, shared_objects=got))

    def result_edited(self, shared, make, call, d, info):
        """the tree a call returned is the caller's: it edits it in place (every value, layout, operand order). Later
        results of the same long-lived object must not show these edits (seeded C12-G: the `*` bounds of converted
        ranges shared between all results)"""
        try:
            res = self.raw(shared, common.load_tree(d))
        except Exception:
            return
        if not hasattr(res, "children"):
            return
        for n in list(all_nodes(res)):
            n.head = (n.head or "") + "#"
            n.tail = "#"
            if type(n).__name__ in ("Word",):
                n.value = "scribbled"
            elif type(n).__name__.endswith("Operation"):
                n.children = list(reversed(n.children))
        got = self._run(call, shared, d)
        want = self._run(call, make(), d)
        self.ctx.count("history: earlier result edited in place")
        if got != want:
            self.ctx.fail("after the caller edited an earlier result in place, a long-lived %s answers differently from a "
                          "fresh one" % self.label, dict(info, fresh=want, shared=got))
            self.objs.clear()
            return
        # ... and the edited result itself is handed in again, with operands added that need the work done anew (a
        # comparison, an implicit operation, a fuzzy term): the answer is the one for the tree as it is now (seeded
        # C12-I: "already converted" remembered on the root of a result)
        T = common.impl().tree
        ops = [n for n in all_nodes(res) if isinstance(n, T.BaseOperation)]
        if not ops:
            return
        tgt = self.rng.choice(ops)
        extra = [T.SearchField("stock", T.From(T.Word("0"), False), head=" "),
                 T.Group(T.UnknownOperation(T.Word("p", tail=" "), T.To(T.Word("5"), True)), head=" "),
                 T.Fuzzy(T.Word("q"), None, head=" ")]
        tgt.children = list(tgt.children) + [self.rng.choice(extra)]
        try:
            d3 = common.dump_tree(res)
        except Exception:
            return
        got3 = self._run(call, shared, lambda: res)
        want3 = self._run(call, make(), d3)
        self.ctx.count("history: earlier result edited in place and handed in again")
        if got3 != want3:
            self.ctx.fail("a result edited in place (operands added) and handed in again to the same long-lived %s is not "
                          "treated as a fresh one treats a tree with that content" % self.label,
                          dict(info, tree_now=d3, fresh=want3, shared=got3))
            self.objs.clear()

    def edited_in_place(self, shared, make, call, d, info):
        """the caller edits a tree it already handed in (another term value, operands in another order) and hands the
        SAME object in again: the answer must be the one for the new content (a memo keyed on id / hash / a digest
        taken at the first call shows)"""
        try:
            o = common.load_tree(d)
        except Exception:
            return
        first = self._run(call, shared, lambda: o)
        d2 = edit_in_place(self.rng, d, o)
        if d2 is None:
            return
        got = self._run(call, shared, lambda: o)
        want = self._run(call, make(), d2)
        self.ctx.count("history: same object edited in place")
        if got != want:
            self.ctx.fail("a long-lived %s handed the same tree object again after an in-place edit answers differently "
                          "from a fresh one on the edited tree" % self.label,
                          dict(info, edited=d2, first=first, fresh=want, shared=got))
            self.objs.clear()

    def check(self, key, make, call, d, info, mutants=2, poison=(), deep=0.2):
        key = repr(key)
        if key not in self.objs:
            self.objs[key] = make()
        shared = self.objs[key]
        # inputs on which the call fails half-way: whatever they leave behind must not show afterwards
        todo = [("a tree on which the call fails", dd) for dd in poison if dd is not None]
        if deep and self.rng.random() < deep:
            todo.append(("a deeply nested tree (the call gives up with RecursionError)", self.deep_poison(d)))
        # (twice: what a first answer -- a refusal in particular -- leaves behind must not change the second one;
        # seeded C07-H: a memo of the fields already examined, filled before the check that then raises)
        todo += [("the same tree", d), ("the same tree, a second time", d)]
        for _ in range(mutants):
            mu = gen.mutate_tree(self.rng, d)
            if mu is not None:
                todo.append(("a tree differing in one point (%s)" % mu[1], mu[0]))
        if self.known_params is not None and key not in self.probed:
            self.probed.add(key)
            probe_new_parameters(self.ctx, self.label, shared, make, self.known_params, [d], [deep_tree(self.rng, d)],
                                 lambda x: x, call=call)
        if self.pure and self.rng.random() < 0.5:
            self.structure_only(make, call, d, info)
        if self.rng.random() < 0.3:
            self.edited_in_place(shared, make, call, d, info)
        if self.raw is not None and self.rng.random() < 0.3:
            self.result_edited(shared, make, call, d, info)
        for what, dd in todo:
            try:
                dd() if callable(dd) else common.load_tree(dd)
            except Exception:
                continue
            want = self._run(call, make(), dd)
            got = self._run(call, shared, dd)
            self.ctx.count("history: long-lived %s" % self.label)
            if got != want:
                self.ctx.fail("a long-lived %s answers differently from a fresh one on %s (history dependence)" % (
                    self.label, what), dict(info, second_tree="<deeply nested>" if callable(dd) else dd, fresh=want,
                                            shared=got))
                # a polluted object would fail on everything that follows: start again
                self.objs[key] = make()
                shared = self.objs[key]


def probe_new_parameters(ctx, label, shared, make_fresh, known, good, bad, render, call=None):
    """The pinned entry points take the parameters in `known`. A change may add an OPTIONAL one (a per-call option);
    using it -- on a tree that makes the call fail, then on one that succeeds -- must not change what later plain
    calls on the same long-lived object answer (seeded C13-F: a per-call `spacer` swapped into the instance and
    restored without try/finally). Nothing is probed while the signature is the pinned one."""
    import inspect
    try:
        params = inspect.signature(shared.__call__).parameters.values()
    except (TypeError, ValueError):
        return
    extra = [p for p in params if p.name not in known and p.default is not inspect.Parameter.empty
             and p.kind in (p.POSITIONAL_OR_KEYWORD, p.KEYWORD_ONLY)]
    for p in extra:
        ctx.notes.append("%s has a parameter %r that the pinned tree does not have: probed" % (label, p.name))
        d = p.default
        cands = [not d] if isinstance(d, bool) else [d + 1, 0] if isinstance(d, int) and d is not None else \
            [d + "\n", "\n", "_"] if isinstance(d, str) else ["\n", "_", 1, True, ()]
        for v in cands:
            plain = call if call is not None else (lambda obj, t: obj(t))
            for tree in list(bad) + list(good):
                try:
                    shared(tree() if callable(tree) else common.load_tree(tree), **{p.name: v})
                except Exception:
                    pass
                for g in good:
                    try:
                        want = ("ok", render(plain(make_fresh(), common.load_tree(g))))
                    except Exception as e:
                        want = ("exc", type(e).__name__)
                    try:
                        got = ("ok", render(plain(shared, common.load_tree(g))))
                    except Exception as e:
                        got = ("exc", type(e).__name__)
                    ctx.count("history: optional parameter probed")
                    if got != want:
                        ctx.fail("after a call with the optional parameter %s=%r the long-lived %s answers plain calls "
                                 "differently from a fresh one" % (p.name, v, label),
                                 {"tree": g, "previous": "<deeply nested>" if callable(tree) else tree, "fresh": want,
                                  "shared": got})
                        return
