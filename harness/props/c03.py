"""C03 — parsed structure follows the grammar and precedence, independent of layout."""
from decimal import Decimal

from .. import common, gen, parsing

LEVEL = "proof"
EXTRA_LEAN_MODULES = ["Luqum.Props.C03b", "Luqum.Props.C03c", "Luqum.Props.C03d", "Luqum.Props.GenGlue", "Luqum.Props.GenActions"]
RULE = ("grammar-directed token sequences with random layouts; three-way comparison implementation / LR model "
        "over the generated tables / independent precedence-climbing specification (python); every accepted "
        "query is re-laid-out twice (blank between all tokens; other separator runs) and must give an equal "
        "tree; non-trivial = accepted with at least one operator/prefix/suffix/field/group/range")
ASSUMPTIONS = ["the documented grammar is the one in the docstrings of luqum/parser.py"]
TRUSTED = ["lean/Luqum/Model/{Lexer,Parser}.lean (hand-written) + generated LALR tables",
           "the python specification parser in harness/props/c03.py (used only by the failing-input search)"]


class SpecError(Exception):
    pass


def node(c, ch=(), **kw):
    d = {"c": c}
    d.update(kw)
    d["ch"] = list(ch)
    return d


def dec_canon(text):
    d = Decimal(text).normalize()
    sign, digits, exp = d.as_tuple()
    n = int("".join(map(str, digits)))
    if n == 0:
        return (False, 0, 0)
    while n % 10 == 0:
        n //= 10
        exp += 1
    return (bool(sign), n, exp)


class Spec:
    """precedence climbing over (type, lexeme) tokens: implicit < OR < AND < prefix < field < suffix"""

    def __init__(self, toks):
        self.toks = toks
        self.i = 0

    def peek(self):
        return self.toks[self.i][0] if self.i < len(self.toks) else None

    def next(self):
        t = self.toks[self.i]
        self.i += 1
        return t

    STARTERS = {"TERM", "PHRASE", "REGEX", "TO", "LPAREN", "LBRACKET", "LESSTHAN", "GREATERTHAN", "PLUS",
                "MINUS", "NOT"}

    def parse(self):
        t = self.implicit()
        if self.i != len(self.toks):
            raise SpecError("trailing token %r" % (self.toks[self.i],))
        return t

    def nary(self, cls, sub, sep):
        items = [sub()]
        while True:
            if sep is None:
                if self.peek() not in self.STARTERS:
                    break
            else:
                if self.peek() != sep:
                    break
                self.next()
            items.append(sub())
        return items[0] if len(items) == 1 else node(cls, items)

    def implicit(self):
        return self.nary("UnknownOperation", self.or_, None)

    def or_(self):
        return self.nary("OrOperation", self.and_, "OR_OP")

    def and_(self):
        return self.nary("AndOperation", self.unary, "AND_OP")

    def unary(self):
        k = self.peek()
        if k in ("PLUS", "MINUS", "NOT"):
            self.next()
            return node({"PLUS": "Plus", "MINUS": "Prohibit", "NOT": "Not"}[k], [self.unary()])
        return self.postfix()

    def postfix(self):
        t = self.primary()
        while self.peek() == "BOOST":
            _, text = self.next()[:2]
            t = node("Boost", [t], num=dec_canon(text[1:]) if len(text) > 1 else (False, 1, 0))
        return t

    def term_or_phrase(self):
        k = self.peek()
        if k not in ("TERM", "PHRASE"):
            raise SpecError("term or phrase expected")
        _, text = self.next()[:2]
        return node("Word" if k == "TERM" else "Phrase", v=text)

    def bound(self):
        if self.peek() == "MINUS":
            self.next()
            return node("Prohibit", [self.term_or_phrase()])
        return self.term_or_phrase()

    def primary(self):
        k = self.peek()
        if k is None:
            raise SpecError("unexpected end")
        ty, text = self.next()[:2]
        if ty == "TERM":
            if self.peek() == "COLUMN":
                self.next()
                e = self.unary()
                if e["c"] == "Group":
                    e = dict(e, c="FieldGroup")
                return node("SearchField", [e], name=text)
            if self.peek() == "APPROX":
                _, a = self.next()[:2]
                return node("Fuzzy", [node("Word", v=text)], num=dec_canon(a[1:]) if len(a) > 1 else (False, 5, -1))
            return node("Word", v=text)
        if ty == "PHRASE":
            if self.peek() == "APPROX":
                _, a = self.next()[:2]
                if len(a) > 1 and not a[1:].isdigit():
                    raise SpecError("proximity must be an integer")
                return node("Proximity", [node("Phrase", v=text)], num=(False, int(a[1:]), 0) if len(a) > 1 else (False, 1, 0))
            return node("Phrase", v=text)
        if ty == "REGEX":
            return node("Regex", v=text)
        if ty == "TO":
            return node("Word", v=text)
        if ty == "LPAREN":
            e = self.implicit()
            if self.peek() != "RPAREN":
                raise SpecError(") expected")
            self.next()
            return node("Group", [e])
        if ty == "LBRACKET":
            lo = self.bound()
            if self.peek() != "TO":
                raise SpecError("TO expected")
            self.next()
            hi = self.bound()
            if self.peek() != "RBRACKET":
                raise SpecError("] expected")
            _, close = self.next()[:2]
            return node("Range", [lo, hi], il=text == "[", ih=close == "]")
        if ty in ("LESSTHAN", "GREATERTHAN"):
            return node("To" if ty == "LESSTHAN" else "From", [self.term_or_phrase()], inc=text.endswith("="))
        raise SpecError("unexpected %s" % ty)


def canon_zero(numt):
    neg, n, e = numt
    if n == 0:
        return (False, 0, 0)
    while n % 10 == 0:
        n //= 10
        e += 1
    return (bool(neg), n, e)


def skeleton(d):
    """implementation tree json -> the same shape as the spec's nodes"""
    r = {"c": d["c"]}
    for k in ("v", "name", "il", "ih", "inc"):
        if k in d:
            r[k] = d[k]
    if "num" in d:
        r["num"] = canon_zero(common.canon_num(d["num"]))
    r["ch"] = [skeleton(c) for c in d["ch"]]
    return r


def spec_skeleton(d):
    r = dict(d)
    if "num" in r:
        r["num"] = canon_zero(r["num"])
    r["ch"] = [spec_skeleton(c) for c in d["ch"]]
    return r


def spec_parse(toks):
    try:
        return spec_skeleton(Spec(toks).parse()), None
    except SpecError as e:
        return None, str(e)
    except Exception as e:  # malformed numerals etc.
        return None, "spec: %s" % e


def relayouts(rng, q, toks):
    """two other layouts of the same lexemes"""
    spaced = " ".join(t[1] for t in toks)
    out = []
    pos = 0
    # replace every existing separator run by another run, keep glued tokens glued
    for ty, text, p in toks:
        if p > pos:
            out.append(rng.choice(gen.SEPS) * rng.choice([1, 1, 2]))
        out.append(text)
        pos = p + len(text)
    if pos < len(q):
        out.append(rng.choice(gen.SEPS))
    return [spaced, "".join(out)]


def oracle(ctx, rng, q, r):
    toks = parsing.spec_lex(q)
    real = parsing.lex_tokens(q)
    if toks is not None and real is not None and toks != real:
        ctx.fail("the lexer does not cut the query into the tokens of the documented lexical rules",
                 {"q": q, "tokens": real, "documented": toks})
    if toks is None:
        return
    spec, why = spec_parse(toks)
    if "ok" in r:
        sk = skeleton(r["ok"])
        if spec is None:
            ctx.fail("the parser accepts a query the grammar specification rejects (%s)" % why, {"q": q, "tree": sk})
        elif spec != sk:
            ctx.fail("the tree is not the one dictated by grammar and precedence",
                     {"q": q, "tree": sk, "spec": spec})
        # layout independence
        for q2 in relayouts(rng, q, toks):
            toks2 = parsing.lex_tokens(q2)
            if toks2 is None or [t[:2] for t in toks2] != [t[:2] for t in toks]:
                ctx.count("relayout changed the tokens")
                continue
            r2, t2 = parsing.impl_parse(q2)
            ctx.count("relayouts")
            if "ok" not in r2:
                ctx.fail("a whitespace variant of an accepted query is rejected", {"q": q, "q2": q2, "err": r2})
            elif skeleton(r2["ok"]) != sk or not (t2 == common.load_tree(r["ok"])):
                ctx.fail("two queries differing only in whitespace give different trees", {"q": q, "q2": q2})
    else:
        if r["err"][0] == "ParseSyntaxError" and spec is not None and "invalid number" not in r["err"][1]:
            ctx.fail("the parser rejects a query that the grammar specification derives", {"q": q, "spec": spec,
                                                                                          "err": r["err"]})


def reserved_cases():
    return ["ANDx", "\\AND", "and", "xAND", "A\\ND", "a ANDx b", "a \\AND b", "a and b", "TO", "a TO b", "xTO",
            "NOTa", "NOT a", "\\NOT a", "ORx", "a OR b", "a \\OR b", "a or b", "[a TO b]", "[a TOx b]", "\"AND\"",
            "AND", "a AND", "OR a", "a AND OR b", "a:AND", "AND:a", "a:TO", "TO:a", "a~AND", "NOT", "NOT NOT a"]


LEXEMES = ["a", "AND", "OR", "NOT", "-", "+", "^2", "~", "f:", "(", ")", "\"p\"", "[a TO b]", "<"]


def small_scope(rng, max_len, sample=None):
    """all token sequences up to max_len over representative lexemes (blank separated; `f:` and the suffixes
    glued), or a random sample of them"""
    import itertools
    out = []
    for n in range(1, max_len + 1):
        for combo in itertools.product(LEXEMES, repeat=n):
            q = ""
            for t in combo:
                if t in ("^2", "~") or q.endswith(":") or not q:
                    q += t
                else:
                    q += " " + t
            out.append(q)
    if sample is not None and len(out) > sample:
        out = rng.sample(out, sample)
    return out


def run(ctx):
    rng = ctx.rng
    n = ctx.budget(1200, 30000)
    qs = list(reserved_cases())
    qs += small_scope(rng, 3) + small_scope(rng, 5, sample=ctx.budget(3000, 120000))
    for i in range(n):
        qg = gen.QueryGen(rng, bad_nums=rng.random() < 0.03, max_depth=rng.choice([3, 4, 5]))
        qs.append(gen.malformed(rng, qg) if rng.random() < 0.12 else qg.query())
    for q, r, t in parsing.compare_parses(ctx, qs):
        ok = "ok" in r
        nontrivial = ok and r["ok"]["c"] not in ("Word", "Phrase", "Regex")
        ctx.case(q, nontrivial=nontrivial, sample={"q": q, "tree": repr(t)} if nontrivial else None)
        ctx.count("accepted" if ok else "rejected:" + r["err"][0])
        if ok:
            ctx.count("root:" + r["ok"]["c"])
        oracle(ctx, rng, q, r)


def replay(ctx, rep):
    q = (rep.get("failure") or {}).get("input", {}).get("q")
    if q is None:
        return
    r, t = parsing.impl_parse(q)
    oracle(ctx, ctx.rng, q, r)
