"""C17 — HTML marking wraps exactly the marked elements' text and keeps the query intact."""
import re

from .. import common, gen, trees, parsing

LEVEL = "proof"
EXTRA_LEAN_MODULES = ["Luqum.Props.GenPrint", "Luqum.Props.GenMark"]   # __str__ and mark_node translated from the source (tools/pysym.py)
RULE = ("parsed queries (all constructs, random layouts) x pairs of disjoint random path sets (0..all nodes, "
        "ancestors and descendants marked with equal and different classes) x both modes; the markup is parsed "
        "by a small state machine and the class of every character recomputed from an independent layout of the "
        "tree's text. non-trivial = at least two marked nodes; distinct = distinct (query, ok, ko, mode)")
ASSUMPTIONS = ["the query does not contain the element name used for marking ('lqv'); non-mutation on the implementation"]
TRUSTED = ["lean/Luqum/Model/Naming.lean markTree (hand-written)"]

ELEMENT = "lqv"
ELEMENTS = ("lqv", "lqw")      # several markers live in one process, with the same class names and other elements
TAGS = {e: re.compile(r'<%s class="(ok|ko)">|</%s>' % (e, e)) for e in ELEMENTS}
TAG = TAGS[ELEMENT]


def spans(d, start, out, path=()):
    """independent layout of the printed text: {path: (start, end)} of each node's full text (with head and
    tail); returns the end offset. Mirrors the documented print format, not the implementation's code."""
    c = d["c"]
    if c == "NoneItem":
        out[path] = (start, start)
        return start
    pos = start + len(d["h"])
    ch = d["ch"]
    if c in ("Word", "Phrase", "Regex"):
        pos += len(d["v"])
    elif c == "SearchField":
        pos += len(d["name"]) + 1
        pos = spans(ch[0], pos, out, path + (0,))
    elif c in ("Group", "FieldGroup"):
        pos = spans(ch[0], pos + 1, out, path + (0,)) + 1
    elif c == "Range":
        pos = spans(ch[0], pos + 1, out, path + (0,)) + 2
        pos = spans(ch[1], pos, out, path + (1,)) + 1
    elif c in ("Fuzzy", "Proximity", "Boost"):
        pos = spans(ch[0], pos, out, path + (0,)) + 1
        if not d["num"].get("imp"):
            pos += len(num_text(d["num"]))
    elif c.endswith("Operation"):
        op = {"AndOperation": 3, "OrOperation": 2}.get(c, 0)
        for i, x in enumerate(ch):
            if i:
                pos += op
            pos = spans(x, pos, out, path + (i,))
    elif c in ("Plus", "Prohibit", "Not"):
        pos = spans(ch[0], pos + (3 if c == "Not" else 1), out, path + (0,))
    elif c in ("From", "To"):
        pos = spans(ch[0], pos + 1 + (1 if d["inc"] else 0), out, path + (0,))
    pos += len(d["t"])
    out[path] = (start, pos)
    return pos


def num_text(nj):
    n = int(nj["coeff"])
    e = nj["exp"]
    digits = str(n)
    if e >= 0:
        s = digits + "0" * e if n else "0"
    else:
        digits = digits.rjust(-e + 1, "0")
        s = digits[:e] + "." + digits[e:]
    return ("-" if nj["neg"] else "") + s


def parse_markup(s, element=ELEMENT):
    """-> (text without tags, class per character, well nested?)"""
    text = []
    classes = []
    stack = []
    pos = 0
    ok = True
    for m in TAGS[element].finditer(s):
        chunk = s[pos:m.start()]
        text.append(chunk)
        classes.extend([stack[-1] if stack else None] * len(chunk))
        if m.group(0).startswith("</"):
            if not stack:
                ok = False
            else:
                stack.pop()
        else:
            stack.append(m.group(1))
        pos = m.end()
    chunk = s[pos:]
    text.append(chunk)
    classes.extend([stack[-1] if stack else None] * len(chunk))
    if stack:
        ok = False
    return "".join(text), classes, ok


def oracle(ctx, q, d, ok_paths, ko_paths, outs, info, element=ELEMENT):
    sp = {}
    total = spans(d, 0, sp)
    marked = {p: "ok" for p in ok_paths}
    marked.update({p: "ko" for p in ko_paths})
    expected = [None] * total
    # innermost marked node containing the character: deeper paths later
    for p in sorted(marked, key=len):
        a, b = sp[p]
        for i in range(a, b):
            expected[i] = marked[p]
    plain_text = None
    for parci, out in outs.items():
        text, classes, nested = parse_markup(out, element)
        o = common.load_tree(d)
        if text != o.__str__(head_tail=True):
            ctx.fail("removing the inserted elements does not give back the text of the tree", dict(info, out=out))
        if q is not None and parsing.respell_ok(q, text) is not None:
            # (numerals may be re-spelled exactly as C01 permits: the marker prints through __str__)
            ctx.fail("removing the inserted elements does not give back the original query",
                     dict(info, q=q, printed=text, out=out))
        if not nested:
            ctx.fail("the inserted elements are not properly nested", dict(info, out=out))
        if len(classes) == total and classes != expected:
            i = next(k for k in range(total) if classes[k] != expected[k])
            ctx.fail("character %d is rendered with class %r instead of %r (parcimonious=%s)" % (
                i, classes[i], expected[i], parci), dict(info, out=out))
        if plain_text is None:
            plain_text = classes
        elif classes != plain_text:
            ctx.fail("the parcimonious mode changes the class of some character", dict(info, outs=outs))


def run(ctx):
    I = common.impl()
    rng = ctx.rng
    reqs, exp = [], []
    markers = {e: I.naming.HTMLMarker(element=e) for e in ELEMENTS}
    earlier = []
    for i in range(ctx.budget(300, 6000)):
        if rng.random() < 0.8:
            q, d = trees.parsed_tree(ctx, rng, blank_before_colon=rng.random() < 0.3)
            if d is None:
                continue
        else:
            q, d = None, common.normalize(gen.TreeGen(rng, layout="partial", none_items=0.0).any())
        if any(e in (q or "") for e in ELEMENTS):
            continue
        # (seeded C17-G: the opening tag memoised per class name on the CLASS, so a marker with another element
        # reuses the tag of whichever marker used that class name first)
        element = rng.choice(ELEMENTS)
        marker = markers[element] if rng.random() < 0.8 else I.naming.HTMLMarker(element=element)
        ctx.count("marker element:" + element)
        paths = [p for p, _ in common.tree_nodes(d)]
        k = rng.choice([0, 1, 2, 3, len(paths) // 2, len(paths)])
        chosen = rng.sample(paths, min(k, len(paths)))
        ok_paths = [p for p in chosen if rng.random() < 0.5]
        ko_paths = [p for p in chosen if p not in ok_paths]
        o = common.load_tree(d)
        snap = trees.snapshot(o)
        info = {"tree": d, "ok": sorted(map(list, ok_paths)), "ko": sorted(map(list, ko_paths))}
        outs = {}
        if rng.random() < 0.06:
            trees.poison(rng, d, lambda t: marker(t, {(), (1,)}, {(0,)}, parcimonious=rng.random() < 0.5))
            ctx.count("history: call that fails half-way")
        for parci in (True, False):
            try:
                outs[parci] = marker(o, set(ok_paths), set(ko_paths), parcimonious=parci)
            except Exception as e:
                ctx.fail("HTMLMarker raised %s: %s" % (type(e).__name__, e), info)
                break
            reqs.append({"op": "mark", "tree": d, "ok": info["ok"], "ko": info["ko"], "parcimonious": parci,
                         "element": element})
            exp.append({"str": outs[parci]})
        if len(outs) < 2:
            continue
        ctx.case((q or repr(d), tuple(info["ok"] and map(tuple, info["ok"])), tuple(map(tuple, info["ko"]))),
                 nontrivial=len(chosen) >= 2,
                 sample={"q": q, "ok": info["ok"], "ko": info["ko"], "out": outs[True]} if len(chosen) >= 2 else None)
        ctx.count("marked nodes", len(chosen))
        # the property is about parsed queries; for q the printed form may differ by KF1/KF2
        printed = o.__str__(head_tail=True)
        oracle(ctx, q, d, ok_paths, ko_paths, outs, dict(info, q=q, printed=printed, element=element), element)
        if not trees.unchanged(o, snap):
            ctx.fail("the input tree was modified", info)
        if rng.random() < 0.2:
            # the same marker, right after, on a query that differs from this one in its layout only (other blanks, a
            # default number spelled out): equal for `==`, another text (seeded C17-H: renderings memoised per `==` tree)
            from . import c09
            d2 = common.normalize(c09.relayout(rng, d))
            o2 = common.load_tree(d2)
            outs2 = {}
            try:
                for parci in (True, False):
                    outs2[parci] = marker(o2, set(ok_paths), set(ko_paths), parcimonious=parci)
            except Exception as e:
                ctx.fail("HTMLMarker raised %s: %s" % (type(e).__name__, e), {"tree": d2})
                outs2 = None
            if outs2:
                ctx.count("history: same marker on a re-laid-out query")
                oracle(ctx, None, d2, ok_paths, ko_paths, outs2,
                       {"tree": d2, "ok": info["ok"], "ko": info["ko"], "previous": d, "element": element}, element)
        # ---- re-entrant use of the one long-lived marker: while it marks this tree (at the first membership test on
        # the path set) the same marker marks another tree with other sets; both answers must be those of calls
        # that do not overlap (seeded C17-F: the sets and the mode kept on the marker instead of in the context)
        same = [e for e in earlier if e[5] == element]
        if same and rng.random() < 0.25:
            eo, eok, eko, eparci, eout, _ = rng.choice(same)
            parci = rng.random() < 0.5
            state = {"inner": None, "done": False}

            class ReSet(set):
                def __contains__(self, x, state=state):
                    if not state["done"]:
                        state["done"] = True
                        state["inner"] = marker(eo, set(eok), set(eko), parcimonious=eparci)
                    return set.__contains__(self, x)
            try:
                outer = marker(o, ReSet(ok_paths), ReSet(ko_paths), parcimonious=parci)
            except Exception as e:
                ctx.fail("HTMLMarker raised %s in a re-entrant call: %s" % (type(e).__name__, e), info)
                outer = None
            ctx.count("re-entrant marking")
            if outer is not None and outer != outs[parci]:
                ctx.fail("a marking interrupted by another call on the same marker differs from the uninterrupted one",
                         dict(info, out=outer, expected=outs[parci]))
            if state["inner"] is not None and state["inner"] != eout:
                ctx.fail("a marking started while the same marker works on another tree differs from the same call "
                         "made alone", dict(info, out=state["inner"], expected=eout))
        if len(earlier) < 40:
            par = rng.random() < 0.5
            earlier.append((o, set(ok_paths), set(ko_paths), par, outs[par], element))
    if ctx.model_ok:
        for r, a, e in zip(reqs, common.ask_model(reqs), exp):
            if a != e:
                ctx.disagree("HTMLMarker", {k: v for k, v in r.items() if k != "op"}, a, e)
        ctx.traces_validated = len(reqs)
