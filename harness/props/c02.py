"""C02 — every node's pos/size/head/tail locate its exact text in the original query."""
from .. import common, parsing
from . import c01

LEVEL = "proof"
EXTRA_LEAN_MODULES = ["Luqum.Props.C01b", "Luqum.Props.GenGlue", "Luqum.Props.GenPrint", "Luqum.Props.GenHandle", "Luqum.Props.GenActions"]     # positions without the KF1 hypothesis (parse_laid_exact, node_slices_exact)
RULE = c01.RULE + "; every node of every accepted tree is checked (4 clauses)"
ASSUMPTIONS = c01.ASSUMPTIONS
TRUSTED = c01.TRUSTED


def slice_matches(q, a, b, text, kf_spans):
    """None if q[a:b] is `text` (numeral re-spelling aside); "KF1"/"KF2" if it is so only after
    applying what those known findings predict; else a description"""
    if a < 0 or b > len(q) or a > b:
        return "span (%d,%d) outside the query" % (a, b)
    sl = q[a:b]
    if parsing.respell_ok(sl, text) is None:
        return None
    from .. import known
    inner = [(x - a, y - a) for x, y in kf_spans if a <= x and y <= b]
    for kf1, kf2, tag in ((True, False, "KF1"), (False, True, "KF2"), (True, True, "KF1+KF2")):
        base = parsing.remove_spans(sl, inner) if kf1 else sl
        if kf1 and not inner:
            continue
        if kf2 and not parsing.long_numerals(sl):
            continue
        if known._lossless_explained_base(base, sl, text, kf2):
            return tag
    return "slice %r is not %r" % (sl, text)


def check_node(q, node, path, problems, kf_spans=()):
    s, e = node.span()
    ws, we = node.span(head_tail=True)
    if s is None:
        problems.append((path, "no position", None))
        return
    m = slice_matches(q, s, e, node.__str__(), kf_spans)
    if m is not None:
        problems.append((path, "[pos, pos+size): " + m if not m.startswith("KF") else
                         "[pos, pos+size) differs from the node's text", m if m.startswith("KF") else None))
    m = slice_matches(q, ws, we, node.__str__(head_tail=True), kf_spans)
    if m is not None:
        problems.append((path, "widened span: " + m if not m.startswith("KF") else
                         "widened slice differs from the node's text with head/tail", m if m.startswith("KF") else None))
    last = ws
    for i, c in enumerate(node.children):
        cs, ce = c.span(head_tail=True)
        if cs is None:
            problems.append((path + (i,), "no position", None))
            continue
        if cs < last:
            problems.append((path + (i,), "child span (%d,%d) starts before %d (overlap / out of parent)" % (cs, ce, last), None))
        if ce > we:
            problems.append((path + (i,), "child span (%d,%d) ends after parent's end %d" % (cs, ce, we), None))
        last = ce
        check_node(q, c, path + (i,), problems, kf_spans)


def oracle(ctx, q, t):
    problems = []
    check_node(q, t, (), problems, parsing.blank_before_colon_spans(q))
    if t.span(head_tail=True) != (0, len(q)):
        problems.append(((), "widened span of the root %r is not (0, %d)" % (t.span(head_tail=True), len(q)), None))
    if problems:
        problems.sort(key=lambda p: p[2] is not None)   # unexplained first
        ctx.fail("position bookkeeping: %s at path %s" % (problems[0][1], list(problems[0][0])),
                 {"q": q, "problems": [[list(p), w, kf] for p, w, kf in problems[:8]],
                  "explained_by": sorted({kf for _, _, kf in problems if kf}),
                  "unexplained": sum(1 for _, _, kf in problems if kf is None)})
    return not problems


def run(ctx):
    qs = c01.queries(ctx, ctx.budget(1500, 40000))
    for q, r, t in parsing.compare_parses(ctx, qs):
        ok = "ok" in r
        ctx.case(q, nontrivial=ok, sample={"q": q, "root_span": list(t.span(head_tail=True))} if ok else None)
        ctx.count("accepted" if ok else "rejected:" + r["err"][0])
        if ok:
            n = sum(1 for _ in common.tree_nodes(r["ok"]))
            ctx.count("nodes", n)
            oracle(ctx, q, t)
            parsing.parsed_again_after_edit(ctx, ctx.rng, q, t, oracle)


def replay(ctx, rep):
    q = (rep.get("failure") or {}).get("input", {}).get("q")
    if q is None:
        return
    r, t = parsing.impl_parse(q)
    if t is not None:
        oracle(ctx, q, t)
