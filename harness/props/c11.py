"""C11 — trees produced by the library transformers print to queries with the same meaning."""
import itertools

from .. import common, gen, trees, parsing

LEVEL = "proof"
# the re-lexing theory and the print-and-reparse theorem the C11 / C13 / C18 theorems rest on are audited here
EXTRA_LEAN_MODULES = ["Luqum.Props.LX", "Luqum.Props.Reparse", "Luqum.Props.GenGlue", "Luqum.Props.GenHandle",
                      "Luqum.Props.GenPrint"]   # the lexer's head/tail bookkeeping and __str__ translated from the source
RULE = ("parsed queries (all constructs, random layouts incl. glued tokens) x {default copy, resolver x 4 targets x "
        "add_head, open-range conversion with and without merging, auto_head_tail}: the result is printed, parsed "
        "again, and both trees are compared by truth table over their leaves (all assignments up to 8 distinct "
        "leaves, 64 random ones beyond; implicit operations read as AND and as OR) and by the multiset of leaves "
        "with fields and modifiers. non-trivial = the transformer changed the printed text or the query has an "
        "operation; distinct = distinct (query, transformer)")
ASSUMPTIONS = ["meaning = boolean function of the leaves (terms with field, ranges with bounds and inclusiveness, "
               "fuzzy/proximity with degree), boosts recorded as annotations"]
TRUSTED = ["models of the transformers (lean/Luqum/Model/Transform.lean) and of parser and printer"]


def leaf_id(d, prefix):
    c = d["c"]
    if c in ("Word", "Phrase", "Regex"):
        return (prefix, c, d["v"])
    if c == "Range":
        return (prefix, c, d["il"], d["ih"], tuple(leaf_id(x, ()) if x["c"] in ("Word", "Phrase") else repr(common.strip_tree(x))
                                                      for x in d["ch"]))
    if c in ("From", "To"):
        return (prefix, c, d["inc"], repr(common.strip_tree(d["ch"][0])))
    if c in ("Fuzzy", "Proximity"):
        return (prefix, c, common.canon_num(d["num"]), repr(common.strip_tree(d["ch"][0])))
    return None


def formula(d, prefix=(), boosts=None):
    """boolean formula over leaf ids: ('leaf', id) | ('and'|'or'|'unk'|'bool', [..]) | ('not', f)"""
    c = d["c"]
    lid = leaf_id(d, prefix)
    if lid is not None:
        return ("leaf", lid)
    ch = d["ch"]
    if c in ("Group", "FieldGroup", "Plus"):
        return formula(ch[0], prefix, boosts)
    if c == "Boost":
        f = formula(ch[0], prefix, boosts)
        if boosts is not None:
            boosts.append((common.canon_num(d["num"]), repr(f)))
        return f
    if c in ("Not", "Prohibit"):
        return ("not", formula(ch[0], prefix, boosts))
    if c == "SearchField":
        return formula(ch[0], prefix + tuple(d["name"].split(".")), boosts)
    if c == "BoolOperation":
        return ("bool", [("+" if x["c"] == "Plus" else "-" if x["c"] in ("Not", "Prohibit") else "?",
                          formula(x["ch"][0] if x["c"] in ("Plus", "Not", "Prohibit") else x, prefix, boosts)) for x in ch])
    if c == "UnknownOperation":
        # keep what a boolean reading needs: the prefix of each operand
        return ("unk", [("+" if x["c"] == "Plus" else "-" if x["c"] in ("Not", "Prohibit") else "?",
                         formula(x["ch"][0] if x["c"] in ("Plus", "Not", "Prohibit") else x, prefix, boosts)) for x in ch])
    if c.endswith("Operation"):
        return ({"AndOperation": "and", "OrOperation": "or"}[c], [formula(x, prefix, boosts) for x in ch])
    if c == "NoneItem":
        return ("leaf", (prefix, "none"))
    raise ValueError(c)


def leaves_of(f, acc):
    if f[0] == "leaf":
        acc.append(f[1])
    elif f[0] == "not":
        leaves_of(f[1], acc)
    elif f[0] in ("bool", "unk"):
        for _, x in f[1]:
            leaves_of(x, acc)
    else:
        for x in f[1]:
            leaves_of(x, acc)
    return acc


def ev(f, tau, dflt_or):
    k = f[0]
    if k == "leaf":
        return tau[f[1]]
    if k == "not":
        return not ev(f[1], tau, dflt_or)
    if k == "and":
        return all(ev(x, tau, dflt_or) for x in f[1])
    if k == "or":
        return any(ev(x, tau, dflt_or) for x in f[1])
    if k == "unk" and dflt_or != "bool":
        vals = [(not ev(x, tau, dflt_or)) if s == "-" else ev(x, tau, dflt_or) for s, x in f[1]]
        return (any if dflt_or else all)(vals)
    must = [x for s, x in f[1] if s == "+"]
    mnot = [x for s, x in f[1] if s == "-"]
    should = [x for s, x in f[1] if s == "?"]
    if not all(ev(x, tau, dflt_or) for x in must) or any(ev(x, tau, dflt_or) for x in mnot):
        return False
    if not must and should:
        return any(ev(x, tau, dflt_or) for x in should)
    return True


def same_meaning(rng, a, b, readings=(True, False)):
    """None if trees (json) a and b have the same leaves/modifiers and the same truth table, else why"""
    ba, bb = [], []
    fa, fb = formula(a, (), ba), formula(b, (), bb)
    la, lb = sorted(map(repr, leaves_of(fa, []))), sorted(map(repr, leaves_of(fb, [])))
    if la != lb:
        return "different leaves (terms / fields / ranges / degrees): %s vs %s" % (
            [x for x in la if x not in lb][:2], [x for x in lb if x not in la][:2])
    if sorted(map(repr, ba)) != sorted(map(repr, bb)):
        # a boost annotates a sub-formula; flattening may re-bracket, so compare forces only
        if sorted(x[0] for x in ba) != sorted(x[0] for x in bb):
            return "different boosts"
    ids = sorted(set(leaves_of(fa, [])), key=repr)
    if len(ids) <= 8:
        assigns = itertools.product([False, True], repeat=len(ids))
    else:
        assigns = [tuple(rng.random() < 0.5 for _ in ids) for _ in range(64)]
    for asg in assigns:
        tau = dict(zip(ids, asg))
        for dflt_or in readings:
            if ev(fa, tau, dflt_or) != ev(fb, tau, dflt_or):
                return "different truth value when %s are true (implicit = %s)" % (
                    [repr(i) for i, v in tau.items() if v][:4],
                    "boolean" if dflt_or == "bool" else "OR" if dflt_or else "AND")
    return None


def transformers(I, rng):
    T, U = I.tree, I.utils
    out = [("copy", lambda t: I.visitor.TreeTransformer().visit(t))]
    for name, cls in (("lucene", None), ("and", T.AndOperation), ("or", T.OrOperation), ("bool", T.BoolOperation)):
        for ah in (" ", "\n"):
            out.append(("resolve:%s:%r" % (name, ah), lambda t, cls=cls, ah=ah: U.UnknownOperationResolver(cls, add_head=ah)(t)))
    for merge in (False, True):
        out.append(("openrange:merge=%s" % merge, lambda t, merge=merge: U.OpenRangeTransformer(merge_ranges=merge)(t)))
    out.append(("auto_head_tail", lambda t: I.aht.auto_head_tail(t)))
    # shipped transformers applied one after the other (the resolver's / the range transformer's output handed to
    # auto_head_tail, which is what repairs missing blanks: seeded C11-H: blanks added to hand-built items only)
    for name, cls in (("and", T.AndOperation), ("or", T.OrOperation)):
        out.append(("resolve:%s:''+auto_head_tail" % name,
                    lambda t, cls=cls: I.aht.auto_head_tail(U.UnknownOperationResolver(cls, add_head="")(t))))
    out.append(("openrange:merge=True+auto_head_tail",
                lambda t: I.aht.auto_head_tail(U.OpenRangeTransformer(merge_ranges=True, add_head="")(t))))
    return out


# witnesses of the known findings and shapes that past seeded changes needed (run first, with every transformer)
CORPUS = ["a OR b c", "a(b)", ">1 AND a~2AND <5 3", "a AND b NOT c", "a OR b NOT c", "a AND b -c", "a OR b +c",
          "> 10", "price:>= 10", "(> 10)", "x AND > 10", "date:(<=2021 AND > 5)", "< 10", "(< \"a b\")",
          "a OR b AND c", "f:(a b) c", "NOT a b", "a^2 b~ c", "-a^2", "T12:30 x", "f:T12 30",
          # merges in which the bound taken over has another inclusiveness than the open side it replaces
          "price:(>10 AND <20)", "[1 TO *] AND [* TO 5}", ">=1 AND <5", "{1 TO *] AND <=5", "foo(bar)", "a[1 TO 2]"]


def directed_query(rng):
    w = lambda: rng.choice(["a", "b", "c", "x1", "\"p q\"", "f:a", "10", "(a b)", "b~2", "c^3"])
    pre = lambda: rng.choice(["", "", "NOT ", "-", "+", "NOT  "])
    opn = lambda: rng.choice([" AND ", " OR ", " ", "  "])
    rel = lambda: rng.choice([">", ">=", "<", "<=", "> ", ">=  ", "< ", "<= "]) + rng.choice(["10", "a", "\"x y\""])
    parts = []
    for i in range(rng.choice([2, 3, 4, 5])):
        k = rng.random()
        x = (pre() + w()) if k < 0.6 else rel() if k < 0.85 else "(" + pre() + w() + opn() + rel() + ")"
        parts.append(x)
    q = parts[0]
    for x in parts[1:]:
        q += opn() + x
    if rng.random() < 0.3:
        q = rng.choice(["f:(", "("]) + q + ")"
    return q


PREC = {"UnknownOperation": 0, "BoolOperation": 0, "OrOperation": 1, "AndOperation": 2}


def ends_with_separator(text):
    """the text ends with a blank that really is a separator (not the escaped blank of a term such as `foo\\ `)"""
    if not text or not text[-1].isspace():
        return False
    k, i = 0, len(text) - 2
    while i >= 0 and text[i] == "\\":
        k, i = k + 1, i - 1
    return k % 2 == 0


def repair(node, kinds):
    """apply to a luqum tree what would avoid the known glue / precedence findings"""
    from .. import known
    T = common.impl().tree
    for c in node.children:
        repair(c, kinds)
    if isinstance(node, T.BaseOperation):
        ops = list(node.children)
        for i, c in enumerate(ops):
            if "KF6" in kinds and isinstance(c, T.BaseOperation) and \
                    PREC[type(c).__name__] <= PREC[type(node).__name__] and type(c) is not type(node):
                g = T.Group(c, head=c.head, tail=c.tail)
                c.head = c.tail = ""
                ops[i] = g
            elif "KF6" in kinds and isinstance(c, T.BaseOperation) and type(c) is type(node) and i > 0 and False:
                pass
        node.children = ops
        if "KF7" in kinds and node.op:
            for c in node.children[:-1]:
                text = c.__str__(head_tail=True)
                if not ends_with_separator(text):
                    c.tail = c.tail + " "
            # KF7 is the missing blank BEFORE the operator word only: the resolver always puts `add_head` (a blank
            # here) after it, so a glue after the operator is not explained by it (seeded C11-E: `foo AND bar ANDfoo`)
        if "KF12" in kinds and isinstance(node, T.AndOperation) and node.children:
            last = node.children[-1]
            text = last.__str__(head_tail=True)
            if not ends_with_separator(text):
                last.tail = last.tail + " "
    known._glue_repair_one(node, kinds)


def run(ctx):
    I = common.impl()
    rng = ctx.rng
    TR = transformers(I, rng)
    reqs, exp = [], []
    items = []
    for q in CORPUS:
        r0, t0 = parsing.impl_parse(q)
        if t0 is not None:
            items.append((q, r0["ok"], TR))
    for i in range(ctx.budget(250, 5000)):
        if rng.random() < 0.15:
            # directed: operands that start with a prefix operator / NOT after explicit operations, open ranges at the
            # end of a group or of the query, with blanks after the comparison sign
            q = directed_query(rng)
            r0, t0 = parsing.impl_parse(q)
            d = r0["ok"] if t0 is not None else None
        else:
            q, d = trees.parsed_tree(ctx, rng, max_depth=rng.choice([2, 3, 4]))
        if d is None:
            continue
        items.append((q, d, rng.sample(TR, 4)))
    for q, d, trs in items:
        for name, fn in trs:
            o = common.load_tree(d)
            try:
                res = fn(o)
            except Exception as e:
                ctx.fail("transformer %s raised %s: %s" % (name, type(e).__name__, e), {"q": q})
                continue
            td = common.dump_tree(res)
            printed = res.__str__(head_tail=True)
            has_op = any(n["c"].endswith("Operation") for _, n in common.tree_nodes(d))
            ctx.case((q, name), nontrivial=has_op or printed != q,
                     sample={"q": q, "transformer": name, "printed": printed} if printed != q else None)
            ctx.count(name.split(":")[0])
            info = {"q": q, "transformer": name, "transformed": td, "printed": printed}
            # a boolean operation prints as juxtaposition: the re-parsed implicit operations are read as such
            readings = ("bool",) if name.startswith("resolve:bool") else (True, False)
            r, back = parsing.impl_parse(printed)
            if back is not None and (ctx.escalate or rng.random() < 0.15):
                # "parsing it again": the tree the parser hands out is the caller's to edit; a later parse of the same
                # text must not see such edits (seeded C11-F: parse results memoised by text)
                from . import c04
                c04.scribble(back)
                r_again, _ = parsing.impl_parse(printed)
                if r_again != r:
                    ctx.fail("parsing the printed form a second time, after the first result was edited in place by "
                             "the caller, gives another tree", dict(info, first=r, second=r_again))
                back = common.load_tree(r["ok"])
            why = None
            if back is None:
                why = "the printed form is rejected by the parser (%s)" % (r["err"],)
            else:
                why = same_meaning(rng, td, r["ok"], readings)
            if why is not None:
                explained = []
                # KF6 / KF7 are defects of the resolver only, KF12 of open-range merging only; several findings may
                # be needed at once (e.g. KF7 in one place and KF8 in another): every combination is tried
                base = ["KF8", "KF9"]
                if name.startswith("resolve"):
                    base += ["KF6", "KF7"]
                if name == "openrange:merge=True":
                    base += ["KF12"]
                combos = [c for n in range(1, len(base) + 1) for c in itertools.combinations(base, n)]
                # the known findings are about what a tree with this CONTENT prints to: when the same tree rebuilt from
                # its content through the constructors prints another text, the failure lies in the state of the
                # transformer's result (seeded C11-H: a print template made at construction, stale after the merge
                # assigns the inclusiveness in place), and no finding covers that
                plain = common.load_tree(td)
                if plain.__str__(head_tail=True) != printed:
                    combos = []
                for kinds in combos:
                    if explained and len(kinds) > len(explained[0].split("+")):
                        break          # only minimal explanations
                    fixed = common.load_tree(td)
                    repair(fixed, kinds)
                    r2, back2 = parsing.impl_parse(fixed.__str__(head_tail=True))
                    if back2 is not None and same_meaning(rng, td, r2["ok"], readings) is None:
                        explained.append("+".join(kinds))
                ctx.fail("after %s the printed tree does not parse back to the same meaning: %s" % (name, why),
                         dict(info, explained_by=explained))
