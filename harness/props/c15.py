"""C15 — auto_name gives distinct names to operands of operations, mapped to their paths."""
from .. import common, gen, trees

LEVEL = "proof"
RULE = ("trees without names: parsed queries, programmatic trees, and operations with 1-130 operands (more than "
        "the 52 letters of the alphabet) nested up to depth 4; non-trivial = at least one operation; distinct = "
        "distinct trees")
ASSUMPTIONS = ["the tree carries no name before the call (auto_name does not clear stale names)"]
TRUSTED = ["lean/Luqum/Model/Naming.lean autoName (hand-written) + generated alphabet"]


def wide(rng, depth):
    n = rng.choice([1, 2, 3, 10, 51, 52, 53, 54, 60, 104, 105, 130])
    ch = []
    for i in range(n):
        if depth > 0 and rng.random() < 0.02:
            ch.append(wide(rng, depth - 1))
        elif rng.random() < 0.1:
            ch.append(gen.mk("Group", [gen.mk(rng.choice(gen.OPS), [gen.W("x"), gen.W("y")])]))
        else:
            ch.append(gen.W("w%d" % i))
    return gen.mk(rng.choice(gen.OPS), ch)


def run(ctx):
    I = common.impl()
    rng = ctx.rng
    cases = []
    for i in range(ctx.budget(300, 5000)):
        k = rng.random()
        if k < 0.15:
            cases.append(common.normalize(wide(rng, rng.choice([0, 1, 1, 2]))))
        else:
            cases.append(trees.mixed_tree(ctx, rng, p_parsed=0.5, names=False)[1])
        if rng.random() < 0.25:
            # a near-identical tree right after (one attribute, one child differs): a memo on a lossy digest would show
            mu = gen.mutate_tree(rng, cases[-1])
            if mu is not None and not any(n["n"] is not None for _, n in common.tree_nodes(mu[0])):
                cases.append(common.normalize(mu[0]))
    reqs, exp = [], []
    for d in cases:
        if rng.random() < 0.08:
            # an earlier call in the same process gave up half-way (caught by the application): the next tree must be
            # named as if nothing had happened
            trees.poison(rng, d, I.naming.auto_name)
            ctx.count("history: call that fails half-way")
        if rng.random() < 0.15:
            d = trees.repeat_a_sibling(rng, d)
            ctx.count("trees with a repeated operand")
        o = common.load_tree(d)
        info = {"tree": d}
        if rng.random() < 0.15:
            ctx.count("nodes of user-defined subclasses (mixin first)", trees.user_subclasses(o, rng))
        try:
            m = I.naming.auto_name(o)
        except Exception as e:
            ctx.fail("auto_name raised %s: %s" % (type(e).__name__, e), info)
            continue
        out = common.dump_tree(o)
        has_op = any(n["c"].endswith("Operation") for _, n in common.tree_nodes(d))
        ctx.case(repr(common.strip_tree(d)), nontrivial=has_op,
                 sample={"tree": repr(o)[:200], "names": {k: list(v) for k, v in list(m.items())[:6]}} if has_op else None)
        ctx.count("names", len(m))
        # oracle
        named = {p: n["n"] for p, n in common.tree_nodes(out) if n["n"] is not None}
        expected_paths = [p + (i,) for p, n in common.tree_nodes(d) if n["c"].endswith("Operation")
                          for i in range(len(n["ch"]))]
        if not expected_paths:
            expected_paths = [()]
        if sorted(named) != sorted(expected_paths):
            ctx.fail("the named elements are not exactly the direct operands of the operations", info)
        if len(set(named.values())) != len(named):
            ctx.fail("two elements got the same name", dict(info, names=sorted(named.values())[:80]))
        if {k: tuple(v) for k, v in m.items()} != {v: p for p, v in named.items()}:
            ctx.fail("the returned mapping is not {name: path of the element carrying it}", info)
        for name, path in m.items():
            el = I.naming.element_from_path(o, path)
            if I.naming.get_name(el) != name:
                ctx.fail("element_from_path(mapping[name]) does not carry that name", dict(info, name=name))
                break
        reqs.append({"op": "autoname", "tree": d})
        exp.append({"tree": out, "map": [[k, list(v)] for k, v in m.items()]})
        # ---- the tree is edited (a clause inserted in front of / appended to an operation) and named again: the names
        # of the first naming are all on operands, so the second naming overwrites every one of them and the three
        # clauses hold again (seeded C15-H keeps existing names and hands out colliding new ones)
        ops = [x for x in trees.all_nodes(o) if isinstance(x, I.tree.BaseOperation) and len(x.children) >= 1]
        if ops and rng.random() < 0.2:
            tgt = rng.choice(ops)
            new = I.tree.Word("inserted")
            kids = list(tgt.children)
            tgt.children = [new] + kids if rng.random() < 0.6 else kids + [new]
            try:
                m2 = I.naming.auto_name(o)
            except Exception as e:
                ctx.fail("auto_name raised %s on a tree that was named before: %s" % (type(e).__name__, e), info)
                continue
            out2 = common.dump_tree(o)
            ctx.count("named, edited, named again")
            named2 = {p: n["n"] for p, n in common.tree_nodes(out2) if n["n"] is not None}
            exp2 = [p + (i,) for p, n in common.tree_nodes(out2) if n["c"].endswith("Operation") for i in range(len(n["ch"]))]
            if sorted(named2) != sorted(exp2) or len(set(named2.values())) != len(named2) or \
                    {k: tuple(v) for k, v in m2.items()} != {v: p for p, v in named2.items()}:
                ctx.fail("after an edit and a second auto_name the names are not distinct names of exactly the operands, "
                         "mapped to their paths", dict(info, renamed=out2, map=[[k, list(v)] for k, v in m2.items()]))
    # ---- a tree is named, then rewritten by an application's own transformer (public visitor API: clones through
    # generic_visit, phrases dropped from operations, an operation left with one operand replaced by it), and the
    # RESULT is named: it is a new tree, nothing of the first naming may show in it (seeded C15-G: clones that keep
    # whatever attributes were put on the original)
    class Collapse(I.visitor.TreeTransformer):
        def visit_base_operation(self, node, context):
            new, = super().generic_visit(node, context)
            kids = [c for c in new.children if not isinstance(c, I.tree.Phrase)] or list(new.children)[:1]
            if len(kids) == 1:
                yield kids[0]
            else:
                new.children = kids
                yield new
    for d in cases[:ctx.budget(120, 2000)]:
        if not any(n["c"].endswith("Operation") and n["ch"] for _, n in common.tree_nodes(d)):
            continue
        o = common.load_tree(d)
        try:
            I.naming.auto_name(o)
            o2 = Collapse().visit(o)
            m2 = I.naming.auto_name(o2)
        except Exception:
            continue
        out2 = common.dump_tree(o2)
        ctx.count("named, rewritten by a user transformer, the result named")
        named2 = {p: n["n"] for p, n in common.tree_nodes(out2) if n["n"] is not None}
        exp2 = [p + (i,) for p, n in common.tree_nodes(out2) if n["c"].endswith("Operation") for i in range(len(n["ch"]))]
        if not exp2:
            exp2 = [()]
        if sorted(named2) != sorted(exp2) or len(set(named2.values())) != len(named2) or \
                {k: tuple(v) for k, v in m2.items()} != {v: p for p, v in named2.items()}:
            ctx.fail("the result of a user transformer applied to a named tree, once named itself, does not carry "
                     "distinct names on exactly the operands, mapped to their paths",
                     {"tree": d, "renamed": out2, "map": [[k, list(v)] for k, v in m2.items()]})
    # ---- a query and a filter with the same text, each parsed on its own, joined in one tree and named: the two
    # parses are two trees (seeded C15-H: parse results memoised by text, the SAME object twice in the tree)
    from .. import parsing
    qg2 = gen.QueryGen(rng)
    for _ in range(ctx.budget(40, 600)):
        q = qg2.query()
        _, t1 = parsing.impl_parse(q, "module", history=False)
        _, t2 = parsing.impl_parse(q, "module", history=False)
        if t1 is None or t2 is None:
            continue
        joined = rng.choice([I.tree.AndOperation, I.tree.OrOperation])(I.tree.Group(t1), I.tree.Group(t2))
        try:
            m3 = I.naming.auto_name(joined)
        except Exception:
            continue
        out3 = common.dump_tree(joined)
        ctx.count("the same text parsed twice, joined, named")
        named3 = {p: n["n"] for p, n in common.tree_nodes(out3) if n["n"] is not None}
        exp3 = [p + (i,) for p, n in common.tree_nodes(out3) if n["c"].endswith("Operation") for i in range(len(n["ch"]))]
        if sorted(named3) != sorted(exp3) or len(set(named3.values())) != len(named3) or \
                {k: tuple(v) for k, v in m3.items()} != {v: p for p, v in named3.items()}:
            ctx.fail("two parses of the same text joined in one tree: the names are not distinct names of exactly the "
                     "operands, mapped to their paths", {"q": q, "named": out3, "map": [[k, list(v)] for k, v in m3.items()]})
    if ctx.model_ok:
        for r, a, e in zip(reqs, common.ask_model(reqs), exp):
            if a != e:
                ctx.disagree("auto_name", r["tree"], a if len(str(a)) < 3000 else "(large)", e if len(str(e)) < 3000 else "(large)")
        ctx.traces_validated = len(reqs)
