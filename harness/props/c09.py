"""C09 — tree equality means same meaning-bearing content; clone_item preserves it."""
import copy

from .. import common, gen, trees

LEVEL = "proof"
EXTRA_LEAN_MODULES = ["Luqum.Props.GenClone", "Luqum.Props.GenPrint", "Luqum.Props.GenChildren"]   # clone_item and __str__ translated from the source (tools/pysym.py)
RULE = ("pairs of trees (random programmatic tree over all 20 item classes, incl. non-normalised "
        "Decimals, names, positions, layout) x {itself with other layout/names, single-point mutation "
        "of one attribute of one node, dropped/extra/swapped child, unrelated tree}; every node of the "
        "first tree is also cloned. A case is non-trivial when the two trees are not the same object; "
        "distinct = distinct (tree pair) fingerprints")
ASSUMPTIONS = [
    "numbers are finite Decimals / ints (no NaN, no float); strings contain no lone surrogates",
    "only the 20 concrete item classes of luqum.tree (no user subclasses)",
]
TRUSTED = ["model of Item.__eq__ / clone_item / __str__ in lean/Luqum/Model/Basic.lean (hand-written)"]


def fingerprint(d):
    return common.strip_tree(d)


def relayout(rng, d):
    m = copy.deepcopy(d)
    for _, n in common.tree_nodes(m):
        if rng.random() < 0.5:
            n["h"] = rng.choice(["", " ", "\n"])
            n["t"] = rng.choice(["", " ", "\t"])
        if rng.random() < 0.3:
            n["p"] = rng.randrange(100)
            n["s"] = rng.randrange(100)
        if rng.random() < 0.3:
            n["n"] = rng.choice([None, "a", "zz"])
        if "num" in n and not n["num"].get("imp") and n["c"] != "Proximity" and rng.random() < 0.5:
            # same value, other spelling
            n["num"] = dict(n["num"], coeff=str(int(n["num"]["coeff"]) * 100), exp=n["num"]["exp"] - 2)
    return m


def exotic_pairs(ctx, rng):
    """instances of the public non-leaf classes (Term, BaseGroup, Unary, UnaryOperator, OpenRange, BaseOperation,
    Item) as nodes: outside the Lean model, checked by the oracle only"""
    I = common.impl()
    T = I.tree
    makers = {
        "Term": lambda: T.Term(rng.choice(["foo", "a"])), "Word": lambda: T.Word(rng.choice(["foo", "a"])),
        "Phrase": lambda: T.Phrase('"foo"'), "Item": lambda: T.Item(), "NoneItem": lambda: T.NoneItem(),
        "BaseGroup": lambda: T.BaseGroup(leaf()), "Group": lambda: T.Group(leaf()), "FieldGroup": lambda: T.FieldGroup(leaf()),
        "Unary": lambda: T.Unary(leaf()), "UnaryOperator": lambda: T.UnaryOperator(leaf()), "Plus": lambda: T.Plus(leaf()),
        "Not": lambda: T.Not(leaf()), "OpenRange": lambda: T.OpenRange(leaf(), True), "From": lambda: T.From(leaf(), True),
        "BaseOperation": lambda: T.BaseOperation(leaf(), leaf()), "AndOperation": lambda: T.AndOperation(leaf(), leaf()),
    }

    def leaf():
        return rng.choice([T.Word("foo"), T.Term("foo"), T.Word("a")])

    def fp(n):
        return (type(n).__name__, getattr(n, "value", None), getattr(n, "include", None),
                tuple(fp(c) for c in n.children))
    names = sorted(makers)
    for _ in range(60):
        a, b = makers[rng.choice(names)](), makers[rng.choice(names)]()
        wrap = rng.choice([None, "field", "group", "op"])
        if wrap == "field":
            a, b = T.SearchField("f", a), T.SearchField("f", b)
        elif wrap == "group":
            a, b = T.Group(a), T.Group(b)
        elif wrap == "op":
            a, b = T.OrOperation(T.Word("x"), a), T.OrOperation(T.Word("x"), b)
        e1, e2 = bool(a == b), bool(b == a)
        ctx.case(("exotic", repr(fp(a)), repr(fp(b))), nontrivial=True)
        ctx.count("pair:base-class instances")
        if e1 != (fp(a) == fp(b)) or e1 != e2:
            ctx.fail("__eq__ on trees with instances of the public base classes: a == b is %s, b == a is %s, same "
                     "types and content: %s" % (e1, e2, fp(a) == fp(b)), {"a": repr(fp(a)), "b": repr(fp(b))})


def run(ctx):
    I = common.impl()
    rng = ctx.rng
    exotic_pairs(ctx, rng)
    n = ctx.budget(400, 6000)
    tg = gen.TreeGen(rng, layout="partial", names=True, positions=True, none_items=0.05)
    qg = gen.QueryGen(rng, long_nums=True)
    pairs = []
    parsed_objs = []
    for i in range(n):
        if rng.random() < 0.2:
            try:
                q = qg.query()
                a = common.dump_tree(I.parse(q))
                parsed_objs.append((q, I.parse(q)))
            except Exception:
                a = tg.any()
        else:
            a = tg.any()
        k = rng.random()
        if k < 0.25:
            b, how = relayout(rng, a), "relayout"
        elif k < 0.85:
            m = gen.mutate_tree(rng, a)
            if m is None:
                b, how = relayout(rng, a), "relayout"
            else:
                b, how = m[0], "mut:" + m[1].split(" ")[0]
        else:
            b, how = tg.any(), "other"
        nums = [nd for _, nd in common.tree_nodes(a) if "num" in nd and not nd["num"].get("imp") and nd["c"] != "Proximity"]
        if nums and rng.random() < 0.15:
            # numbers of 17 to 28 significant digits that differ in the last one (or not at all): still told apart
            # exactly at the precision the library normalises with (seeded C09-G: a 16-digit context)
            a = copy.deepcopy(a)
            nd = rng.choice([x for _, x in common.tree_nodes(a) if "num" in x and not x["num"].get("imp")
                             and x["c"] != "Proximity"])
            digits = rng.randint(17, 28)
            coeff = rng.randrange(10 ** (digits - 1), 10 ** digits - 1)
            if coeff % 10 == 0:
                coeff += 1
            nd["num"] = dict(nd["num"], coeff=str(coeff), exp=-rng.randint(0, digits))
            b = copy.deepcopy(a)
            nb_ = next(x for _, x in common.tree_nodes(b) if x.get("num") == nd["num"])
            if rng.random() < 0.6:
                nb_["num"] = dict(nb_["num"], coeff=str(coeff + 1))
                how = "long number, last digit"
            else:
                how = "long number, same"
        na, nb = common.normalize(a), common.normalize(b)
        for orig, norm in ((a, na), (b, nb)):
            probs = common.fidelity_problems(orig, norm)
            if probs:
                ctx.fail("an item built through the public constructor does not carry the content it was given "
                         "(%s at %s: %r became %r)" % (probs[0][1], probs[0][0], probs[0][2], probs[0][3]),
                         {"node": orig, "built": norm})
        pairs.append((na, nb, how))

    # ---- implementation
    impl_eq = []
    clone_reqs = []
    for a, b, how in pairs:
        ta, tb = common.load_tree(a), common.load_tree(b)
        e1, e2 = bool(ta == tb), bool(tb == ta)
        impl_eq.append(e1)
        expected = fingerprint(a) == fingerprint(b)
        key = ("eq", repr(fingerprint(a)), repr(fingerprint(b)))
        ctx.case(key, sample={"a": I.tree.Item.__repr__(ta) if False else repr(ta), "b": repr(tb), "how": how,
                              "equal": e1} if len(ctx.samples) < 3 else None)
        ctx.count("pair:" + how)
        ctx.count("equal" if e1 else "unequal")
        if e1 != expected:
            ctx.fail("__eq__ differs from equality of meaning-bearing content (expected %s)" % expected,
                     {"a": a, "b": b, "how": how})
        if e1 != e2:
            ctx.fail("__eq__ is not symmetric", {"a": a, "b": b})
        if not (ta == ta):
            ctx.fail("__eq__ is not reflexive", {"a": a})
        # compare - edit in place - compare again
        if rng.random() < 0.35:
            b2 = trees.edit_in_place(rng, b, tb)
            if b2 is not None:
                ctx.count("compare, edit in place, compare again")
                fresh = common.load_tree(b2)
                want = fingerprint(a) == fingerprint(b2)
                got = (bool(ta == tb), bool(tb == ta), bool(tb == fresh), bool(fresh == tb))
                if got != (want, want, True, True):
                    ctx.fail("after an in-place edit of a tree that had been compared before, __eq__ no longer follows "
                             "the content: a == b, b == a, b == fresh, fresh == b are %r, content says %r" % (
                                 got, (want, want, True, True)), {"a": a, "b": b, "b_after_edit": b2, "how": how})
                c = tb.clone_item()
                c.children = list(tb.children)
                if not (c == tb) or not (tb == c):
                    ctx.fail("after an in-place edit, the clone given the children is not equal to the original",
                             {"b": b, "b_after_edit": b2})
        # clone every node of a
        stack = [ta]
        while stack:
            node = stack.pop()
            stack.extend(node.children)
            if type(node).__name__ not in ("NoneItem",) or True:
                nd = common.dump_tree(node)
                if rng.random() < 0.15 and getattr(type(node), "_children_attrs", None):
                    # the documented way to clone with a replacement (`clone_item(expr=new_child)`): it must give
                    # that child to this clone only, later plain clones still get placeholders (seeded C09-G)
                    attr = rng.choice(list(type(node)._children_attrs))
                    secret = I.tree.Word("secret")
                    try:
                        ck = node.clone_item(**{attr: secret})
                        if getattr(ck, attr) is not secret:
                            ctx.fail("clone_item(%s=child) does not carry the given child" % attr, {"node": nd})
                    except Exception as e:
                        ctx.fail("clone_item(%s=child) raised %s" % (attr, type(e).__name__), {"node": nd})
                    ctx.count("clone with a keyword override")
                c = node.clone_item()
                cd = common.dump_tree(c)
                clone_reqs.append((nd, cd))
                ctx.count("clone:" + nd["c"])
                # oracle
                if type(c) is not type(node):
                    ctx.fail("clone has another type", {"node": nd})
                if (c.head, c.tail, c.pos, c.size) != (node.head, node.tail, node.pos, node.size):
                    ctx.fail("clone has another layout", {"node": nd})
                if any(type(x).__name__ != "NoneItem" for x in c.children):
                    ctx.fail("clone children are not placeholders", {"node": nd})
                c.children = list(node.children)
                if not (c == node) or not (node == c):
                    ctx.fail("clone with the children is not equal to the original", {"node": nd})
                if str(c) != str(node) or c.__str__(head_tail=True) != node.__str__(head_tail=True):
                    ctx.fail("clone with the children prints differently",
                             {"node": nd, "clone": str(c), "orig": str(node)})
    ctx.count("clones", len(clone_reqs))
    # ---- the same on the objects the PARSER builds (it hands numerals over as text; whatever it remembers of the
    # spelling must survive a clone: seeded C09-G)
    for q, root in parsed_objs:
        stack = [root]
        while stack:
            node = stack.pop()
            stack.extend(node.children)
            c = node.clone_item()
            c.children = list(node.children)
            ctx.count("clones of parser-built nodes")
            if not (c == node) or not (node == c):
                ctx.fail("clone (given the children) of a node built by the parser is not equal to it",
                         {"q": q, "node": common.dump_tree(node)})
            if str(c) != str(node) or c.__str__(head_tail=True) != node.__str__(head_tail=True):
                ctx.fail("clone (given the children) of a node built by the parser prints differently",
                         {"q": q, "node": common.dump_tree(node), "clone": str(c), "orig": str(node)})

    # ---- model
    if ctx.model_ok:
        reqs = [{"op": "eq", "a": a, "b": b} for a, b, _ in pairs]
        reqs += [{"op": "clone", "tree": nd} for nd, _ in clone_reqs]
        reqs += [{"op": "print", "tree": a} for a, _, _ in pairs]
        ans = common.ask_model(reqs)
        k = 0
        for (a, b, how), e in zip(pairs, impl_eq):
            if ans[k].get("eq") != e:
                ctx.disagree("eq", {"a": a, "b": b, "how": how}, ans[k], e)
            k += 1
        for nd, cd in clone_reqs:
            if ans[k].get("tree") != cd:
                ctx.disagree("clone_item", nd, ans[k], cd)
            k += 1
        for a, _, _ in pairs:
            ta = common.load_tree(a)
            want = {"str": str(ta), "strht": ta.__str__(head_tail=True)}
            if ans[k] != want:
                ctx.disagree("print", a, ans[k], want)
            k += 1
        ctx.traces_validated = len(reqs)


def replay(ctx, rep):
    f = rep.get("failure") or {}
    inp = f.get("input") or {}
    I = common.impl()
    if "a" in inp and "b" in inp:
        ta, tb = common.load_tree(inp["a"]), common.load_tree(inp["b"])
        e = bool(ta == tb)
        if e != (fingerprint(inp["a"]) == fingerprint(inp["b"])) or e != bool(tb == ta):
            ctx.fail("__eq__ differs from equality of content", inp)
    elif "node" in inp:
        node = common.load_tree(inp["node"])
        c = node.clone_item()
        ok = type(c) is type(node) and (c.head, c.tail, c.pos, c.size) == (node.head, node.tail, node.pos, node.size)
        c.children = list(node.children)
        ok = ok and c == node and c.__str__(head_tail=True) == node.__str__(head_tail=True)
        if not ok:
            ctx.fail("clone differs", inp)
