"""C01 — parsing is lossless: printing the tree reproduces the query text."""
from .. import common, gen, parsing

LEVEL = "proof"
EXTRA_LEAN_MODULES = ["Luqum.Props.C01Num", "Luqum.Props.C01b", "Luqum.Props.GenRuntime", "Luqum.Props.GenGlue", "Luqum.Props.GenPrint", "Luqum.Props.GenHandle", "Luqum.Props.GenActions"]
RULE = ("grammar-directed query strings (every production, depth 0-4, random Unicode separators at every "
        "token gap, numerals in all spellings incl. >28 digits) + a malformed stream; non-trivial = accepted "
        "by the parser; distinct = distinct strings")
ASSUMPTIONS = ["no lone surrogates in the input", "inputs far below Python's recursion / int-digit limits"]
TRUSTED = ["lexer, head/tail, grammar-action and printing models in lean/Luqum/Model/{Lexer,Parser,Basic}.lean"]


def oracle(ctx, q, t):
    printed = t.__str__(head_tail=True)
    why = parsing.respell_ok(q, printed)
    if why is not None:
        ctx.fail("printing the parsed tree does not give back the query: " + why,
                 {"q": q, "printed": printed})


def queries(ctx, n, malformed=0.1):
    rng = ctx.rng
    out = []
    for i in range(n):
        qg = gen.QueryGen(rng, newline_lexemes=rng.random() < 0.3, long_nums=rng.random() < 0.1,
                          bad_nums=rng.random() < 0.05, blank_before_colon=rng.random() < 0.5)
        if rng.random() < malformed:
            out.append(gen.malformed(rng, qg))
        else:
            out.append(qg.query())
    return out


def run(ctx):
    from . import c04
    held = c04.suspended_generators(common.impl())      # (see there: seeded C01-H)
    ctx.count("generators of the library left suspended during the run", len(held))
    qs = queries(ctx, ctx.budget(1500, 40000))
    for q, r, t in parsing.compare_parses(ctx, qs):
        ok = "ok" in r
        ctx.case(q, nontrivial=ok, sample={"q": q, "printed": t.__str__(head_tail=True)} if ok else None)
        ctx.count("accepted" if ok else "rejected:" + r["err"][0])
        if ok:
            for _, n in common.tree_nodes(r["ok"]):
                ctx.count("node:" + n["c"])
            oracle(ctx, q, t)
            parsing.parsed_again_after_edit(ctx, ctx.rng, q, t, oracle)


def replay(ctx, rep):
    q = (rep.get("failure") or {}).get("input", {}).get("q")
    if q is None:
        return
    r, t = parsing.impl_parse(q)
    if t is not None:
        oracle(ctx, q, t)
