"""C16 — match propagation marks a sub-expression as matching exactly when it is true."""
import itertools

from .. import common, gen, trees

LEVEL = "proof"
EXTRA_LEAN_MODULES = ["Luqum.Props.GenPropagate"]   # _propagate / _status_from_parent translated from the source (tools/pysym.py)
RULE = ("trees named by auto_name (parsed and programmatic, no BoolOperation, no empty operation) x truth "
        "assignments to the terms (all assignments up to 6 terms, random beyond) x both default operations x the names "
        "of named operations (parenthesised operands) reported too when true, or not reported at all; the "
        "cases where a negation lies strictly between a named element and its term are generated too but only "
        "counted. non-trivial = at least one operation; distinct = distinct (tree, assignment, default)")
ASSUMPTIONS = ["hypotheses of the property: no negation strictly between a named element and its term; besides: "
               "no BoolOperation and no operation without operands (the statement gives them no truth value)"]
TRUSTED = ["lean/Luqum/Model/Naming.lean propagate (hand-written; proved equal to the code translated from the source: Props/GenPropagate) + generated class tuples"]

TERMLIKE = ("Word", "Phrase", "Regex", "Range", "Fuzzy", "Proximity")
NEG = ("Not", "Prohibit")


def covered_term(d, path):
    """path of the term a named element covers, and whether a negation lies strictly between"""
    neg_between = False
    first = True
    while True:
        if d["c"] in TERMLIKE:
            return path, neg_between
        if d["c"].endswith("Operation") or not d["ch"]:
            return None, neg_between
        if d["c"] in NEG and not first:
            neg_between = True
        first = False
        d = d["ch"][0]
        path = path + (0,)


def covered_operation(d, path):
    """path of the operation a named element covers (None when it covers a term, or nothing), and whether a negation
    lies strictly between the element and that operation"""
    neg_between = False
    first = True
    while True:
        if d["c"].endswith("Operation"):
            return path, neg_between
        if d["c"] in TERMLIKE or not d["ch"]:
            return None, neg_between
        if d["c"] in NEG and not first:
            neg_between = True
        first = False
        d = d["ch"][0]
        path = path + (0,)


def evaluate(d, path, tau, default_or):
    c = d["c"]
    if c in TERMLIKE:
        return tau[path]
    vals = [evaluate(x, path + (i,), tau, default_or) for i, x in enumerate(d["ch"])]
    if c == "AndOperation":
        return all(vals)
    if c == "OrOperation":
        return any(vals)
    if c == "UnknownOperation":
        return any(vals) if default_or else all(vals)
    if c in NEG:
        return not vals[0]
    return vals[0]


def run(ctx):
    I = common.impl()
    rng = ctx.rng
    T = I.tree
    reqs, exp = [], []
    earlier = []
    for i in range(ctx.budget(250, 4000)):
        origin, d = trees.mixed_tree(ctx, rng, p_parsed=0.5, names=False, none_items=0.0, wild=0.0,
                                     ops=["AndOperation", "OrOperation", "UnknownOperation"])
        if rng.random() < 0.2:
            # two structurally identical operands (`(foo OR bar) AND (foo OR bar)`): they are two elements, with two
            # names and two paths (seeded C16-G: the position of a child looked up with `.index()`, which compares)
            d = trees.repeat_a_sibling(rng, d)
            ctx.count("trees with a repeated operand")
        if any(n["c"] == "BoolOperation" or (n["c"].endswith("Operation") and not n["ch"]) or n["c"] == "NoneItem"
               for _, n in common.tree_nodes(d)):
            ctx.count("skipped: bool / empty operation")
            continue
        o = common.load_tree(d)
        if rng.random() < 0.2:
            # history: the tree was named once already (an earlier search), then embedded in a larger query which is
            # named as a whole -- what a first naming left on the nodes must not leak into the second one
            # (seeded C16-G: names already on a node kept, so two elements end up with one name)
            I.naming.auto_name(o)
            sib = T.Word(rng.choice(["lang", "en", "x"]))
            opc = rng.choice([T.AndOperation, T.OrOperation, T.UnknownOperation])
            inner = T.Group(o) if isinstance(o, T.BaseOperation) or rng.random() < 0.5 else o
            o = opc(inner, sib) if rng.random() < 0.7 else opc(sib, inner)
            d = common.dump_tree(o)
            ctx.count("history: a tree named before, embedded and named again")
        name_to_path = I.naming.auto_name(o)
        named = common.dump_tree(o)
        nodes = dict(common.tree_nodes(named))
        terms = [p for p, n in nodes.items() if n["c"] in TERMLIKE and
                 not any(nodes[p[:k]]["c"] in ("Range", "Fuzzy", "Proximity") for k in range(len(p)))]
        cover = {}
        excluded = False
        for name, path in name_to_path.items():
            tp, negb = covered_term(nodes[tuple(path)], tuple(path))
            cover[tuple(path)] = tp
            excluded = excluded or (negb and tp is not None)
        if len(terms) <= 5:
            assigns = list(itertools.product([False, True], repeat=len(terms)))
            rng.shuffle(assigns)
            assigns = assigns[:8]
        else:
            assigns = [tuple(rng.random() < 0.5 for _ in terms) for _ in range(6)]
        visible = [p for p in nodes if not any(nodes[p[:k]]["c"] in ("Range", "Fuzzy", "Proximity") for k in range(len(p)))]
        cover_op = {p: covered_operation(nodes[p], p) for p, tp in cover.items() if tp is None}
        for a in assigns:
            tau = dict(zip(terms, a))
            matching = {p for p, tp in cover.items() if tp is not None and tau[tp]}
            # a named element which covers an operation (a parenthesised operand, say) has no term of its own; the
            # search engine reports its name when the clause built for that operation matched. Half of the
            # assignments report these names too (truthfully: when the operation is true under either reading of
            # the implicit operation, and no negation lies strictly between the element and the operation); in the
            # other half they are all among the names that were not reported.
            reported_ops = set()
            if rng.random() < 0.5:
                for p, (op_path, negb) in cover_op.items():
                    if op_path is not None and not negb and all(
                            evaluate(nodes[op_path], op_path, tau, dflt) for dflt in (True, False)):
                        reported_ops.add(p)
            if reported_ops:
                ctx.count("assignments where named operations are reported too")
            matching |= reported_ops
            other = set(cover) - matching
            # the documented way from names (as Elasticsearch reports them) to the two path sets
            inv = {tuple(v): k for k, v in name_to_path.items()}
            # the names the search engine reports are the ones carried by the elements themselves
            names_hit = [I.naming.get_name(I.naming.element_from_path(o, p)) for p in sorted(matching)]
            if names_hit != [inv[p] for p in sorted(matching)]:
                ctx.fail("the name carried by an element is not the name the mapping gives to its path",
                         {"tree": named, "carried": names_hit, "mapping": {k: list(v) for k, v in name_to_path.items()}})
                continue
            try:
                # (the reported names as the caller may hold them: a list, a tuple, a set, a one-shot iterable --
                # seeded C16-H: the names read twice)
                spell = rng.choice([list, tuple, set, iter, lambda x: (n for n in x), lambda x: dict.fromkeys(x).keys()])
                m2, o2_ = I.naming.matching_from_names(spell(names_hit), name_to_path)
                if {tuple(x) for x in m2} != set(matching) or {tuple(x) for x in o2_} != set(other):
                    ctx.fail("matching_from_names does not give (paths of the reported names, paths of the others)",
                             {"tree": named, "names": names_hit})
                for nm in names_hit[:3]:
                    el = I.naming.element_from_name(o, nm, name_to_path)
                    if el is not I.naming.element_from_path(o, name_to_path[nm]):
                        ctx.fail("element_from_name differs from element_from_path(mapping[name])", {"tree": named, "name": nm})
            except Exception as e:
                ctx.fail("matching_from_names / element_from_name raised %s: %s" % (type(e).__name__, e), {"tree": named})
            for default_or in (True, False):
                mp = I.naming.MatchingPropagator(T.OrOperation if default_or else T.AndOperation)
                ok, ko = mp(o, matching, other)
                has_op = any(n["c"].endswith("Operation") for n in nodes.values())
                ctx.case((repr(common.strip_tree(d)), a, default_or), nontrivial=has_op,
                         sample={"query": str(o), "true terms": [list(p) for p in terms if tau[p]],
                                 "matching paths": sorted(map(list, ok))} if has_op and len(terms) > 2 else None)
                # ---- re-entrant use of one propagator: while it walks this tree (at the first access to the children
                # of one operation node) the same object propagates another, earlier tree; both answers must be the
                # ones a fresh propagator gives (state kept on the instance between the steps of a call would show)
                if earlier and len(reqs) % 5 == 0 and has_op:
                    o2 = common.load_tree(named)
                    opn = [x for x in trees.all_nodes(o2) if isinstance(x, T.BaseOperation)]
                    tgt = rng.choice(opn)
                    eo, em, eot, edef, eok, eko = rng.choice([e for e in earlier if e[3] == default_or] or earlier)
                    mp2 = I.naming.MatchingPropagator(T.OrOperation if edef else T.AndOperation)
                    state = {"done": False, "inner": None}
                    base_cls = type(tgt)

                    def _children(self, base_cls=base_cls, state=state, mp2=mp2, eo=eo, em=em, eot=eot):
                        if not state["done"]:
                            state["done"] = True
                            state["inner"] = mp2(eo, em, eot)
                        return base_cls.children.fget(self)
                    tgt.__class__ = type(base_cls.__name__, (base_cls,), {"children": property(_children)})
                    if edef == default_or:
                        ok2, ko2 = mp2(o2, matching, other)
                        ctx.count("re-entrant propagation")
                        if state["inner"] is not None and (set(state["inner"][0]), set(state["inner"][1])) != (eok, eko):
                            ctx.fail("a propagation started while the same propagator walks another tree gives a "
                                     "different answer than a fresh propagator", {"tree": named, "default_or": default_or})
                        if (set(ok2), set(ko2)) != (set(ok), set(ko)):
                            ctx.fail("a propagation interrupted by another call on the same propagator gives a different "
                                     "answer than a fresh propagator", {"tree": named, "default_or": default_or})
                # ---- the same propagator, the same root object edited in place (an operand appended through the
                # `children` setter), named again, propagated again: the answer is the one for the tree as it is now
                # (seeded C16-H: the structural walk remembered per root object)
                if has_op and rng.random() < 0.08:
                    o3 = common.load_tree(named)
                    mp3 = I.naming.MatchingPropagator(T.OrOperation if default_or else T.AndOperation)
                    mp3(o3, matching, other)
                    opn = [x for x in trees.all_nodes(o3) if isinstance(x, T.BaseOperation)]
                    tgt = rng.choice(opn)
                    extra = rng.choice([T.Word("extra"), T.Prohibit(T.Word("extra")), T.Group(T.OrOperation(T.Word("e1"), T.Word("e2")))])
                    tgt.children = list(tgt.children) + [extra]
                    n2p3 = I.naming.auto_name(o3)
                    named3 = common.dump_tree(o3)
                    nodes3 = dict(common.tree_nodes(named3))
                    terms3 = [p for p, n in nodes3.items() if n["c"] in TERMLIKE and
                              not any(nodes3[p[:k]]["c"] in ("Range", "Fuzzy", "Proximity") for k in range(len(p)))]
                    tau3 = {p: rng.random() < 0.5 for p in terms3}
                    cover3 = {tuple(pp): covered_term(nodes3[tuple(pp)], tuple(pp)) for pp in n2p3.values()}
                    if not any(negb and tp is not None for tp, negb in cover3.values()):
                        m3 = {p for p, (tp, _) in cover3.items() if tp is not None and tau3[tp]}
                        ok3, ko3 = mp3(o3, m3, set(cover3) - m3)
                        fresh = I.naming.MatchingPropagator(T.OrOperation if default_or else T.AndOperation)(
                            common.load_tree(named3), m3, set(cover3) - m3)
                        ctx.count("history: same propagator, tree edited in place and propagated again")
                        if (set(ok3), set(ko3)) != (set(fresh[0]), set(fresh[1])):
                            ctx.fail("the same propagator, given the same root object again after an in-place edit, answers "
                                     "differently from a fresh propagator on the edited tree",
                                     {"tree": named3, "default_or": default_or})
                        vis3 = [p for p in nodes3 if not any(nodes3[p[:k]]["c"] in ("Range", "Fuzzy", "Proximity") for k in range(len(p)))]
                        if not any(n["c"] == "BoolOperation" for n in nodes3.values()):
                            for p in vis3:
                                if (p in ok3) != evaluate(nodes3[p], p, tau3, default_or) or (p in ok3) == (p in ko3):
                                    ctx.fail("after an in-place edit, sub-expression at %s is not classified once, as its "
                                             "truth value" % list(p), {"tree": named3, "default_or": default_or,
                                                                       "true_terms": [list(q_) for q_ in terms3 if tau3[q_]]})
                                    break
                if len(earlier) < 40:
                    earlier.append((o, set(matching), set(other), default_or, set(ok), set(ko)))
                reqs.append({"op": "propagate", "tree": named, "matching": sorted(map(list, matching)),
                             "other": sorted(map(list, other)), "default_or": default_or})
                exp.append({"ok": sorted(map(list, ok)), "ko": sorted(map(list, ko))})
                if excluded:
                    ctx.count("outside hypotheses (negation between name and term)")
                    continue
                info = {"tree": named, "true_terms": [list(p) for p in terms if tau[p]], "default_or": default_or}
                if (ok & ko) or (ok | ko) != set(visible):
                    ctx.fail("propagation does not classify every sub-expression exactly once", info)
                    continue
                for p in visible:
                    if (p in ok) != evaluate(nodes[p], p, tau, default_or):
                        ctx.fail("sub-expression at %s classified %s but evaluates to %s" % (
                            list(p), "matching" if p in ok else "not matching", not (p in ok)), info)
                        break
    if ctx.model_ok:
        for r, a, e in zip(reqs, common.ask_model(reqs), exp):
            if a != e:
                ctx.disagree("MatchingPropagator", {k: v for k, v in r.items() if k != "op"}, a, e)
        ctx.traces_validated = len(reqs)
