"""C14 — luqum.thread.parse is thread-safe."""
import sys
import threading

from .. import common, gen, parsing

LEVEL = "proof"
EXTRA_LEAN_MODULES = ["Luqum.Props.GenGlue", "Luqum.Props.GenHandle"]   # the parse wrappers are pass-through (translated)
RULE = ("2-4 worker threads, each parsing its own sequence of 1-3 distinct inputs (valid, syntax errors, illegal "
        "characters, malformed numerals) through luqum.thread.parse under a deterministic scheduler: a trace hook "
        "blocks every worker at each call of the PLY lexer's token() / HeadTailLexer.handle (thorough: also "
        "p_* actions) until a seeded schedule grants it the turn, so exactly one worker runs between two lexer "
        "steps and the preemption points are chosen; every outcome is compared with the sequential outcome; the "
        "attribute accesses of the shared parser object are audited. non-trivial = at least two threads "
        "interleave at >= 3 lexer steps; distinct = distinct (inputs, schedule)")
ASSUMPTIONS = ["byte-code level atomicity under the GIL and PLY internals between two lexer steps are exercised by "
               "a stress run only, not by the forced schedules", "the theorem is about the abstract machine of "
               "lean/Luqum/Model/Threads.lean"]
TRUSTED = ["lean/Luqum/Model/Threads.lean (abstract machine)", "the scheduler of harness/props/c14.py"]

GATE_FUNCS = {("lex.py", "token"), ("head_tail.py", "handle")}


class Gate:
    """exactly one worker runs at a time; turns change only at gate points, in the scheduled order"""

    def __init__(self, order, n):
        self.order = order
        self.i = 0
        self.cv = threading.Condition()
        self.alive = set(range(n))
        self.started = set()
        self.n = n
        self.switches = 0
        self.last = None
        self.deadline = 30.0

    def _next(self):
        while self.i < len(self.order) and self.order[self.i] not in self.alive:
            self.i += 1
        if self.i < len(self.order):
            return self.order[self.i]
        return min(self.alive) if self.alive else None   # after the schedule: run the rest one by one

    def gate(self, tid):
        with self.cv:
            self.started.add(tid)
            self.cv.notify_all()
            while True:
                if len(self.started | (set(range(self.n)) - self.alive)) < self.n:
                    # wait until every worker reached its first gate
                    if not self.cv.wait(timeout=self.deadline):
                        raise RuntimeError("scheduler timeout (start)")
                    continue
                nxt = self._next()
                if nxt == tid or nxt is None:
                    if self.i < len(self.order):
                        self.i += 1
                    if self.last is not None and self.last != tid:
                        self.switches += 1
                    self.last = tid
                    self.cv.notify_all()
                    return
                if not self.cv.wait(timeout=self.deadline):
                    raise RuntimeError("scheduler timeout")

    def done(self, tid):
        with self.cv:
            self.alive.discard(tid)
            self.cv.notify_all()


def worker(I, gate, tid, inputs, results, gate_funcs):
    def tracer(frame, event, arg):
        if event == "call":
            code = frame.f_code
            key = (code.co_filename.rsplit("/", 1)[-1], code.co_name)
            if key in gate_funcs:
                gate.gate(tid)
        return None
    out = []
    try:
        gate.gate(tid)
        sys.settrace(tracer)
        for q in inputs:
            r, _ = parsing.impl_parse(q, "thread")
            out.append(r)
    except BaseException as e:  # noqa
        out.append({"err": ["<worker>", repr(e)]})
    finally:
        sys.settrace(None)
        results[tid] = out
        gate.done(tid)


class AuditParser:
    """records which attributes of the shared LRParser object are written / read while parsing"""


def audit_accesses(I):
    """run two parses through thread.parse with the parser's class swapped for a logging subclass"""
    parser = I.parser.parser
    base = type(parser)
    log = {"get": set(), "set": set()}

    class Logging(base):
        def __getattribute__(self, name):
            log["get"].add(name)
            return base.__getattribute__(self, name)

        def __setattr__(self, name, value):
            log["set"].add(name)
            base.__setattr__(self, name, value)
    try:
        parser.__class__ = Logging
        I.thread.parse("a AND (b OR c:d) x~2")
        try:
            I.thread.parse("a AND (")
        except Exception:
            pass
    finally:
        parser.__class__ = base
    return log


def run(ctx):
    I = common.impl()
    rng = ctx.rng
    gate_funcs = set(GATE_FUNCS)
    if ctx.tier == "thorough":
        gate_funcs |= {("parser.py", n) for n in dir(I.parser) if n.startswith("p_") or n.startswith("t_")}
    nasty = ["a^.", "a '", "(a", "\"a\"~1.5", "", "a AND", "'", "a:", "x AND (y OR z",
             # nothing but blanks, several kinds (whatever the outcome is, it is each call's own: seeded C14-H)
             " ", "\t\n", "  \u3000 ", " \xa0  \u3000 ", "\n\n\n"]
    # constructs whose reading depends on what stands to their left (a group after a colon is a field group, a `-`
    # inside a range is a sign ...): an action that looks at the parser's state must look at ITS OWN call's state
    # (seeded C14-G: `p.parser.symstack`, re-bound by whichever call started last)
    contextual = ["title:(foo bar)^2", "(foo bar)^2", "f:(a)^3 x:y", "(a OR b)^0.5 c", "x:(y)^2^3", "[-1 TO 5] (a)^2",
                  "f:(a b) g:(c)^2", "(a)^2 f:(b)^2 (c)^2", "f:[a TO b]^2 (x)", "n:(-1)^2 (-1)^2"]
    for i in range(ctx.budget(40, 600)):
        n = rng.choice([2, 2, 3, 4])
        per_thread = []
        for t in range(n):
            qs = []
            for _ in range(rng.choice([1, 1, 2, 3])):
                qg = gen.QueryGen(rng, bad_nums=rng.random() < 0.2)
                k = rng.random()
                qs.append(rng.choice(nasty) if k < 0.15 else gen.malformed(rng, qg) if k < 0.3 else
                          rng.choice(contextual) if k < 0.42 else qg.query())
            per_thread.append(qs)
        if i < 2:
            # (directed, every run: threads that parse nothing but blanks, of several kinds, at the same time)
            blanks = [" ", "\t\n", "  \u3000 ", " \xa0  \u3000 ", "", "\n\n\n"]
            per_thread = [[blanks[(t + k + i) % len(blanks)] for k in range(3)] for t in range(n)]
        steps = sum(len(parsing.lex_tokens(q) or []) + 2 for qs in per_thread for q in qs) * 2 + 4
        style = rng.choice(["random", "round-robin", "bursts"])
        if style == "random":
            order = [rng.randrange(n) for _ in range(steps)]
        elif style == "round-robin":
            order = [k % n for k in range(steps)]
        else:
            order = []
            while len(order) < steps:
                order += [rng.randrange(n)] * rng.choice([1, 2, 3, 5])
        gate = Gate(order, n)
        results = {}
        # the caller itself has used the thread-safe entry point before; some workers are started in a copy of
        # the caller's context (what asyncio.to_thread / executors with context propagation do)
        try:
            I.thread.parse("caller AND first")
        except Exception:
            pass
        import contextvars
        threads = []
        for t in range(n):
            args = (I, gate, t, per_thread[t], results, gate_funcs)
            if i % 2 == 1 and t % 2 == 0:
                cctx = contextvars.copy_context()
                threads.append(threading.Thread(target=cctx.run, args=(worker,) + args))
            else:
                threads.append(threading.Thread(target=worker, args=args))
        for th in threads:
            th.start()
        for th in threads:
            th.join(timeout=120)
        if any(th.is_alive() for th in threads):
            raise RuntimeError("worker threads did not finish")
        ctx.case((repr(per_thread), tuple(order[:40])), nontrivial=gate.switches >= 3,
                 sample={"inputs": per_thread, "schedule": order[:24], "context switches": gate.switches}
                 if gate.switches >= 3 else None)
        ctx.count("context switches", gate.switches)
        ctx.count("schedule:" + style)
        for t in range(n):
            seq = []
            for q in per_thread[t]:
                r, _ = parsing.impl_parse(q, "module")
                seq.append(r)
            if results.get(t) != seq:
                ctx.fail("a concurrent call returns another outcome than the sequential call on the same input",
                         {"inputs": per_thread, "schedule": order, "thread": t, "got": results.get(t), "sequential": seq})
    # ---- preemption at EVERY line of luqum's own code: thread A is paused at a line of luqum/*.py (tree.py and
    # head_tail.py included), another thread runs one complete parse, A resumes. Module-level scratch state (a flag,
    # a shared decimal context, attributes of a singleton) written before and read after such a line shows
    # (seeded C14-E / C14-G)
    import os
    import queue
    impl_dir = os.path.join(common.snapshot_impl(), "luqum") + os.sep
    for i in range(ctx.budget(9, 60)):
        qa = gen.QueryGen(rng, long_nums=True, bad_nums=rng.random() < 0.3)
        qb = gen.QueryGen(rng, long_nums=rng.random() < 0.3)
        directed = ["x^1.0000000000000000000000000000001 [a TO b] y~2", "f:[1 TO 2] AND (g:{a TO b} OR c^2.50)",
                    "(a [1 TO", "title:(foo bar)^2 (u v)^3 w~0.12345678901234567890123456789012345"]
        # (the first rounds are the directed queries, every run: numbers beyond the working precision, ranges,
        # boosted groups, an input refused half-way)
        a_q = directed[i] if i < len(directed) else rng.choice([qa.query(), qa.query()] + directed)
        b_qs = [qb.query() for _ in range(3)] + ["k^2.50 [1 TO 3]", "{a TO b} x~0.50", "(u", "v]"]
        a_seq = parsing.impl_parse(a_q, "module")[0]
        b_seq = {q: parsing.impl_parse(q, "module")[0] for q in b_qs}
        jobs, done = queue.Queue(), queue.Queue()

        def b_worker():
            while True:
                q = jobs.get()
                if q is None:
                    return
                done.put((q, parsing.impl_parse(q, "thread")[0]))
        tb = threading.Thread(target=b_worker)
        tb.start()
        bad_b = []
        lines = [0]
        every = rng.choice([1, 2, 3])

        def tracer(frame, event, arg):
            if not frame.f_code.co_filename.startswith(impl_dir):
                return None
            if event == "line":
                lines[0] += 1
                if lines[0] % every == 0 and lines[0] < 4000:
                    q = b_qs[lines[0] % len(b_qs)]
                    jobs.put(q)
                    qq, r = done.get(timeout=60)
                    if r != b_seq[qq]:
                        bad_b.append((qq, r))
            return tracer
        a_res = {}

        def a_worker():
            I.thread.parse("warm up")
            sys.settrace(tracer)
            try:
                a_res["r"] = parsing.impl_parse(a_q, "thread")[0]
            finally:
                sys.settrace(None)
        ta = threading.Thread(target=a_worker)
        ta.start()
        ta.join(timeout=300)
        jobs.put(None)
        tb.join(timeout=60)
        ctx.case(("line preemption", a_q, every), nontrivial=lines[0] > 10)
        ctx.count("line-level preemption points", lines[0] // every)
        if a_res.get("r") != a_seq:
            ctx.fail("a call paused at lines of luqum's own code while another thread parses returns another outcome "
                     "than the sequential call", {"input": a_q, "others": b_qs, "got": a_res.get("r"), "sequential": a_seq})
        if bad_b:
            ctx.fail("a call made while another thread is paused inside a parse returns another outcome than the "
                     "sequential call", {"input": bad_b[0][0], "paused": a_q, "got": bad_b[0][1],
                                         "sequential": b_seq[bad_b[0][0]]})
    # free-running stress with a tiny switch interval (no scheduler): byte-code level preemption
    old = sys.getswitchinterval()
    try:
        sys.setswitchinterval(1e-6)
        for i in range(ctx.budget(3, 40)):
            qs = []
            for _ in range(6):
                qg = gen.QueryGen(rng, bad_nums=rng.random() < 0.2, long_nums=rng.random() < 0.4)
                qs.append(gen.malformed(rng, qg) if rng.random() < 0.25 else qg.query())
            expected = [parsing.impl_parse(q, "module")[0] for q in qs]
            got = [None] * len(qs)

            def work(k):
                for _ in range(5):
                    got[k] = parsing.impl_parse(qs[k], "thread")[0]
            ths = [threading.Thread(target=work, args=(k,)) for k in range(len(qs))]
            for th in ths:
                th.start()
            for th in ths:
                th.join(timeout=120)
            ctx.case(("stress", repr(qs)), nontrivial=True)
            ctx.count("stress rounds")
            if got != expected:
                k = next(k for k in range(len(qs)) if got[k] != expected[k])
                ctx.fail("under free-running threads a call returns another outcome than the sequential call",
                         {"inputs": qs, "thread": k, "got": got[k], "sequential": expected[k]})
    finally:
        sys.setswitchinterval(old)
    # audit of the shared parser object
    log = audit_accesses(I)
    allowed_set = {"statestack", "symstack", "state", "token", "errorok"}
    extra = log["set"] - allowed_set - {"__class__"}     # (__class__: the audit's own swap)
    ctx.notes.append({"shared parser attributes written during a parse": sorted(log["set"]),
                      "read": sorted(log["get"])})
    if extra:
        ctx.fail("a parse writes attributes of the shared parser object outside the audited set: %s" % sorted(extra),
                 {"written": sorted(log["set"])})
    # `token` is read by PLY's call_errorfunc only to publish the deprecated module-level yacc.token();
    # luqum's p_error raises without using it
    read_back = (log["get"] & allowed_set) - {"token"}
    if read_back:
        ctx.fail("a parse reads back per-parse state from the shared parser object: %s" % sorted(read_back),
                 {"read": sorted(log["get"])})
    # model side: the parse results themselves are compared by C01-C04; here the machine is exercised
    if ctx.model_ok:
        qs = [q for _ in range(20) for q in [gen.QueryGen(rng).query()]]
        ans = common.ask_model([{"op": "threads", "inputs": qs[:3], "schedule": [rng.randrange(3) for _ in range(400)]}])
        seq = common.ask_model([{"op": "parse", "q": q} for q in qs[:3]])
        if ans[0].get("results") != seq:
            ctx.disagree("abstract machine vs sequential model", {"inputs": qs[:3]}, ans[0], seq)
        ctx.traces_validated += 1
