"""C18 — pretty-printing never changes the query."""
import re

from .. import common, gen, trees, parsing

LEVEL = "proof"
EXTRA_LEAN_MODULES = ["Luqum.Props.GenPrint", "Luqum.Props.GenGlue"]   # __str__ translated from the source (tools/pysym.py)
RULE = ("parsed queries (all constructs, nesting <= 5, lengths below and above the width) x indent in {0,1,2,4,8} x "
        "max_len in {-5,0,1,10,20,40,80,200} x inline_ops; a share of programmatic trees only for the "
        "model/implementation comparison. non-trivial = the output has more than one line or the query has an "
        "operation; distinct = distinct (query, settings)")
ASSUMPTIONS = ["non-mutation and determinism are checked on the implementation"]
TRUSTED = ["lean/Luqum/Model/Pretty.lean (hand-written)"]


def search_around(ctx, I, rng, cases):
    """The printer and its model disagree on these (tree, settings) although no generated query failed: look for a
    failing input NEAR them. The field names and the words of a disagreeing tree are replaced by others from the
    generator's pools (where the spellings that lex in a special way live: time-like words, escapes, reserved words
    in another case ...); a variant counts only if it is a parsed query (its plain text parses to itself)."""
    import copy
    seen = 0
    # smallest disagreeing trees first, one per shape
    by_shape = {}
    for c in sorted(cases, key=lambda c: len(list(common.tree_nodes(c[0])))):
        by_shape.setdefault(repr([(p, n["c"]) for p, n in common.tree_nodes(c[0])]), c)
    for d, indent, max_len, inline in list(by_shape.values())[:60]:
        slots = [(p, n) for p, n in common.tree_nodes(d) if n["c"] in ("Word", "SearchField")]
        if not slots:
            continue
        for _ in range(80):
            d2 = copy.deepcopy(d)
            nodes2 = dict(common.tree_nodes(d2))
            for p, n in rng.sample(slots, min(len(slots), rng.choice([1, 2, 2, 3]))):
                if n["c"] == "Word":
                    nodes2[p]["v"] = rng.choice(gen.WORDS)
                else:
                    nodes2[p]["name"] = rng.choice(gen.FIELDS)
                    if nodes2[p]["ch"][0]["c"] == "Word":      # name and value together: they meet in the text
                        nodes2[p]["ch"][0]["v"] = rng.choice(gen.WORDS)
            try:
                q2 = str(common.load_tree(d2))
            except Exception:
                continue
            r, t = parsing.impl_parse(q2)
            if t is None or str(t) != q2:
                continue
            seen += 1
            try:
                out = I.pretty.Prettifier(indent=indent, max_len=max_len, inline_ops=inline)(t)
            except Exception as e:
                ctx.fail("Prettifier raised %s: %s" % (type(e).__name__, e), {"q": q2})
                continue
            r2, t2 = parsing.impl_parse(out)
            info = {"q": q2, "tree": r["ok"], "indent": indent, "max_len": max_len, "inline_ops": inline, "pretty": out}
            if t2 is None:
                ctx.fail("the pretty-printed text is rejected by the parser", dict(info, err=r2))
            elif not (t2 == t):
                ctx.fail("the pretty-printed text parses to a different tree", dict(info, reparsed=repr(t2)))
    ctx.count("search near the disagreements: parsed variants tried", seen)


def run(ctx):
    I = common.impl()
    rng = ctx.rng
    reqs, exp = [], []
    shared = {}
    for i in range(ctx.budget(500, 10000)):
        parsed = rng.random() < 0.85
        if parsed:
            q, d = trees.parsed_tree(ctx, rng, newline_lexemes=rng.random() < 0.15,
                                     max_depth=rng.choice([3, 4, 5]))
            if d is None:
                continue
        else:
            q, d = None, common.normalize(gen.TreeGen(rng, layout="partial", none_items=0.03).any())
        indent = rng.choice([0, 1, 2, 4, 4, 8])
        max_len = rng.choice([-5, 0, 1, 10, 20, 20, 40, 80, 80, 200])
        inline = rng.random() < 0.5
        o = common.load_tree(d)
        snap = trees.snapshot(o)
        info = {"q": q, "tree": d, "indent": indent, "max_len": max_len, "inline_ops": inline}
        pp = I.pretty.Prettifier(indent=indent, max_len=max_len, inline_ops=inline)
        try:
            out = pp(o)
            ans = {"ok": out}
        except (AttributeError, AssertionError):
            # operations without operands (programmatic trees only): `None.split` or the stick-marker assertion
            out = None
            ans = {"err": "AttributeError"}
        except Exception as e:
            ctx.fail("Prettifier raised %s: %s" % (type(e).__name__, e), info)
            continue
        reqs.append({"op": "pretty", "tree": d, "indent": indent, "max_len": max_len, "inline_ops": inline})
        exp.append(ans)
        has_op = any(n["c"].endswith("Operation") for _, n in common.tree_nodes(d))
        ctx.case((q or repr(d), indent, max_len, inline), nontrivial=has_op or (out or "").count("\n") > 0,
                 sample={"q": q, "settings": [indent, max_len, inline], "pretty": out} if out and "\n" in out else None)
        ctx.count("multi-line" if out and "\n" in out else "one line")
        if not parsed:
            continue
        if out is None:
            ctx.fail("Prettifier fails on a parsed query", info)
            continue
        r, t = parsing.impl_parse(out)
        if t is None:
            ctx.fail("the pretty-printed text is rejected by the parser", dict(info, pretty=out, err=r))
        elif not (t == o):
            ctx.fail("the pretty-printed text parses to a different tree", dict(info, pretty=out, reparsed=repr(t)))
        if pp(o) != out or I.pretty.Prettifier(indent=indent, max_len=max_len, inline_ops=inline)(o) != out:
            ctx.fail("pretty-printing is not deterministic", info)
        if not trees.unchanged(o, snap):
            ctx.fail("the input tree was modified", info)
        # ---- histories: a long-lived printer (one per setting, and the module-level `prettify`) must print every tree
        # as a fresh printer does, whatever it printed before -- in particular a tree that differs from an earlier one
        # only in one attribute (inclusiveness of a bound, a numeral, a value ...)
        key = (indent, max_len, inline)
        if key not in shared:
            shared[key] = I.pretty.Prettifier(indent=indent, max_len=max_len, inline_ops=inline)
        printers = [("shared printer", shared[key])]
        if key == (4, 80, False):
            printers.append(("module-level prettify", I.pretty.prettify))
        for label, sp in printers:
            if rng.random() < 0.12:
                trees.poison(rng, d, sp)      # a call that gives up half-way must leave nothing behind
                ctx.count("history: call that fails half-way")
            if sp(o) != out:
                ctx.fail("%s: output differs from a fresh printer's (history dependence)" % label, info)
            for _ in range(2):
                mu = gen.mutate_tree(rng, d)
                if mu is None:
                    continue
                d2, what = mu
                try:
                    o2 = common.load_tree(d2)
                    want = I.pretty.Prettifier(indent=indent, max_len=max_len, inline_ops=inline)(o2)
                    got = sp(o2)
                except Exception:
                    continue
                ctx.count("history: near-identical tree")
                if got != want:
                    ctx.fail("%s: after printing a tree, a tree differing in one point (%s) is printed differently from "
                             "a fresh printer's output" % (label, what),
                             dict(info, second_tree=d2, fresh=want, shared=got))
    if ctx.model_ok:
        near = []
        for r, a, e in zip(reqs, common.ask_model(reqs), exp):
            if a != e:
                ctx.disagree("Prettifier", {k: v for k, v in r.items() if k != "op"}, a, e)
                near.append((r["tree"], r["indent"], r["max_len"], r["inline_ops"]))
        ctx.traces_validated = len(reqs)
        if near:
            rng.shuffle(near)
            search_around(ctx, I, rng, near)
