"""C10 — UnknownOperationResolver replaces exactly the implicit operations, same meaning."""
import copy

from .. import common, trees

LEVEL = "proof"
EXTRA_LEAN_MODULES = ["Luqum.Props.GenVisit"]   # visit methods translated from the source (tools/pysym.py)
RULE = ("trees (parsed and programmatic; operations with 0..4 operands, nesting depth <= 4, names, layout) x the "
        "four resolve targets x add_head in {' ', '', '\\n', ' \\t'}; non-trivial = the tree contains an implicit "
        "operation; distinct = distinct (tree, target, add_head)")
ASSUMPTIONS = ["non-mutation of the input is checked on the implementation only"]
TRUSTED = ["lean/Luqum/Model/Transform.lean resolveNode (hand-written, incl. the last_operation dict sharing)"]

TARGETS = ["lucene", "and", "or", "bool"]
CLS = {"and": "AndOperation", "or": "OrOperation", "bool": "BoolOperation"}


def relabel(d, target, add_head):
    """the specification for explicit targets: relabel + add_head on later operands; names dropped"""
    r = dict(d)
    r["n"] = None
    r["ch"] = [relabel(c, target, add_head) for c in d["ch"]]
    if d["c"] == "UnknownOperation":
        r["c"] = CLS[target]
        for c in r["ch"][1:]:
            c["h"] = add_head + c["h"]
    return r


def has(d, classes):
    return any(n["c"] in classes for _, n in common.tree_nodes(d))


def oracle(ctx, d, target, add_head, out, info):
    if has(out, ("UnknownOperation",)):
        ctx.fail("an implicit operation is left after resolution", info)
    if target != "lucene":
        want = relabel(d, target, add_head)
        if out != want:
            ctx.fail("the resolved tree is not the input with every implicit operation relabelled "
                     "(type/content/position/order/layout differ)", dict(info, out=out))
    else:
        # structure: same shape, only classes of unknown ops change (to And/Or), heads of later operands
        a = list(common.tree_nodes(d))
        b = list(common.tree_nodes(out))
        if [p for p, _ in a] != [p for p, _ in b]:
            ctx.fail("lucene mode changes the shape of the tree", info)
            return
        explicit = has(d, ("AndOperation", "OrOperation"))
        for (p, x), (_, y) in zip(a, b):
            if x["c"] == "UnknownOperation":
                if y["c"] not in ("AndOperation", "OrOperation"):
                    ctx.fail("lucene mode resolves to %s" % y["c"], info)
                if not explicit and y["c"] != "AndOperation":
                    ctx.fail("lucene mode without explicit operator must resolve to AND", info)
            elif x["c"] != y["c"]:
                ctx.fail("a node that is not an implicit operation changed its type", info)
            for k in ("v", "name", "il", "ih", "inc", "p", "s", "t"):
                if x.get(k) != y.get(k):
                    ctx.fail("attribute %s changed at %s" % (k, list(p)), info)
            if "num" in x and x["num"] != y["num"]:
                ctx.fail("number changed at %s" % list(p), info)
        # heads
        want = relabel(d, "and", add_head)
        for (p, x), (_, y) in zip(common.tree_nodes(want), b):
            if x["h"] != y["h"]:
                ctx.fail("head changed otherwise than by the separator before later operands at %s" % list(p), info)
                break


def run(ctx):
    I = common.impl()
    rng = ctx.rng
    n = ctx.budget(400, 8000)
    reqs, exp = [], []
    U = I.utils.UnknownOperationResolver
    T = I.tree
    tmap = {"lucene": None, "and": T.AndOperation, "or": T.OrOperation, "bool": T.BoolOperation}
    hist = trees.SharedObjects(ctx, rng, "UnknownOperationResolver", known_params={"tree"}, raw=lambda r, t: r(t))
    for i in range(n):
        origin, d = trees.mixed_tree(ctx, rng, p_parsed=0.5, layout="partial", names=True,
                                     ops=["UnknownOperation", "UnknownOperation", "AndOperation", "OrOperation", "BoolOperation"])
        target = rng.choice(TARGETS)
        add_head = rng.choice([" ", " ", "", "\n", " \t"])
        o = common.load_tree(d)
        if i % 9 == 4:
            ctx.count("nodes of user-defined subclasses (mixin first)", trees.user_subclasses(o, rng))
        snap = trees.snapshot(o)
        info = {"tree": d, "target": target, "add_head": add_head}
        try:
            res = U(resolve_to=tmap[target], add_head=add_head)(o)
        except Exception as e:
            ctx.fail("resolver raised %s" % type(e).__name__, dict(info, err=str(e)))
            continue
        out = common.dump_tree(res)
        nontrivial = has(d, ("UnknownOperation",))
        ctx.case((repr(common.strip_tree(d, layout=False)), target, add_head), nontrivial=nontrivial,
                 sample={"query": o.__str__(head_tail=True), "target": target, "resolved": res.__str__(head_tail=True)}
                 if nontrivial else None)
        ctx.count("target:" + target)
        ctx.count(origin)
        oracle(ctx, d, target, add_head, out, info)
        if not trees.unchanged(o, snap):
            ctx.fail("the input tree was modified", info)
        if trees.shares_nodes(o, res):
            ctx.fail("the result shares nodes with the input", info)
        # idempotence
        res2 = U(resolve_to=tmap[target], add_head=add_head)(res)
        if common.dump_tree(res2) != common.dump_tree(I.visitor.TreeTransformer().visit(res)):
            ctx.fail("resolving again changes the tree", info)
        if i % 3 == 0:
            # the documented entry point and the inherited `visit` of the transformer, on one long-lived object
            via_visit = rng.random() < 0.4
            hist.check((target, add_head), lambda: U(resolve_to=tmap[target], add_head=add_head),
                       lambda r, t: common.dump_tree(r.visit(t) if via_visit else r(t)), d, info)
        reqs.append({"op": "resolve", "tree": d, "to": target, "add_head": add_head})
        exp.append(out)
    if ctx.model_ok:
        for r, a, e in zip(reqs, common.ask_model(reqs), exp):
            if a.get("tree") != e:
                ctx.disagree("UnknownOperationResolver", {k: r[k] for k in ("tree", "to", "add_head")}, a, e)
        ctx.traces_validated = len(reqs)
