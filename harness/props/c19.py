"""C19 — schema-derived options make the builder nest and type each mapped field right."""
import json

from .. import common, es, gen, parsing
from . import c07

LEVEL = "proof"
RULE = ("random index mappings (text / keyword / numeric / date leaves, multi-fields, explicit and implicit object "
        "containers, nested containers, nesting up to depth 4, legacy ES<6 layout with document types and "
        "string/not_analyzed, current layout) x every mapped leaf field x both query spellings (full dotted path; "
        "chain of field:( ) groups); plus equivalent spellings of nested / object / sub field specifications. "
        "non-trivial = the field has at least one container ancestor; distinct = distinct (mapping, field, spelling)")
ASSUMPTIONS = ["field names without dots; a field with sub fields ('fields') has no 'properties'"]
TRUSTED = ["lean/Luqum/Model/Schema.lean, Es.lean (hand-written)"]

LEAF_TYPES = ["text", "text", "keyword", "long", "date", "boolean"]


def gen_mapping(rng, depth=0, legacy=False):
    props = {}
    names = rng.sample(es.NAMES, rng.choice([1, 2, 3] if depth else [2, 3, 4]))
    if rng.random() < 0.3:
        names.append(rng.choice(names) + rng.choice(["s", "b", "_x", "1"]))     # `author` / `authors`
    for name in names:
        k = rng.random()
        if depth < 3 and k < 0.25:
            props[name] = {"type": "nested", "properties": gen_mapping(rng, depth + 1, legacy)}
        elif depth < 3 and k < 0.4:
            d = {"properties": gen_mapping(rng, depth + 1, legacy)}
            if rng.random() < 0.6:
                d["type"] = "object"
            props[name] = d
        else:
            if legacy:
                t = rng.choice(["string", "string", "string", "long", "date"])
                d = {"type": t}
                if t == "string" and rng.random() < 0.4:
                    d["index"] = rng.choice(["not_analyzed", "analyzed", "no"])
            else:
                d = {"type": rng.choice(LEAF_TYPES)}
            if rng.random() < 0.2:
                sub = {"type": "keyword"} if not legacy else {"type": "string", "index": "not_analyzed"}
                d["fields"] = {"raw": sub}
                if rng.random() < 0.3:
                    d["fields"]["txt"] = {"type": "text"} if not legacy else {"type": "string"}
            props[name] = d
    return props


def mapped_leaves(props, prefix=(), nested=None, under=()):
    """(path, analysed text?, innermost nested ancestor, kinds of the ancestors) of every leaf field (sub fields
    included)"""
    for name, d in props.items():
        p = prefix + (name,)
        if "properties" in d:
            nn = ".".join(p) if d.get("type") == "nested" else nested
            yield from mapped_leaves(d["properties"], p, nn, under + (d.get("type", "implicit-object"),))
        else:
            yield p, analysed(d), nested, under
            for sn, sd in d.get("fields", {}).items():
                merged = dict({k: v for k, v in d.items() if k != "fields"}, **sd)
                yield p + (sn,), analysed(merged), nested, under + ("multi-field",)


def analysed(d):
    t = d.get("type")
    if t == "text":
        return True
    if t == "string":
        return d.get("index", "") != "not_analyzed"
    return False


def spellings(rng, path):
    """dotted and nested-group spelling of `path:x`"""
    dotted = ".".join(path) + ":x"
    q = "x"
    for i, name in enumerate(reversed(path)):
        q = "%s:%s" % (name, q if i == 0 else "(" + q + ")")
    return [("dotted", dotted), ("nested groups", q)]


def strip_nested(j):
    """-> (list of nested paths outermost first, leaf clause)"""
    paths = []
    while isinstance(j, dict) and "nested" in j:
        paths.append(j["nested"]["path"])
        j = j["nested"]["query"]
    return paths, j


TERM_LEVEL = ("term", "wildcard", "fuzzy", "range", "exists")


def run(ctx):
    I = common.impl()
    rng = ctx.rng
    reqs, exp = [], []
    for i in range(ctx.budget(60, 1500)):
        legacy = rng.random() < 0.3
        props = gen_mapping(rng, 0, legacy)
        extra_props = {}
        if legacy:
            schema = {"mappings": {"type1": {"properties": props}}}
            if rng.random() < 0.45:
                other = {"u" + k: v for k, v in gen_mapping(rng, 2, True).items()}
                containers = [k for k, v in props.items() if "properties" in v]
                if containers and rng.random() < 0.6:
                    # two document types that share a container (same name, same kind) with other members: the fields
                    # of both are mapped (seeded C19-G: the types merged with a shallow dict.update)
                    k = rng.choice(containers)
                    twin = {kk: vv for kk, vv in props[k].items() if kk != "properties"}
                    twin["properties"] = {"v" + kk: vv for kk, vv in gen_mapping(rng, 2, True).items()}
                    other[k] = twin
                    ctx.count("document types sharing a container")
                schema["mappings"]["type2"] = {"properties": other}
                extra_props = other
        else:
            schema = {"mappings": {"properties": props}}
        if rng.random() < 0.3:
            schema["settings"] = {"query": {"default_field": rng.choice(["text", "a"])}}
        try:
            sa = I.schema.SchemaAnalyzer(schema)
            # the options must not depend on which other methods of the analyzer were called before
            pre = rng.sample(["sub_fields", "nested_fields", "object_fields", "not_analyzed_fields",
                              "query_builder_options"], rng.choice([0, 0, 1, 2]))
            for meth in pre:
                r_ = getattr(sa, meth)()
                if not isinstance(r_, dict):
                    list(r_)
            ctx.count("analyzer calls before the options: %d" % len(pre))
            opts = sa.query_builder_options()
            fresh = I.schema.SchemaAnalyzer(schema).query_builder_options()
            if opts != fresh:
                ctx.fail("query_builder_options() depends on the methods called before on the same analyzer (%s)" % pre,
                         {"schema": schema, "before": pre, "options": opts, "fresh": fresh})
            subs = sorted(sa.sub_fields())
        except Exception as e:
            ctx.fail("SchemaAnalyzer raised %s: %s" % (type(e).__name__, e), {"schema": schema})
            continue
        impl_opts = {"default_field": opts["default_field"], "not_analyzed_fields": sorted(opts["not_analyzed_fields"]),
                     "nested_fields": opts["nested_fields"], "object_fields": sorted(opts["object_fields"]),
                     "sub_fields": subs}
        ctx.count("legacy mapping" if legacy else "current mapping")
        all_leaves = list(mapped_leaves(props)) + list(mapped_leaves(extra_props))
        for path, is_text, nested, under in all_leaves:
            for spelling, q in spellings(rng, path):
                if spelling == "nested groups" and "multi-field" in under and False:
                    continue
                r0, t = parsing.impl_parse(q)
                if t is None:
                    continue
                d = r0["ok"]
                info = {"schema": schema, "field": ".".join(path), "q": q}
                # (the option kept for compatibility with 0.6 changes how an ANALYSED word is matched, nothing else;
                # seeded C19-H: tested before the analysed check)
                as_phrase = rng.random() < 0.2
                use = dict(opts, match_word_as_phrase=True) if as_phrase else opts
                r, raw = es.build(use, t)
                if as_phrase:
                    ctx.count("match_word_as_phrase=True")
                ctx.case((json.dumps(schema, sort_keys=True), path, spelling), nontrivial=len(path) > 1,
                         sample={"field": ".".join(path), "ancestors": list(under), "q": q, "json": raw}
                         if len(path) > 2 else None)
                ctx.count("spelling:" + spelling)
                ctx.count("innermost nested: %s" % ("yes" if nested else "no"))
                if not as_phrase:
                    reqs.append({"op": "schema", "schema": schema, "tree": d})
                    exp.append(dict(impl_opts, build=r))
                if "ok" not in r:
                    ctx.fail("querying the mapped field %s raises %s" % (".".join(path), r["err"][0]), dict(info, err=r["err"]))
                    continue
                paths, leaf = strip_nested(raw)
                kind = list(leaf.keys())[0] if isinstance(leaf, dict) and leaf else None
                body = leaf.get(kind) if kind else None
                fld = list(body.keys())[0] if isinstance(body, dict) and kind not in ("query_string", "multi_match", "bool") \
                    else (body or {}).get("default_field")
                if fld != ".".join(path):
                    ctx.fail("the clause is not on the full path %s but on %r" % (".".join(path), fld), dict(info, json=raw))
                if (kind in TERM_LEVEL) != (not is_text):
                    ctx.fail("the clause on %s is %s although the mapped type is %s" % (
                        ".".join(path), kind, "analysed text" if is_text else "not analysed text"), dict(info, json=raw))
                if spelling == "dotted" and not as_phrase and rng.random() < 0.15 and type(t).__name__ == "SearchField":
                    # a parsed tree used as a template: the field is renamed in place and the tree translated again
                    # (seeded C19-H: the split name remembered on the node the first time it is read)
                    others = [pp for pp, _, _, _ in all_leaves if pp != path]
                    if others:
                        p2 = rng.choice(others)
                        t.name = ".".join(p2)
                        r_again, _ = es.build(opts, t)
                        _, t_fresh = parsing.impl_parse(".".join(p2) + ":x")
                        r_fresh, _ = es.build(opts, t_fresh) if t_fresh is not None else (None, None)
                        ctx.count("history: field renamed in place, translated again")
                        if t_fresh is not None and r_again != r_fresh:
                            ctx.fail("a tree whose field was renamed in place (%s -> %s) is not translated as the query "
                                     "with the new name is" % (".".join(path), ".".join(p2)),
                                     dict(info, renamed=".".join(p2), got=r_again, fresh=r_fresh))
                want = [nested] if nested else []
                if paths != want:
                    # KF11 predicts: a nested clause only when the field's own container is the nested one
                    chain = [u for u in under if u != "multi-field"]
                    kf11 = [nested] if (chain and chain[-1] == "nested") else []
                    ctx.fail("nested wrapping %r instead of %r (innermost nested ancestor)" % (paths, want),
                             dict(info, json=raw, explained_by=["KF11"] if paths == kf11 and kf11 != want else []))
    # equivalent spellings of specifications configure identical behaviour
    for i in range(ctx.budget(80, 1500)):
        schema = es.gen_schema(rng)
        cfg1 = es.gen_cfg(rng, schema)
        cfg2 = dict(cfg1)
        if "nested_fields" in cfg1:
            cfg2["nested_fields"] = es.respell_spec(rng, es.nested_spec(schema))
            cfg1 = dict(cfg1, nested_fields=es.nested_spec(schema))
        if "object_fields" in cfg1 and cfg1["object_fields"]:
            tree = {}
            for f in cfg1["object_fields"]:
                parts = f.split(".")
                cur = tree
                for p_ in parts[:-1]:
                    cur = cur.setdefault(p_, {})
                cur[parts[-1]] = None
            cfg2["object_fields"] = tree
        d = common.normalize(es.EsTreeGen(rng, schema, misuse=0.2).tree(rng.choice([1, 2, 3])))
        o = common.load_tree(d)
        r1, _ = es.build(cfg1, o)
        r2, _ = es.build(cfg2, common.load_tree(d))
        ctx.case(("spelling", repr(cfg1), repr(cfg2), repr(common.strip_tree(d))), nontrivial=cfg1 != cfg2)
        ctx.count("spec spelling pairs")
        if r1 != r2:
            ctx.fail("two spellings of the same field specification configure different behaviour",
                     {"cfg1": cfg1, "cfg2": cfg2, "tree": d, "r1": r1, "r2": r2})
        reqs.append({"op": "es", "cfg": es.cfg_json(cfg2), "tree": d})
        exp.append(r2)
    if ctx.model_ok:
        for r, a, e in zip(reqs, common.ask_model(reqs), exp):
            if r["op"] == "schema":
                a = dict(a)
                a["nested_fields"] = a.get("nested_fields")
            if a != e:
                ctx.disagree("SchemaAnalyzer+builder" if r["op"] == "schema" else "builder (spec spelling)",
                             {k: v for k, v in r.items() if k != "op"}, a, e)
        ctx.traces_validated = len(reqs)
