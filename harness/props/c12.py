"""C12 — open ranges convert to equivalent ranges; merging preserves the conjunction."""
import itertools

from .. import common, gen, trees

LEVEL = "proof"
EXTRA_LEAN_MODULES = ["Luqum.Props.GenVisitAht"]   # visit methods translated from the source (tools/pysym.py)
RULE = ("operations (AND / OR / implicit / bool, 1-6 operands, nesting <= 3) whose operands are comparisons, "
        "one-sided / closed / both-open ranges with all inclusiveness flags, the same wrapped in boost / field / "
        "group / NOT, words and nested operations; merge on and off; add_head in {' ', ''}; thorough adds every "
        "operand sequence over {lower, upper, closed, both-open, other} up to length 5 under AND. non-trivial = "
        "contains a comparison or a one-sided range; distinct = distinct (tree, merge, add_head)")
ASSUMPTIONS = ["range semantics over a linear order with * as unbounded; non-mutation checked on the implementation"]
TRUSTED = ["lean/Luqum/Model/Transform.lean openRange / mergeOps (hand-written)"]

BOUNDS = ["1", "3", "5", "a", "m", "a?", "b*", "?", "1*", "\\*", "\\*", "#", "\\?"]


def W(v, **kw):
    return gen.W(v, **kw)


class G:
    def __init__(self, rng):
        self.r = rng

    def lay(self, d):
        if self.r.random() < 0.4:
            d["h"] = self.r.choice(["", " "])
            d["t"] = self.r.choice(["", " "])
        if self.r.random() < 0.2:
            d["n"] = "x"
        if self.r.random() < 0.3:
            d["p"], d["s"] = self.r.randrange(30), self.r.randrange(9)
        return d

    def bound(self, star=0.0):
        r = self.r
        if r.random() < star:
            return self.lay(W("*"))
        if r.random() < 0.1:
            return self.lay(gen.P('"%s"' % r.choice(BOUNDS)))
        if r.random() < 0.12:
            # a negative bound is not a leaf (`[-5 TO *]`: a prohibited word); seeded C12-G: the bound taken over by
            # a merge re-created without its children
            return self.lay(gen.mk("Prohibit", [self.lay(W(r.choice(["5", "1", "10"])))]))
        return self.lay(W(r.choice(BOUNDS)))

    def rng_(self, kind):
        r = self.r
        il, ih = r.random() < 0.5, r.random() < 0.5
        if kind == "lower":
            return self.lay(gen.mk("Range", [self.bound(), self.lay(W("*"))], il=il, ih=ih))
        if kind == "upper":
            return self.lay(gen.mk("Range", [self.lay(W("*")), self.bound()], il=il, ih=ih))
        if kind == "closed":
            return self.lay(gen.mk("Range", [self.bound(), self.bound()], il=il, ih=ih))
        if kind == "open":
            return self.lay(gen.mk("Range", [self.lay(W("*")), self.lay(W("*"))], il=il, ih=ih))
        if kind == "from":
            return self.lay(gen.mk("From", [self.bound()], inc=il))
        if kind == "to":
            return self.lay(gen.mk("To", [self.bound()], inc=il))
        raise ValueError(kind)

    def operand(self, d):
        r = self.r
        k = r.random()
        if k < 0.55:
            return self.rng_(r.choice(["lower", "upper", "lower", "upper", "closed", "open", "from", "to", "from", "to"]))
        if k < 0.65:
            return self.lay(W(r.choice(["x", "y", "*"])))
        if k < 0.72:
            return self.lay(gen.mk("Boost", [self.operand(d - 1)], num=gen.num(2)))
        if k < 0.79:
            return self.lay(gen.mk("SearchField", [self.operand(d - 1)], name="f"))
        if k < 0.84:
            return self.lay(gen.mk("Group", [self.tree(d - 1)]))
        if k < 0.88:
            return self.lay(gen.mk("Not", [self.operand(d - 1)]))
        return self.tree(d - 1)

    def tree(self, d):
        r = self.r
        if d <= 0:
            return self.rng_(r.choice(["lower", "upper", "from", "to", "closed"]))
        cls = r.choice(["AndOperation", "AndOperation", "AndOperation", "OrOperation", "UnknownOperation", "BoolOperation"])
        n = r.choice([1, 2, 3, 3, 4, 5, 6])
        return self.lay(gen.mk(cls, [self.operand(d) for _ in range(n)]))


def convert(d, add_head):
    """plain conversion (specification for merge off); names dropped as the transformer does"""
    ch = [convert(c, add_head) for c in d["ch"]]
    r = dict(d, n=None, ch=ch)
    if d["c"] in ("From", "To"):
        star = gen.W("*")
        c = ch[0]
        r = {"c": "Range", "h": d["h"], "t": d["t"], "p": d["p"], "s": d["s"], "n": None}
        if d["c"] == "From":
            c = dict(c, t=c["t"] + add_head)
            star["h"] = add_head
            r.update(il=d["inc"], ih=True, ch=[c, star])
        else:
            c = dict(c, h=c["h"] + add_head)
            star["t"] = add_head
            r.update(il=True, ih=d["inc"], ch=[star, c])
    return r


def is_star(d):
    return d["c"] == "Word" and d["v"] == "*"


def one_sided(d):
    return d["c"] == "Range" and (is_star(d["ch"][0]) != is_star(d["ch"][1]))


def bound_values(d, acc):
    for _, n in common.tree_nodes(d):
        if n["c"] == "Range":
            for b in n["ch"]:
                if "v" in b and not is_star(b):
                    acc.add(b["v"])
    return acc


def sat(rg, x, rank):
    lo, hi = rg["ch"]
    ok = True
    if "v" in lo and not is_star(lo):
        ok = ok and (rank[lo["v"]] <= x if rg["il"] else rank[lo["v"]] < x)
    if "v" in hi and not is_star(hi):
        ok = ok and (x <= rank[hi["v"]] if rg["ih"] else x < rank[hi["v"]])
    return ok


def check_merge(ctx, plain, out, info, path=()):
    """`plain` = converted without merging, `out` = converted with merging"""
    if plain["c"] != out["c"]:
        ctx.fail("merging changed a node type at %s" % list(path), info)
        return
    if plain["c"] == "AndOperation":
        if {k: v for k, v in plain.items() if k != "ch"} != {k: v for k, v in out.items() if k != "ch"}:
            ctx.fail("merging changed the AND node itself (layout / position) at %s" % list(path), info)
            return
        a_r = [c for c in plain["ch"] if one_sided(c)]
        a_o = [c for c in plain["ch"] if not one_sided(c)]
        b_r = [c for c in out["ch"] if c["c"] == "Range" and not any(c is x for x in [])]
        # operands that are not one-sided ranges must survive, in order
        b_o = []
        b_ranges = []
        ia = 0
        for c in out["ch"]:
            # (an operand that is not a one-sided range passes through as it is, layout included: a merged range that
            # happens to have the same bounds as a later closed operand is not taken for it)
            if c["c"] == "Range" and not (ia < len(a_o) and a_o[ia]["c"] == "Range" and a_o[ia] == c):
                b_ranges.append(c)
            else:
                b_o.append(c)
                ia += 1
        if len(b_o) != len(a_o):
            ctx.fail("merging dropped / added an operand that is not a one-sided range", info)
            return
        for i, (x, y) in enumerate(zip(a_o, b_o)):
            check_merge(ctx, x, y, info, path + (i,))
        vals = sorted(bound_values(plain, set()) | bound_values(out, set()))
        rank = {v: 2 * i + 1 for i, v in enumerate(vals)}
        for x in range(0, 2 * len(vals) + 2):
            if all(sat(r, x, rank) for r in a_r) != all(sat(r, x, rank) for r in b_ranges):
                ctx.fail("merging changed the conjunction of the ranges (value rank %d)" % x, info)
                return
        if len(b_ranges) > len(a_r):
            ctx.fail("merging created ranges", info)
    else:
        if len(plain["ch"]) != len(out["ch"]):
            ctx.fail("merging changed the operands of a node that is not an AND at %s" % list(path), info)
            return
        if {k: v for k, v in plain.items() if k != "ch"} != {k: v for k, v in out.items() if k != "ch"}:
            ctx.fail("merging changed a node that is not a direct one-sided range operand of an AND at %s" % list(path), info)
            return
        for i, (x, y) in enumerate(zip(plain["ch"], out["ch"])):
            check_merge(ctx, x, y, info, path + (i,))


def run(ctx):
    I = common.impl()
    rng = ctx.rng
    g = G(rng)
    cases = []
    for i in range(ctx.budget(400, 6000)):
        cases.append((common.normalize(g.tree(rng.choice([1, 1, 2, 3]))), rng.random() < 0.6, rng.choice([" ", " ", ""])))
    if ctx.tier == "thorough" or ctx.escalate:
        kinds = ["lower", "upper", "closed", "open", "other"]
        for n in range(1, 6):
            for combo in itertools.product(kinds, repeat=n):
                ops = [g.lay(W("x")) if k == "other" else g.rng_(k) for k in combo]
                cases.append((common.normalize(gen.mk("AndOperation", ops)), True, " "))
    for j in range(ctx.budget(60, 600)):
        origin, d = trees.mixed_tree(ctx, rng, p_parsed=0.7)
        cases.append((d, rng.random() < 0.5, " "))
    reqs, exp = [], []
    hist = trees.SharedObjects(ctx, rng, "OpenRangeTransformer", known_params={"tree"}, raw=lambda r, t: r(t))
    for ci, (d, merge, add_head) in enumerate(cases):
        o = common.load_tree(d)
        if ci % 9 == 4:
            # node classes an application derives (mixin first), possibly after the library's visitors were first used
            # (seeded C12-I: one dispatch table per visitor class, built at the first dispatch). Only the comparisons
            # and the operations are re-classed: the transformer recognises an open side by `bound == Word("*")`, and
            # equality is by exact class, so a derived word is -- by design -- not the wildcard
            derived = [x for x in trees.all_nodes(o) if isinstance(x, (I.tree.OpenRange, I.tree.BaseOperation, I.tree.SearchField))]
            n_sub = 0
            for x in derived:
                if rng.random() < 0.6:
                    n_sub += trees.user_subclasses(x, rng, share=1.0, only_root=True)
            ctx.count("nodes of user-defined subclasses (mixin first)", n_sub)
        snap = trees.snapshot(o)
        info = {"tree": d, "merge": merge, "add_head": add_head}
        try:
            res = I.utils.OpenRangeTransformer(merge_ranges=merge, add_head=add_head)(o)
        except Exception as e:
            ctx.fail("transformer raised %s: %s" % (type(e).__name__, e), info)
            continue
        out = common.dump_tree(res)
        nontrivial = any(n["c"] in ("From", "To") or one_sided(n) for _, n in common.tree_nodes(d))
        ctx.case((repr(common.strip_tree(d, layout=False)), merge, add_head), nontrivial=nontrivial,
                 sample={"query": o.__str__(head_tail=True), "merge": merge, "out": res.__str__(head_tail=True)}
                 if nontrivial else None)
        ctx.count("merge" if merge else "plain")
        if any(n["c"] in ("From", "To") for _, n in common.tree_nodes(out)):
            ctx.fail("a comparison is left after conversion", info)
        plain = convert(d, add_head)
        if not merge:
            if out != plain:
                ctx.fail("conversion is not 'each comparison becomes the bracketed range with the same bound and "
                         "inclusiveness, nothing else changes'", dict(info, out=out))
        else:
            check_merge(ctx, plain, out, dict(info, out=out))
        if not trees.unchanged(o, snap):
            ctx.fail("the input tree was modified", info)
        if ci % 3 == 0:
            hist.check((merge, add_head), lambda: I.utils.OpenRangeTransformer(merge_ranges=merge, add_head=add_head),
                       lambda r, t: common.dump_tree(r(t)), d, info)
        reqs.append({"op": "openrange", "tree": d, "merge": merge, "add_head": add_head})
        exp.append(out)
    if ctx.model_ok:
        for r, a, e in zip(reqs, common.ask_model(reqs), exp):
            if a.get("tree") != e:
                ctx.disagree("OpenRangeTransformer", {k: r[k] for k in ("tree", "merge", "add_head")}, a, e)
        ctx.traces_validated = len(reqs)
