"""C20 — LuceneCheck is total, consistent, and finds an ill-formed construct anywhere."""
import copy
import json

from .. import common, gen, trees

LEVEL = "proof"
EXTRA_LEAN_MODULES = ["Luqum.Props.GenCheck"]   # LuceneCheck.check translated from the source (tools/pysym.py)
RULE = ("(a) arbitrary trees over all 20 item classes (any root, NoneItem, empty operations, negative degrees) "
        "x zeal 0/1/2: totality, errors()/__call__ consistency, non-mutation, messages equal to the model's; "
        "(b) well-formed trees built only from the constructs the property names: accepted; (c) each of the 7 "
        "defect kinds injected at every position reachable through operations, groups, fields, boosts and "
        "prefixes of such trees: rejected. non-trivial = more than one node; distinct = distinct (tree, zeal)")
ASSUMPTIONS = ["trees of the 20 concrete item classes (direct instances of the abstract bases and non-Item "
               "operands are outside the claim)"]
TRUSTED = ["lean/Luqum/Model/Check.lean (hand-written) + generated method table"]

W, P, mk, num = gen.W, gen.P, gen.mk, gen.num


class WF:
    """well-formed trees by construction"""

    def __init__(self, rng, zeal):
        self.r = rng
        self.zeal = zeal

    def word(self):
        return W(self.r.choice(["a", "b", "foo", "x1", "é", "a*", "1"] + ([] if self.zeal else ["a-b", "x/y", "a+b"])))

    def phrase(self):
        return P(self.r.choice(['"a b"', '""', '"x"']))

    def value(self, d):
        """something allowed directly after field:"""
        r = self.r
        k = r.random()
        if k < 0.3:
            return self.word()
        if k < 0.45:
            return self.phrase()
        if k < 0.55:
            return mk("Fuzzy", [self.word()], num=num(r.choice([0, 1, 5]), r.choice([0, -1])))
        if k < 0.65:
            return mk("Proximity", [self.phrase()], num=num(r.choice([0, 1, 3])))
        if k < 0.8:
            return mk("Boost", [self.expr(d - 1, False)], num=num(2))
        return mk("FieldGroup", [self.expr(d - 1, False)])

    def expr(self, d, under_or):
        r = self.r
        k = r.random()
        if d <= 0:
            k *= 0.4
        if k < 0.2:
            return self.word()
        if k < 0.28:
            return self.phrase()
        if k < 0.34:
            lo = self.word() if r.random() < 0.7 else self.phrase()
            hi = self.word() if r.random() < 0.7 else self.phrase()
            return mk("Range", [lo, hi], il=r.random() < 0.5, ih=r.random() < 0.5)
        if k < 0.38:
            return mk("Fuzzy", [self.word()], num=num(r.choice([0, 1, 5]), r.choice([0, -1])))
        if k < 0.42:
            return mk("Proximity", [self.phrase()], num=num(r.choice([0, 1, 3])))
        if k < 0.5:
            return mk("Boost", [self.expr(d - 1, False)], num=num(r.choice([1, 2, 15]), r.choice([0, -1])))
        if k < 0.6:
            return mk("Group", [self.expr(d - 1, False)])
        if k < 0.72:
            return mk("SearchField", [self.value(d)], name=r.choice(["f", "title", "a_b", "x1", "été", "2019", "1st_author", "007", "_x", "日本"]))
        if k < 0.9:
            cls = r.choice(["AndOperation", "OrOperation", "UnknownOperation", "BoolOperation"])
            n = r.choice([1, 2, 2, 3, 4])
            return mk(cls, [self.expr(d - 1, cls == "OrOperation") for _ in range(n)])
        if k < 0.94:
            return mk("Plus", [self.expr(d - 1, False)])
        if under_or and self.zeal:
            return self.word()
        return mk(r.choice(["Not", "Prohibit"]), [self.expr(d - 1, False)])


def defects(rng):
    return [
        ("word containing whitespace", W(rng.choice(["a b", "a\tb", " a", "x\ny", "a\\ b", "a\\\\ b", "x\\\tb", "b\\ "]))),
        ("fuzzy on a non-word", mk("Fuzzy", [rng.choice([P('"a"'), mk("Group", [W("a")])])], num=num(1))),
        ("proximity on a non-phrase", mk("Proximity", [rng.choice([W("a"), mk("Group", [P('"a"')])])], num=num(2))),
        ("negative fuzziness", mk("Fuzzy", [W("a")], num=num(rng.choice([1, 5]), rng.choice([0, -1]), neg=True))),
        ("invalid field name", mk("SearchField", [W("a")], name=rng.choice(["bad name", "a-b", "", "a.b", "f:g", "cafe\u0301", "a\u00b7b", "x\n", "f\n"]))),
        ("non-value field expression", mk("SearchField", [rng.choice([
            mk("AndOperation", [W("a"), W("b")]), mk("Range", [W("a"), W("b")], il=True, ih=True),
            mk("Not", [W("a")]), mk("SearchField", [W("a")], name="g"), mk("Regex", v="/a/")])], name="f")),
        ("group directly after a field", mk("SearchField", [mk("Group", [W("a")])], name="f")),
        ("field group not after a field", mk("FieldGroup", [W("a")])),
    ]


REACH = ("AndOperation", "OrOperation", "UnknownOperation", "BoolOperation", "Group", "FieldGroup", "SearchField",
         "Boost", "Plus", "Not", "Prohibit")


def reachable_positions(d, path=()):
    yield path
    if d["c"] in REACH:
        for i, c in enumerate(d["ch"]):
            yield from reachable_positions(c, path + (i,))


def replace_at(d, path, new):
    if not path:
        return copy.deepcopy(new)
    r = dict(d)
    r["ch"] = list(d["ch"])
    r["ch"][path[0]] = replace_at(d["ch"][path[0]], path[1:], new)
    return r


def run_check(ctx, d, zeal, info):
    """-> (errors list or None, call result)"""
    I = common.impl()
    o = common.load_tree(d)
    snap = trees.snapshot(o)
    try:
        c = I.check.LuceneCheck(zeal=zeal)
        errs = c.errors(o)
        res = c(o)
    except Exception as e:
        ctx.fail("LuceneCheck raised %s: %s" % (type(e).__name__, e), info)
        return None, None
    if not isinstance(errs, list) or not all(isinstance(x, str) for x in errs):
        ctx.fail("errors() is not a list of messages", info)
    if res is not (len(errs) == 0):
        ctx.fail("__call__ answers %r but errors() has %d messages" % (res, len(errs)), dict(info, errors=errs))
    if not trees.unchanged(o, snap):
        ctx.fail("the checker modified the tree", info)
    o2 = common.load_tree(d)
    if trees.share_equal_subtrees(o2):
        ctx.count("trees with shared node objects")
        try:
            c2 = I.check.LuceneCheck(zeal=zeal)
            errs2 = c2.errors(o2)
            res2 = c2(o2)
        except Exception as e:
            ctx.fail("LuceneCheck raised %s on a tree whose equal parts are one object: %s" % (type(e).__name__, e), info)
            return errs, res
        # (only acceptance is compared: the property does not say how often a message about a shared part is given)
        if res2 is not res or (errs2 == []) != (errs == []) or res2 is not (len(errs2) == 0):
            ctx.fail("acceptance changes when equal sub-trees are one shared object: %r / %r instead of %r / %r" % (
                res2, errs2, res, errs), info)
    return errs, res


def run(ctx):
    rng = ctx.rng
    reqs, exp = [], []

    def both(d, zeal, info):
        errs, res = run_check(ctx, d, zeal, info)
        if errs is not None:
            reqs.append({"op": "check", "tree": d, "zeal": zeal})
            exp.append({"errors": errs, "ok": res})
        return errs

    # (a) arbitrary trees
    tg = gen.TreeGen(rng, layout="partial", wild=0.3, none_items=0.06)
    hist = trees.SharedObjects(ctx, rng, "LuceneCheck", known_params={"tree"})
    I = common.impl()
    for i in range(ctx.budget(300, 6000)):
        d = common.normalize(tg.any())
        zeal = rng.choice([0, 1, 2])
        errs = both(d, zeal, {"tree": d, "zeal": zeal})
        if i % 3 == 0:
            hist.check(zeal, lambda: I.check.LuceneCheck(zeal=zeal), lambda c, t: (c(t), c.errors(t), c(t)), d,
                       {"tree": d, "zeal": zeal})
        n = sum(1 for _ in common.tree_nodes(d))
        ctx.case((repr(common.strip_tree(d)), zeal), nontrivial=n > 1)
        ctx.count("arbitrary")
        ctx.count("arbitrary accepted" if errs == [] else "arbitrary rejected")
    # (b) + (c)
    for i in range(ctx.budget(150, 3000)):
        zeal = rng.choice([0, 1, 2])
        d = common.normalize(WF(rng, zeal).expr(rng.choice([1, 2, 3, 4]), False))
        info = {"tree": d, "zeal": zeal}
        errs = both(d, zeal, info)
        n = sum(1 for _ in common.tree_nodes(d))
        o = common.load_tree(d)
        ctx.case((repr(common.strip_tree(d)), zeal, "wf"), nontrivial=n > 1,
                 sample={"well-formed": str(o), "zeal": zeal} if n > 3 else None)
        ctx.count("well-formed")
        if errs:
            ctx.fail("a tree assembled only from well-formed constructs is rejected: %s" % errs[0], dict(info, errors=errs))
            continue
        positions = list(reachable_positions(d))
        rng.shuffle(positions)
        for path in positions[: (3 if ctx.tier == "quick" else 8)]:
            parent = d
            for i in path[:-1]:
                parent = parent["ch"][i]
            after_field = bool(path) and parent["c"] == "SearchField"
            own = [n for _, n in common.tree_nodes(d) if n["c"] == "FieldGroup"]
            extra = [("field group not after a field (a copy of one of the tree's own field groups)",
                      copy.deepcopy(rng.choice(own)))] if own and not after_field else []
            for kind, defect in list(defects(rng)) + extra:
                if kind == "field group not after a field" and after_field:
                    # there a FieldGroup is well placed; the misplaced construct is a plain Group
                    kind, defect = "group directly after a field (in place)", mk("Group", [W("a")])
                m = common.normalize(replace_at(d, path, defect))
                e2 = both(m, zeal, {"tree": m, "zeal": zeal, "defect": kind, "at": list(path)})
                ctx.case((repr(common.strip_tree(m)), zeal, kind), nontrivial=True,
                         sample={"defect": kind, "at": list(path), "tree": str(common.load_tree(m)), "errors": e2}
                         if len(path) > 1 else None)
                ctx.count("defect:" + kind)
                if e2 == []:
                    ctx.fail("a tree with a %s at %s is accepted" % (kind, list(path)),
                             {"tree": m, "zeal": zeal, "defect": kind, "at": list(path)})
                elif rng.random() < 0.04:
                    # "at any position reachable through operations, groups, fields, boosts and prefixes": also far
                    # below the root (well within what the recursive checker can walk; seeded C20-G stops at 200)
                    deep = m
                    for lvl in range(rng.choice([210, 260])):
                        w = rng.choice(["Group", "Plus", "Boost", "AndOperation"])
                        if w == "Boost":
                            deep = mk("Boost", [mk("Group", [deep])], num=gen.num(2))
                        elif w == "AndOperation":
                            deep = mk("AndOperation", [W("a"), mk("Group", [deep])])
                        elif w == "Plus":
                            deep = mk("Plus", [mk("Group", [deep])])
                        else:
                            deep = mk("Group", [deep])
                    try:
                        od = common.load_tree(deep)
                        cd = I.check.LuceneCheck(zeal=zeal)
                        ed = cd.errors(od)
                        ctx.count("defect far below the root")
                        if ed == [] or cd(od):
                            ctx.fail("a tree with a %s more than 200 levels below the root is accepted" % kind,
                                     {"tree": m, "zeal": zeal, "defect": kind, "levels": "> 200 wrappers around this tree"})
                    except RecursionError:
                        pass
    # (d) numbers the model's finite decimals cannot express (implementation only): a degree that is not a number,
    # infinite, or a negative zero, at the root and under every wrapper, every zeal. The checker must answer, never
    # raise (fix F7: the message of a negative degree was formatted with %d), and a degree with a minus sign is a
    # negative fuzziness
    T = I.tree
    wrappers = [lambda x: x, lambda x: T.Group(x), lambda x: T.SearchField("f", x), lambda x: T.Boost(x, "2"),
                lambda x: T.Plus(x), lambda x: T.AndOperation(T.Word("a"), x), lambda x: T.OrOperation(x, T.Word("b")),
                lambda x: T.SearchField("f", T.FieldGroup(T.UnknownOperation(T.Word("a"), x)))]
    for deg in ("NaN", "-NaN", "Infinity", "-Infinity", "-0", "-0.0"):
        for w in wrappers:
            for zeal in (0, 1, 2):
                try:
                    t = w(T.Fuzzy(T.Word("foo"), deg))
                except Exception:
                    continue
                info = {"tree": repr(t), "degree": deg, "zeal": zeal}
                ctx.case(("exotic degree", deg, repr(t), zeal), nontrivial=True)
                ctx.count("exotic degree")
                try:
                    c = I.check.LuceneCheck(zeal=zeal)
                    errs = c.errors(t)
                    res = c(t)
                except Exception as e:
                    ctx.fail("LuceneCheck raised %s: %s" % (type(e).__name__, e), info)
                    continue
                if res is not (len(errs) == 0) or not all(isinstance(x, str) for x in errs):
                    ctx.fail("__call__ answers %r but errors() is %r" % (res, errs), info)
                if deg.startswith("-") and res:
                    ctx.fail("a fuzzy with the negative degree %s is accepted" % deg, info)
    if ctx.model_ok:
        for r, a, e in zip(reqs, common.ask_model(reqs), exp):
            if a != e:
                ctx.disagree("LuceneCheck.errors", {"tree": r["tree"], "zeal": r["zeal"]}, a, e)
        ctx.traces_validated = len(reqs)
