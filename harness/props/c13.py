"""C13 — auto_head_tail makes a programmatic tree print to a query that parses back to it."""
import copy
import re

from .. import common, gen, trees, parsing

LEVEL = "proof"
EXTRA_LEAN_MODULES = ["Luqum.Props.GenPrint", "Luqum.Props.GenGlue", "Luqum.Props.GenVisitAht"]   # __str__ translated from the source (tools/pysym.py)
RULE = ("(a) parsed queries with their layout stripped, (b) programmatic trees over all classes with adversarial "
        "term values (=b, T12, 30, TO, digits after implicit ~ / ^), without layout and (c) with partial layout. "
        "'Expressible' is decided by printing the tree with a blank between all tokens and parsing that. "
        "non-trivial = more than one node; distinct = distinct trees")
ASSUMPTIONS = ["'a shape the grammar can express' = some query parses to an equal tree; decided through the "
               "all-blanks spelling", "non-mutation checked on the implementation"]
TRUSTED = ["lean/Luqum/Model/Transform.lean aht (hand-written)"]


def strip_layout(d):
    r = dict(d, h="", t="", p=None, s=None, n=None)
    r["ch"] = [strip_layout(c) for c in d["ch"]]
    return r


def spaced(d):
    """all-blanks spelling of a tree (independent of the implementation's printer)"""
    c = d["c"]
    ch = d["ch"]
    if c in ("Word", "Phrase", "Regex"):
        return d["v"]
    if c == "NoneItem":
        return ""
    if c == "SearchField":
        return d["name"] + ": " + spaced(ch[0])
    if c in ("Group", "FieldGroup"):
        return "( " + spaced(ch[0]) + " )"
    if c == "Range":
        return ("[ " if d["il"] else "{ ") + spaced(ch[0]) + " TO " + spaced(ch[1]) + (" ]" if d["ih"] else " }")
    if c in ("Fuzzy", "Proximity", "Boost"):
        nj = d["num"]
        if nj.get("imp"):
            s = ""
        else:
            n = int(nj["coeff"])
            e = nj["exp"]
            digits = str(n)
            if e >= 0:
                s = digits + "0" * e if n else "0"
            else:
                digits = digits.rjust(-e + 1, "0")
                s = digits[:e] + "." + digits[e:]
            if nj["neg"]:
                s = "-" + s
        return spaced(ch[0]) + " " + ("^" if c == "Boost" else "~") + s
    if c.endswith("Operation"):
        op = {"AndOperation": " AND ", "OrOperation": " OR "}.get(c, " ")
        return op.join(spaced(x) for x in ch)
    if c in ("Plus", "Not", "Prohibit"):
        return {"Plus": "+ ", "Not": "NOT ", "Prohibit": "- "}[c] + spaced(ch[0])
    if c in ("From", "To"):
        return (">" if c == "From" else "<") + ("=" if d["inc"] else "") + " " + spaced(ch[0])
    raise ValueError(c)


def expressible(d):
    """the tree is what the documented syntax gives for some text: decided by the independent tokenizer and grammar of
    the C03 check on a fully spaced rendering -- not by the implementation's parser, which is part of what is judged
    (seeded C13-H: field names unescaped by the parser made every tree with an escaped name "inexpressible")"""
    from . import c03
    toks = parsing.spec_lex(spaced(d))
    if toks is None:
        return False
    spec, _ = c03.spec_parse(toks)
    return spec is not None and spec == c03.skeleton(d)


def oracle(ctx, d, out, info, check_roundtrip):
    I = common.impl()
    o = common.load_tree(d)
    res = common.load_tree(out)
    if not (res == o):
        ctx.fail("auto_head_tail changed the tree (result not equal to the input)", info)
    for (p, x), (_, y) in zip(common.tree_nodes(d), common.tree_nodes(out)):
        for k in ("h", "t"):
            if x[k]:
                if y[k] != x[k]:
                    ctx.fail("a non-empty head/tail was altered at %s" % list(p), info)
            elif y[k] not in ("", " "):
                ctx.fail("something else than a single space was inserted at %s" % list(p), info)
    try:
        again = common.dump_tree(I.aht.auto_head_tail(res))
        if again != out:
            ctx.fail("auto_head_tail is not idempotent", info)
    except Exception as e:
        ctx.fail("auto_head_tail fails on its own output: %s" % e, info)
    if check_roundtrip:
        printed = res.__str__(head_tail=True)
        r, t = parsing.impl_parse(printed)
        if t is None:
            ctx.fail("the printed form of auto_head_tail(tree) is rejected by the parser", dict(info, printed=printed, err=r))
        elif not (t == o):
            ctx.fail("the printed form of auto_head_tail(tree) parses to a different tree",
                     dict(info, printed=printed, reparsed=repr(t)))


def _walk(x):
    yield x
    for c in x.children:
        yield from _walk(c)


def run(ctx):
    I = common.impl()
    # a per-call option added to the module-level singleton must not outlive the call (nothing to probe on the pinned tree)
    good = [gen.mk("AndOperation", [gen.W("a"), gen.mk("OrOperation", [gen.W("b"), gen.W("c")])]),
            gen.mk("Range", [gen.W("1"), gen.W("2")], il=True, ih=True)]
    bad = [gen.mk("AndOperation", [gen.W("a"), gen.mk("OrOperation", [])])]
    trees.probe_new_parameters(ctx, "auto_head_tail", I.aht.auto_head_tail, lambda: type(I.aht.auto_head_tail)(),
                               {"tree"}, good, bad, common.dump_tree)
    rng = ctx.rng
    cases = []
    n = ctx.budget(500, 10000)
    tg = gen.TreeGen(rng, layout="none", wild=0.0, none_items=0.0, max_children=3,
                     words=["a", "b", "=b", "T12", "30", "TO", "1", "x1", "a\\ b", "foo*", "12:30", "foo\\ ", "\\ x", "b\\\t"])
    tgp = gen.TreeGen(rng, layout="partial", wild=0.1, none_items=0.02)
    for i in range(n):
        k = rng.random()
        if k < 0.4:
            q, d = trees.parsed_tree(ctx, rng)
            if d is None:
                continue
            cases.append(("stripped-parse", strip_layout(d)))
        elif k < 0.8:
            cases.append(("built", common.normalize(tg.any())))
        else:
            cases.append(("partial-layout", common.normalize(tgp.any())))
    reqs, exp = [], []
    for origin, d in cases:
        if rng.random() < 0.06:
            trees.poison(rng, d, I.aht.auto_head_tail)     # the module-level singleton gives up half-way on a call
            ctx.count("history: call that fails half-way")
        o = common.load_tree(d)
        snap = trees.snapshot(o)
        info = {"tree": d, "origin": origin}
        try:
            res = I.aht.auto_head_tail(o)
            out = common.dump_tree(res)
            impl_ans = {"ok": out}
        except IndexError:
            impl_ans = {"err": "IndexError"}
            out = None
        except Exception as e:
            ctx.fail("auto_head_tail raised %s: %s" % (type(e).__name__, e), info)
            continue
        nnodes = sum(1 for _ in common.tree_nodes(d))
        ctx.case(repr(common.strip_tree(d, layout=False)), nontrivial=nnodes > 1,
                 sample={"tree": repr(o), "printed": res.__str__(head_tail=True)} if out and nnodes > 2 else None)
        ctx.count(origin)
        expr = origin != "partial-layout" and expressible(d)
        if expr:
            ctx.count("expressible")
        if out is None:
            if expr:
                ctx.fail("auto_head_tail raises IndexError on an expressible tree", info)
        else:
            oracle(ctx, d, out, info, expr)
            if not trees.unchanged(o, snap):
                ctx.fail("the input tree was modified", info)
        reqs.append({"op": "aht", "tree": d})
        exp.append(impl_ans)
        if out is not None and rng.random() < 0.2:
            # the caller edits the tree it handed in (a term's value, the order of operands, a child attribute
            # assigned directly) and hands the SAME object in again: the answer is the one for the new content
            # (seeded C13-G: the children list cached on the node, dropped only by the `children` setter)
            d_ed = trees.edit_in_place(rng, d, o)
            if d_ed is not None:
                ctx.count("history: the input edited in place and handed in again")
                info2 = {"tree": d_ed, "origin": "edited-input", "first_input": d}
                try:
                    out_ed = common.dump_tree(I.aht.auto_head_tail(o))
                except IndexError:
                    out_ed = None
                except Exception as e:
                    ctx.fail("auto_head_tail raised %s: %s" % (type(e).__name__, e), info2)
                    continue
                if out_ed is not None:
                    oracle(ctx, d_ed, out_ed, info2, origin != "partial-layout" and expressible(d_ed))
                    reqs.append({"op": "aht", "tree": d_ed})
                    exp.append({"ok": out_ed})
    # ---- histories: the result of one call is edited in place (same root object) and handed in again. The second
    # call must treat it as any tree with partial layout (a transformer that remembers what it produced would not)
    BaseOp = I.tree.BaseOperation
    for i in range(ctx.budget(80, 1500)):
        d0 = common.normalize(tg.any())
        o = common.load_tree(d0)
        try:
            r1 = I.aht.auto_head_tail(o)
        except Exception:
            continue
        nodes = [x for x in _walk(r1) if isinstance(x, BaseOp)]
        fresh = common.load_tree(common.normalize(tg.any()))
        if nodes and rng.random() < 0.7:
            tgt = rng.choice(nodes)
            k = rng.randrange(len(tgt.children) + 1)
            ch = list(tgt.children)
            ch.insert(k, fresh)
            tgt.children = ch
        else:
            holders = [x for x in _walk(r1) if len(x.children) >= 1 and not isinstance(x, (I.tree.Fuzzy, I.tree.Proximity,
                                                                                            I.tree.From, I.tree.To))]
            if not holders:
                continue
            tgt = rng.choice(holders)
            ch = list(tgt.children)
            k = rng.randrange(len(ch))
            names = list(getattr(type(tgt), "_children_attrs", []))
            if not isinstance(tgt, BaseOp) and k < len(names) and rng.random() < 0.6:
                # plain attribute assignment (`group.expr = ...`, `range_.high = ...`), as the library itself does
                setattr(tgt, names[k], fresh)
                ctx.count("edited-result: attribute assigned")
            else:
                ch[k] = fresh
                tgt.children = ch
        d2 = common.dump_tree(r1)
        info = {"tree": d2, "origin": "edited-result", "first_input": d0}
        snap = trees.snapshot(r1)
        try:
            r2 = I.aht.auto_head_tail(r1)
            out2 = common.dump_tree(r2)
            impl_ans = {"ok": out2}
        except IndexError:
            impl_ans, out2 = {"err": "IndexError"}, None
        except Exception as e:
            ctx.fail("auto_head_tail raised %s: %s" % (type(e).__name__, e), info)
            continue
        ctx.case("hist:" + repr(common.strip_tree(d2, layout=True)), nontrivial=True)
        ctx.count("edited-result")
        if out2 is not None:
            if r2 is r1:
                ctx.fail("auto_head_tail returned its argument (the argument must be left untouched and a new tree returned)", info)
            expr = expressible(d2)
            oracle(ctx, d2, out2, info, expr)
            if not trees.unchanged(r1, snap):
                ctx.fail("the input tree was modified", info)
        reqs.append({"op": "aht", "tree": d2})
        exp.append(impl_ans)
    if ctx.model_ok:
        for r, a, e in zip(reqs, common.ask_model(reqs), exp):
            if a != e:
                ctx.disagree("auto_head_tail", r["tree"], a, e)
        ctx.traces_validated = len(reqs)
