"""C05 — Elasticsearch translation is reject-or-equivalent in boolean and nested meaning."""
import json

from .. import common, es
from . import c07

LEVEL = "proof"
EXTRA_LEAN_MODULES = ["Luqum.Props.GenRuntime", "Luqum.Props.GenEs"]   # constants of the E-classes and builder defaults (translated)
RULE = ("random index schemas and configurations (as C07) x trees of supported constructs incl. BoolOperation x, for "
        "every translated query, 6 random documents (nested objects 0-2 per container and level, truth of each "
        "leaf clause per object drawn at random): the returned bool/nested query is evaluated by a reference "
        "evaluator and compared with the reference denotation of the tree. non-trivial = translated and has an "
        "operation, a negation or a nested field; distinct = distinct (config, tree)")
ASSUMPTIONS = ["reference semantics of ES bool/nested queries and of luqum trees as written in harness/es.py "
               "(should is required iff there is no must)", "supported constructs only"]
TRUSTED = ["lean/Luqum/Model/Es.lean (hand-written)", "harness/es.py eval_es / denote (python reference, search only)"]


def doc_json(o):
    return {"path": o["path"], "truth": {repr(k): v for k, v in o["truth"].items()},
            "kids": [doc_json(k) for k in o["kids"]]}


def containers_of(cfg):
    return es.declared_containers(es.norm_nested_spec(cfg.get("nested_fields")))


def actual_prefixes(cfg):
    """what the builder really uses as nested paths (KF5: only parents of leaves)"""
    return es.leaf_parent_prefixes(cfg.get("nested_fields"))


def semantic_check(ctx, rng, cfg, d, raw, info, trials=6):
    containers = containers_of(cfg)
    if "flat-and" in es.bool_operand_kinds(d, cfg, containers):
        ctx.count("outside hypotheses: un-grouped AND operand of a boolean operation")
        return True
    for trial in range(trials):
        doc = es.gen_doc(rng, containers)
        truth = es.Truth(rng, p=(0.5, 0.5, 0.5, 0.02, 0.98, 0.5)[trial % 6], polar=(None, None, None, True, False, True)[trial % 6])
        try:
            # (the tree is evaluated first: in the polarised trials it decides the value of every clause it mentions)
            b = es.denote(d, doc, cfg, containers, truth)
            a = es.eval_es(raw, doc, truth)
        except ValueError:
            return True
        if a != b:
            # which known finding (if any) predicts this outcome?
            explained = []
            for name, quirks, conts in (("KF3", ("KF3",), containers), ("KF4", ("KF4",), containers),
                                        ("KF3+KF4", ("KF3", "KF4"), containers),
                                        ("KF5", (), actual_prefixes(cfg)),
                                        ("KF3+KF4+KF5", ("KF3", "KF4"), actual_prefixes(cfg))):
                if es.denote(d, doc, cfg, conts, truth, quirks=quirks) == a:
                    explained.append(name)
            ctx.fail("the translated query %s a document that the tree %s" % (
                "matches" if a else "does not match", "does not denote" if a else "denotes"),
                dict(info, json=raw, doc=doc_json(doc), explained_by=explained))
            return False
    return True


def run(ctx):
    rng = ctx.rng
    cs = c07.cases(ctx, ctx.budget(500, 10000), multi_match=False, mixes=False, misuse=0.03, bool_ops=True)
    # directed: operand lists beyond any limit a change may introduce, with every kind of operand (seeded C05-G)
    from .. import gen as _gen
    for n in (1030, 2100):
        for cls in ("BoolOperation", "AndOperation", "OrOperation", "UnknownOperation"):
            for wrap in ("Prohibit", "Not", "Plus", None):
                if rng.random() < (0.5 if ctx.tier == "quick" and not ctx.escalate else 1.1):
                    continue
                ops = [_gen.W("a")] + [(_gen.mk(wrap, [_gen.W("b%d" % i)]) if wrap else _gen.W("b%d" % i)) for i in range(n)]
                if cls == "AndOperation" and wrap is None:
                    ops = [_gen.W("w%d" % i) for i in range(n)]
                cs.append((None, {"default_operator": rng.choice(["should", "must"])}, _gen.mk(cls, ops)))
    for _, cfg, _ in cs:
        # a fuzziness / slop in the clause must be the query's own here (C06 covers the merging of per-field options)
        for opts in (cfg.get("field_options") or {}).values():
            if isinstance(opts, dict):
                opts.pop("fuzziness", None)
                opts.pop("slop", None)
    from .. import trees
    hist = trees.SharedObjects(ctx, rng, "ElasticsearchQueryBuilder", known_params={"tree"})
    I = common.impl()
    for ci, (schema, cfg, d, r, raw) in enumerate(c07.run_cases(ctx, cs)):
        ok = "ok" in r
        if ci % 4 == 0:
            # a long-lived builder that has just refused a query in the middle of a nested field group (and then sees
            # near-identical trees) must translate like a fresh one: what a refused call leaves behind must not show
            hist.check(repr(cfg), lambda: I.es.ElasticsearchQueryBuilder(**es.python_spelling(cfg)),
                       lambda bb, t: es.build(cfg, t, bb)[0], d, {"cfg": cfg, "tree": d},
                       poison=[es.refused_in_nested(schema)] if schema else ())
        if ci % 4 == 1 and ok and schema:
            # the same through the public traversal entry `visit()`: a traversal refused in the middle of a nested field
            # group, then the traversal of this tree on the same builder (seeded C05-H: the field path kept on the
            # builder, pushed and popped without try / finally, reset by `__call__` only)
            pz = es.refused_in_nested(schema)
            if pz is not None:
                bb = I.es.ElasticsearchQueryBuilder(**es.python_spelling(cfg))
                try:
                    bb.visit(common.load_tree(pz))
                except Exception:
                    pass
                try:
                    got = {"ok": es.canon_json(bb.visit(common.load_tree(d))[0].json)}
                except Exception as e:
                    got = {"err": [type(e).__name__, str(e)]}
                ctx.count("history: visit() refused half-way, then visit() again")
                if got != {"ok": r["ok"]}:
                    ctx.fail("after a traversal refused in the middle of a nested field group, visit() on the same builder "
                             "translates differently from a fresh builder", {"cfg": cfg, "tree": d, "got": got, "fresh": r})
        has = any(n["c"].endswith("Operation") or n["c"] in ("Not", "Prohibit", "SearchField")
                  for _, n in common.tree_nodes(d))
        ctx.case((repr(cfg), repr(common.strip_tree(d))), nontrivial=ok and has,
                 sample={"query": str(common.load_tree(d)), "cfg": cfg, "json": raw} if ok and has else None)
        ctx.count("translated" if ok else r["err"][0])
        if not ok:
            if r["err"][0] not in es.DOCUMENTED:
                ctx.fail("an undocumented exception escapes: %s" % r["err"][0], {"cfg": cfg, "tree": d})
            continue
        semantic_check(ctx, rng, cfg, d, raw, {"cfg": cfg, "tree": d})


def replay(ctx, rep):
    inp = (rep.get("failure") or {}).get("input", {})
    if "tree" not in inp:
        return
    r, raw = es.build(inp["cfg"], common.load_tree(inp["tree"]))
    if raw is not None:
        for _ in range(50):
            if not semantic_check(ctx, ctx.rng, inp["cfg"], inp["tree"], raw, {"cfg": inp["cfg"], "tree": inp["tree"]}):
                break
