"""C07 — the ES builder refuses exactly the ambiguous AND/OR mixes and container-field misuse."""
from .. import common, es, trees

LEVEL = "proof"
EXTRA_LEAN_MODULES = ["Luqum.Props.GenNesting", "Luqum.Props.GenEs"]   # CheckNestedFields translated from the source (tools/pysym.py)
RULE = ("random index schemas (nested / object containers up to depth 3, sub fields) spelled as builder options in "
        "several equivalent ways x trees of supported constructs addressing existing, container and unknown fields "
        "in dotted and nested-group spelling, with AND/OR/implicit mixes under every wrapper, both default "
        "operators. non-trivial = the tree has an operation or a field; distinct = distinct (config, tree)")
ASSUMPTIONS = ["supported constructs only (no regex, no From/To, range bounds are terms or phrases, operations "
               "have at least two operands)"]
TRUSTED = ["lean/Luqum/Model/Es.lean (hand-written)", "python reference predicate in harness/props/c07.py (search only)"]


def expected(d, cfg, kf5=False):
    """the class of the exception the property demands, or None (kf5: what known finding KF5 predicts)"""
    I = common.impl()
    U = I.utils
    must_default = cfg.get("default_operator", "should") != "should"
    nf = es.norm_nested_leaves(cfg.get("nested_fields"))
    # a *declared* nested container is any key of the specification that has members
    npref = set(es.declared_containers(cfg.get("nested_fields") if isinstance(cfg.get("nested_fields"), dict) else {}))
    if kf5:
        npref = {k.rsplit(".", 1)[0] for k in nf}
    of = es.norm_object_spec(cfg.get("object_fields"))
    opref = {k.rsplit(".", 1)[0] for k in (of or [])}
    sf = es.norm_object_spec(cfg.get("sub_fields"))

    def walk(n, prefix):
        if n["c"] == "SearchField":
            yield from walk(n["ch"][0], prefix + n["name"].split("."))
            return
        if n["c"] in ("Word", "Phrase", "Regex"):
            if prefix:
                full = ".".join(prefix)
                if full in npref or full in opref:
                    yield "NestedSearchFieldException"
                elif len(prefix) > 1 and sf is not None and of is not None and full not in sf and \
                        full not in of and full not in nf:
                    yield "ObjectSearchFieldException"
            return
        for c in n["ch"]:
            yield from walk(c, prefix)
    for e in walk(d, []):
        return e

    def andlike(n):
        return n["c"] == "AndOperation" or (n["c"] == "UnknownOperation" and must_default)

    def orlike(n):
        return n["c"] == "OrOperation" or (n["c"] == "UnknownOperation" and not must_default)

    def flat(n, cls):
        for c in n["ch"]:
            if c["c"] == cls:
                yield from flat(c, cls)
            else:
                yield c

    def mix(n):
        if n["c"] in ("AndOperation", "OrOperation", "UnknownOperation"):
            for c in flat(n, n["c"]):
                if (andlike(n) and orlike(c)) or (orlike(n) and andlike(c)):
                    return True
        return any(mix(c) for c in n["ch"])
    return "OrAndAndOnSameLevel" if mix(d) else None


CORPUS_SCHEMA = {
    "title": {"kind": "text", "children": {}, "sub": {"raw": "keyword"}},
    "tag": {"kind": "keyword", "children": {}, "sub": {}},
    "o": {"kind": "object", "children": {"k": {"kind": "text", "children": {}, "sub": {}}}, "sub": {}},
    "author": {"kind": "nested", "sub": {}, "children": {
        "name": {"kind": "text", "children": {}, "sub": {}},
        "age": {"kind": "keyword", "children": {}, "sub": {}},
        "book": {"kind": "nested", "sub": {}, "children": {
            "title": {"kind": "text", "children": {}, "sub": {}},
            "isbn": {"kind": "keyword", "children": {}, "sub": {}},
            "format": {"kind": "nested", "sub": {}, "children": {
                "type": {"kind": "text", "children": {}, "sub": {}}}}}}}},
}


def corpus_queries():
    """systematic shapes over a fixed schema with three nesting levels: pairs of fields of a container joined
    by every operator, negated, inside the container's group or dotted at the root, and mixes of both spellings"""
    conts = {"author": ["name", "age", "book.title", "book.isbn", "book.format.type"],
             "author.book": ["title", "isbn", "format.type"],
             "author.book.format": ["type"]}
    qs = []
    for c, fields in conts.items():
        for i, f1 in enumerate(fields):
            for f2 in fields[i:]:
                for op in (" AND ", " OR ", " "):
                    qs.append("%s:(%s:x%s%s:y)" % (c, f1, op, f2))
                    qs.append("%s.%s:x%s%s.%s:y" % (c, f1, op, c, f2))
                    qs.append("%s:(%s:x)%s%s.%s:y" % (c, f1, op, c, f2))
                    qs.append("%s:(%s:x%sNOT %s:y)" % (c, f1, op, f2))
                qs.append("%s:(NOT %s:x)" % (c, f1))
                qs.append("%s:(-%s:x %s:y)" % (c, f1, f2))
                qs.append("NOT %s.%s:x" % (c, f1))
    qs += ["author:x", "author.book:x", "o:x", "o.k:x", "o.zz:x", "title.raw:x", "title:(x OR raw:y)",
           "author:(name:x AND book:(title:y AND format:(type:z)))", "author:(book:(format.type:z))",
           "tag:x AND (title:y OR author.name:z)", "x AND y OR z", "x (y AND z)", "x AND (y OR z)", "a b AND c"]
    return qs


def cases(ctx, n, multi_match=True, **tgkw):
    rng = ctx.rng
    out = []
    # corpus first: fixed schema, systematic query shapes, a few configurations
    from .. import parsing
    qs = corpus_queries()
    rng.shuffle(qs)
    for q in qs[: max(60, n // 4)]:
        r, t = parsing.impl_parse(q)
        if t is None:
            continue
        cfg = {"default_operator": rng.choice(["should", "must"]), "nested_fields": es.nested_spec(CORPUS_SCHEMA),
               "not_analyzed_fields": es.not_analyzed(CORPUS_SCHEMA)}
        if rng.random() < 0.5:
            cfg["object_fields"] = es.object_fields(CORPUS_SCHEMA)
        if rng.random() < 0.5:
            cfg["sub_fields"] = es.sub_fields(CORPUS_SCHEMA)
        d = r["ok"]
        partial = rng.random() < 0.4
        for _, node in common.tree_nodes(d):
            # (partial: what a user transformer that yields fresh items, or an in-place edit of a parsed tree, leaves:
            # some nodes with the parser's positions and layout, some without -- seeded C07-G)
            if not partial or rng.random() < 0.5:
                node.update(h="", t="", p=None, s=None)
        out.append((CORPUS_SCHEMA, cfg, d))
    # mixes with the parser's positions kept on some nodes only: on the operations but not on their operands (what a
    # user transformer that yields fresh items for the leaves leaves behind), or the other way round (seeded C07-G)
    mixes = ["x AND y OR z", "x OR y AND z", "a b AND c", "a OR b c", "f:(x AND y OR z)", "(x OR y AND z) AND w",
             "NOT (a AND b OR c)", "title:(a b OR c) x", "a AND b OR c AND d", "+(x OR y AND z)", "(a b AND c)^2"]
    for q in mixes:
        r, t = parsing.impl_parse(q)
        if t is None:
            continue
        for variant in ("operations", "operands", "random"):
            import copy as _copy
            d = _copy.deepcopy(r["ok"])
            for _, node in common.tree_nodes(d):
                is_op = node["c"].endswith("Operation")
                clear = (not is_op) if variant == "operations" else is_op if variant == "operands" else rng.random() < 0.5
                if clear:
                    node.update(h="", t="", p=None, s=None)
            out.append((CORPUS_SCHEMA, {"default_operator": rng.choice(["should", "must"])}, d))
    schema = None
    for i in range(n):
        if schema is None or rng.random() < 0.25:
            schema = es.gen_schema(rng)
        cfg = es.gen_cfg(rng, schema, multi_match)
        d = common.normalize(es.EsTreeGen(rng, schema, **tgkw).tree(rng.choice([1, 2, 3, 4])))
        out.append((schema, cfg, d))
    return out


def run_cases(ctx, cs, stream="ElasticsearchQueryBuilder"):
    """runs implementation and model; returns [(schema, cfg, d, result, raw json)]"""
    res = []
    reqs = []
    for schema, cfg, d in cs:
        o = common.load_tree(d)
        r, raw = es.build(cfg, o)
        res.append((schema, cfg, d, r, raw))
        reqs.append({"op": "es", "cfg": es.cfg_json(cfg), "tree": d})
    if ctx.model_ok:
        for (schema, cfg, d, r, raw), a in zip(res, common.ask_model(reqs)):
            if a != r:
                ctx.disagree(stream, {"cfg": cfg, "tree": d}, a, r)
        ctx.traces_validated += len(reqs)
    return res


def run(ctx):
    n = ctx.budget(500, 10000)
    cs = cases(ctx, n, mixes=True, misuse=0.2)
    # boolean operations (what `UnknownOperationResolver(resolve_to=BoolOperation)` produces) are neither AND-like
    # nor OR-like: an AND / OR directly under one is not a mix, whatever the default operator (seeded C07-E)
    cs += cases(ctx, n // 3, mixes=True, misuse=0.05, bool_ops=True)[max(60, (n // 3) // 4):]
    I = common.impl()
    hist = trees.SharedObjects(ctx, ctx.rng, "ElasticsearchQueryBuilder", known_params={"tree"})
    for ci, (schema, cfg, d, r, raw) in enumerate(run_cases(ctx, cs)):
        got = r["err"][0] if "err" in r else None
        exp = expected(d, cfg)
        if ci % 3 == 0 and (got is not None or ci % 9 == 0):
            # one builder per configuration lives on: a query it refuses is refused again when it comes back (a retry,
            # another query on the same field), a query it translates after a refusal is translated as by a fresh
            # builder (seeded C07-H: a memo of the fields already examined, filled before the test that raises)
            hist.check(repr(cfg), lambda: I.es.ElasticsearchQueryBuilder(**es.python_spelling(cfg)),
                       lambda bb, t: es.build(cfg, t, bb)[0], d, {"cfg": cfg, "tree": d}, deep=0.05)
        nontrivial = any(n["c"].endswith("Operation") or n["c"] == "SearchField" for _, n in common.tree_nodes(d))
        ctx.case((repr(cfg), repr(common.strip_tree(d))), nontrivial=nontrivial,
                 sample={"query": str(common.load_tree(d)), "cfg": cfg, "outcome": got or "translated"}
                 if got else None)
        ctx.count(got or "translated")
        if got != exp:
            explained = ["KF5"] if expected(d, cfg, kf5=True) == got and \
                es.containers_without_direct_leaf(es.norm_nested_spec(cfg.get("nested_fields"))) else []
            ctx.fail("the builder %s but the property demands %s" % (
                "raises " + got if got else "translates the query", exp or "a translation"),
                {"cfg": cfg, "tree": d, "got": r.get("err"), "explained_by": explained})
