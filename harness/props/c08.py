"""C08 — visitors reach every node once with true context; the default transformer deep-copies."""
from .. import common, gen, trees

LEVEL = "proof"
EXTRA_LEAN_MODULES = ["Luqum.Props.GenClone", "Luqum.Props.GenContext", "Luqum.Props.GenChildren", "Luqum.Props.GenVisit"]   # clone_item translated from the source (tools/pysym.py)
RULE = ("histories of visits: 2-4 probe visitor classes (handlers for a random subset of item classes and base "
        "classes, traversal not overridden) x 1-2 instances each x 2-4 trees (parsed and programmatic, operations "
        "with 0..n operands, NoneItem); plus the default TreeTransformer / PathTrackingTransformer on every tree. "
        "non-trivial = tree with more than one node; distinct = distinct (handler set, tree)")
ASSUMPTIONS = ["object identity, 'shares no node' and 'input left unmodified' are checked on the implementation "
               "only (ids and deep snapshots); they are outside the Lean model"]
TRUSTED = ["lean/Luqum/Model/Visitor.lean (hand-written) + generated MROs"]

BASES = ["Item", "Term", "BaseGroup", "BaseApprox", "BaseOperation", "Unary", "UnaryOperator", "OpenRange"]
CONCRETE = ["Word", "Phrase", "Regex", "SearchField", "Group", "FieldGroup", "Range", "Fuzzy", "Proximity",
            "Boost", "AndOperation", "OrOperation", "UnknownOperation", "BoolOperation", "Plus", "Not",
            "Prohibit", "From", "To", "NoneItem"]


def make_probe(I, base, handlers, name, prefix="visit_", generic_name="generic_visit"):
    camel = I.visitor.camel_to_lower

    def mk(cname, k=[0]):
        def h(self, node, context):
            self.events.append((cname, id(node), tuple(id(p) for p in context.get("parents", ())),
                                context.get("path")))
            yield from base.generic_visit(self, node, context)
            # post-order work: the context a handler was given still describes ITS node when the children are done
            # (seeded C08-H: the parent's dictionary handed to the last child and written to)
            self.leaves.append((id(node), tuple(id(p) for p in context.get("parents", ()))))

        def plain(self, node, context):
            # a handler written as a plain method that returns an iterable: it runs when the traversal reaches the
            # node, not before (seeded C08-H: the children's visits started eagerly)
            self.events.append((cname, id(node), tuple(id(p) for p in context.get("parents", ())),
                                context.get("path")))
            return list(base.generic_visit(self, node, context))
        k[0] += 1
        return plain if k[0] % 3 == 0 else h

    def generic(self, node, context):
        self.events.append(("<generic>", id(node), tuple(id(p) for p in context.get("parents", ())),
                            context.get("path")))
        yield from base.generic_visit(self, node, context)

    ns = {prefix + camel(c): mk(c) for c in handlers}
    ns[generic_name] = generic
    # the documented knobs: another prefix for the handlers / another name for the fallback (visitors with different
    # knobs meet the same item classes in one history)
    if prefix != "visit_":
        ns["visitor_method_prefix"] = prefix
    if generic_name != "generic_visit":
        ns["generic_visitor_method_name"] = generic_name
    return type(name, (base,), ns)


def run(ctx):
    I = common.impl()
    rng = ctx.rng
    n_hist = ctx.budget(60, 1500)
    reqs = []       # model requests
    expected = []   # impl events per request
    for h in range(n_hist):
        tlist = []
        for _ in range(rng.choice([2, 3, 4])):
            origin, d = trees.mixed_tree(ctx, rng, p_parsed=0.4, layout="partial", names=True, none_items=0.08)
            tlist.append(d)
        classes = []
        for k in range(rng.choice([2, 3, 4])):
            hs = sorted(set(rng.sample(CONCRETE, rng.choice([0, 1, 3, 6])) + rng.sample(BASES, rng.choice([0, 1, 2, 3]))))
            # (a third of the probes are plain TreeVisitors: no path in the context, parents only)
            base_cls = I.visitor.TreeVisitor if (h + k) % 3 == 0 else I.visitor.PathTrackingVisitor
            classes.append((hs, make_probe(I, base_cls, hs, "Probe%d_%d" % (h, k),
                                           prefix=rng.choice(["visit_", "visit_", "handle_", "on_"]),
                                           generic_name=rng.choice(["generic_visit", "generic_visit", "fallback"]))))
        instances = []
        for hs, cls in classes:
            for _ in range(rng.choice([1, 2])):
                inst = cls(track_parents=True)
                instances.append((hs, inst, []))
        # interleave visits
        order = [(i, j) for i in range(len(instances)) for j in range(len(tlist))]
        rng.shuffle(order)
        objs = [trees.use_placeholder_singleton(common.load_tree(d), rng) for d in tlist]
        if rng.random() < 0.2:
            ctx.count("nodes of user-defined subclasses (mixin first)", sum(trees.user_subclasses(o, rng) for o in objs))
        snaps = [trees.snapshot(o) for o in objs]
        for i, j in order:
            hs, inst, log = instances[i]
            if rng.random() < 0.12:
                # the caller edits the tree in place between two visits (another value, another child assigned to
                # an attribute, operands in another order): visitors that already walked it must see the tree as it
                # is now (seeded C08-G: `Item.children` remembered, parents memoised by id)
                d2 = trees.edit_in_place(rng, tlist[j], objs[j])
                if d2 is not None:
                    tlist[j] = common.dump_tree(objs[j])
                    snaps[j] = trees.snapshot(objs[j])
                    ctx.count("tree edited in place between visits")
            inst.events = []
            inst.leaves = []
            res = inst.visit(objs[j])
            idp = trees.id_paths(objs[j])
            evs = []
            for hname, nid, pids, path in inst.events:
                true_path = idp.get(nid)
                evs.append({"h": hname, "c": None, "path": list(path) if path is not None else None,
                            "parents_ok": [idp.get(p) for p in pids] == [true_path[:k] for k in range(len(true_path))]
                            if true_path is not None else False,
                            "true_path": list(true_path) if true_path is not None else None})
            log.append((j, evs, tlist[j]))
            # ---- oracle: every node exactly once, pre-order, right handler, true context
            want = [p for p, _ in common.tree_nodes(tlist[j])]
            got = [tuple(e["true_path"]) if e["true_path"] is not None else None for e in evs]
            key = (tuple(hs), repr(common.strip_tree(tlist[j])))
            ctx.case(key, nontrivial=len(want) > 1,
                     sample={"handlers": hs, "tree": repr(objs[j]), "events": [(e["h"], e["path"]) for e in evs][:8]}
                     if len(want) > 2 else None)
            if got != want:
                ctx.fail("the visit does not reach every node exactly once in document order",
                         {"handlers": hs, "tree": tlist[j], "visited": got})
                continue
            nodes = dict(common.tree_nodes(tlist[j]))
            for e, p in zip(evs, want):
                mro = [c.__name__ for c in type(common.load_tree(nodes[p])).mro()] if False else None
                cls = getattr(I.tree, nodes[p]["c"])
                exp = next((c.__name__ for c in cls.mro() if c.__name__ in hs), "<generic>")
                if e["h"] != exp:
                    ctx.fail("node dispatched to %s instead of the handler of its most specific class %s" % (e["h"], exp),
                             {"handlers": hs, "tree": tlist[j], "path": list(p), "history": len(log)})
                    break
                if (e["path"] != list(p) and not (e["path"] is None and not isinstance(inst, I.visitor.PathTrackingVisitor))) \
                        or not e["parents_ok"]:
                    ctx.fail("wrong context (path %r / parents) for the node at %r" % (e["path"], list(p)),
                             {"handlers": hs, "tree": tlist[j], "path": list(p)})
                    break
            if res != []:
                ctx.fail("a visit that yields nothing returned %r" % (res,), {"tree": tlist[j]})
            entered = {nid: pids for _, nid, pids, _ in inst.events}
            for nid, pids in inst.leaves:
                if entered.get(nid) != pids:
                    ctx.fail("when a handler is done with the children of its node, the context it was given lists other "
                             "ancestors than when it started", {"handlers": hs, "tree": tlist[j],
                                                                "path": list(idp.get(nid) or ())})
                    break
        for o, s, d in zip(objs, snaps, tlist):
            if not trees.unchanged(o, s):
                ctx.fail("visiting modified the tree", {"tree": d})
        for hs, inst, log in instances:
            if not isinstance(inst, I.visitor.PathTrackingVisitor):
                continue        # (the model's event stream carries paths)
            reqs.append({"op": "visitseq", "handlers": hs, "trees": [dj for _, _, dj in log]})
            expected.append([[{"h": e["h"], "path": e["path"]} for e in evs] for _, evs, _ in log])
        ctx.count("histories")
        ctx.count("visits", len(order))

        # ---- default transformers
        for d, o, s in zip(tlist, objs, snaps):
            for tname, T in (("TreeTransformer", I.visitor.TreeTransformer),
                             ("PathTrackingTransformer", I.visitor.PathTrackingTransformer)):
                c = T().visit(o)
                cd = common.dump_tree(c)
                ctx.count("copies")
                problems = []
                if not (c == o) or not (o == c):
                    problems.append("the copy is not equal to the input")
                if trees.shares_nodes(o, c, placeholders_ok=False):
                    problems.append("the copy shares a node with the input")
                if c.__str__(head_tail=True) != o.__str__(head_tail=True) or str(c) != str(o):
                    problems.append("the copy prints differently")
                pos_o = [(p, n["p"], n["s"], n["h"], n["t"]) for p, n in common.tree_nodes(d)]
                pos_c = [(p, n["p"], n["s"], n["h"], n["t"]) for p, n in common.tree_nodes(cd)]
                if pos_o != pos_c:
                    problems.append("the copy has other positions / head / tail")
                if not trees.unchanged(o, s):
                    problems.append("the input tree was modified")
                for pr in problems:
                    ctx.fail("%s: %s" % (tname, pr), {"tree": d, "copy": cd})
                reqs.append({"op": "copy", "tree": d})
                expected.append(cd)
            # new_parents context
            log = []

            class NP(I.visitor.PathTrackingTransformer):
                def generic_visit(self, node, context):
                    new_node, = super().generic_visit(node, context)
                    log.append((context["path"], [id(p) for p in context.get("new_parents", ())], id(new_node)))
                    yield new_node
            c = NP(track_new_parents=True).visit(o)
            idp = trees.id_paths(c)
            for path, np_ids, nid in log:
                if idp.get(nid) != tuple(path) or [idp.get(x) for x in np_ids] != [tuple(path[:k]) for k in range(len(path))]:
                    ctx.fail("new_parents context is not the chain of ancestors in the copy", {"tree": d, "path": list(path)})
                    break

        # ---- one long-lived transformer / visitor, the SAME node objects met again under other ancestors (a sub-query
        # transformed alone, then embedded in a larger query): the context must be the true chain of ancestors of
        # this traversal (seeded C08-G: parents remembered per node id across traversals)
        if len(objs) >= 2 and rng.random() < 0.5:
            seen = []

            class RecT(I.visitor.TreeTransformer):
                def generic_visit(self, node, context):
                    seen.append((id(node), [id(p) for p in context.get("parents", ())]))
                    yield from super().generic_visit(node, context)

            class RecV(I.visitor.TreeVisitor):
                def generic_visit(self, node, context):
                    seen.append((id(node), [id(p) for p in context.get("parents", ())]))
                    yield from super().generic_visit(node, context)
            for inst, run_ in ((RecT(track_parents=True), lambda i, t: i.visit(t)),
                               (RecV(track_parents=True), lambda i, t: list(i.visit_iter(t, context={})))):
                sub, other = objs[0], objs[1]
                ids = [id(n) for n in trees.all_nodes(sub)] + [id(n) for n in trees.all_nodes(other)]
                if len(ids) != len(set(ids)):
                    continue        # (the identity-based oracle needs distinct node objects)
                try:
                    run_(inst, sub)
                    emb = I.tree.AndOperation(I.tree.Not(sub), other)
                    del seen[:]
                    run_(inst, emb)
                except Exception as e:
                    ctx.fail("a reused %s raised %s" % (type(inst).__name__, type(e).__name__), {"tree": tlist[0]})
                    continue
                ctx.count("same objects under other ancestors")
                idp = trees.id_paths(emb)
                for nid, pids in seen:
                    tp = idp.get(nid)
                    if tp is None or [idp.get(x) for x in pids] != [tp[:k] for k in range(len(tp))]:
                        ctx.fail("a reused %s supplies ancestors of an earlier traversal (same node objects embedded in a "
                                 "larger tree)" % type(inst).__name__, {"tree": tlist[0], "other": tlist[1]})
                        break

    if ctx.model_ok:
        ans = common.ask_model(reqs)
        for r, a, e in zip(reqs, ans, expected):
            if r["op"] == "copy":
                if a.get("tree") != e:
                    ctx.disagree("TreeTransformer.visit", r["tree"], a, e)
            else:
                got = [[{"h": x["h"], "path": x["path"]} for x in v] for v in a.get("visits", [])]
                if got != e:
                    ctx.disagree("visit events", {"handlers": r["handlers"], "trees": r["trees"]}, got, e)
        ctx.traces_validated = len(reqs)
