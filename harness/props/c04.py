"""C04 — parsing is total and pure: a tree or a ParseError, independent of history."""
import json
import os
import subprocess
import sys

from .. import common, gen, parsing

LEVEL = "proof"
EXTRA_LEAN_MODULES = ["Luqum.Props.GenGlue", "Luqum.Props.GenHandle", "Luqum.Props.GenActions"]   # the parse wrappers are pass-through (translated)
RULE = ("histories of 2-8 parse calls on one process mixing valid queries, syntax errors, illegal characters and "
        "malformed numerals (about half malformed), through both entry points (module parser, thread wrapper); "
        "each outcome is compared with the outcome of the same string in a forked child whose lexer never "
        "parsed anything, and with the model; non-trivial = the call follows at least one other call; "
        "distinct = distinct (previous string, string, entry point)")
ASSUMPTIONS = ["RecursionError / MemoryError on pathological sizes are outside the claim",
               "no lone surrogates"]
TRUSTED = ["lean/Luqum/Model/{Lexer,Parser}.lean", "harness/fresh_worker.py (fork per string)"]

ALLOWED = ("ParseSyntaxError", "IllegalCharacterError")


def fresh_results(queries):
    p = subprocess.run([sys.executable, os.path.join(os.path.dirname(os.path.dirname(__file__)), "fresh_worker.py"),
                        common.snapshot_impl()],
                       input="".join(json.dumps({"q": q}) + "\n" for q in queries).encode("utf-8"),
                       stdout=subprocess.PIPE, stderr=subprocess.PIPE, timeout=1200)
    lines = p.stdout.decode("utf-8").split("\n")[:-1]
    if len(lines) != len(queries):
        raise RuntimeError("fresh worker failed: %s" % p.stderr.decode("utf-8", "replace")[-1000:])
    return [json.loads(l) for l in lines]


def make_histories(ctx, n):
    rng = ctx.rng
    hs = []
    nasty = ["a^.", "a~.", "a^1.2.3", "\"a\"~1.5", "\"a\"~2.0", "a '", "'", "(a", "a)", "[a TO", "a AND", "",
             " ", "\\", "a\\", "\"abc", "/abc", "a:", ":a", "a^2^", "~", "^", "a~~", "\"a\"~" + "9" * 50, "a b '",
             # numerals beyond the decimal context's precision (a call must not change how later calls round), an
             # escaped line break inside a token, blank-only inputs
             "k^1." + "123456789" * 5, "a~0." + "987654321" * 4, "b^" + "7" * 33, "c~0.1234567890123456789012345678901234",
             "\"a\\\nb\"", "/a\\\nb/", "a\\\nb", "\\\nb", "   ", "\t\n"]
    for i in range(n):
        k = rng.choice([2, 3, 4, 5, 8])
        h = []
        for j in range(k):
            qg = gen.QueryGen(rng, bad_nums=rng.random() < 0.3, newline_lexemes=rng.random() < 0.2,
                              long_nums=rng.random() < 0.3)
            x = rng.random()
            if x < 0.15:
                q = rng.choice(nasty)
            elif x < 0.5:
                q = gen.malformed(rng, qg)
            else:
                q = qg.query()
            if h and rng.random() < 0.25:
                q = rng.choice(h)[0]        # the same string again, later in the history
            h.append((q, rng.choice(["module", "module", "thread"])))
        hs.append(h)
    return hs


def scribble(t):
    """what a caller may do with the tree it was given (quick start, "manipulating"): edit it in place. The parser
    must hand out a new tree on every call; a later parse of the same string must not see these edits
    (seeded C11-F: parse results memoised by text)"""
    stack = [t]
    while stack:
        n = stack.pop()
        stack.extend(n.children)
        n.head = (n.head or "") + "#"
        n.tail = "#"
        n.pos = -7
        if type(n).__name__ == "Word":
            n.value = "scribbled"
        elif type(n).__name__.endswith("Operation"):
            n.children = list(reversed(n.children))


def suspended_generators(I):
    """generators of other parts of the library, started and left suspended while the histories run (an application
    that consumes `LuceneCheck.check(tree)` or a visitor's `visit_iter` lazily parses other queries in between):
    whatever such a generator changed around its `yield` -- the thread's decimal context, a module-level flag -- must
    not reach the parser (seeded C01-H: a `localcontext()` with the InvalidOperation trap off, held open across a
    yield)"""
    from decimal import Decimal
    T = I.tree
    gens = []
    try:
        import luqum.check as C
        for t in (T.Fuzzy(T.Word("a"), Decimal("-1")), T.Fuzzy(T.Word("a"), Decimal("NaN")),
                  T.AndOperation(T.Word("a b"), T.SearchField("bad name", T.Word("x")), T.Fuzzy(T.Phrase('"p"'), 2))):
            for zeal in (0, 1):
                gens.append(C.LuceneCheck(zeal=zeal).check(t))
        gens.append(I.visitor.TreeVisitor(track_parents=True).visit_iter(T.OrOperation(T.Word("a"), T.Word("b")), {}))
    except Exception:
        pass
    alive = []
    for g in gens:
        try:
            next(g)
            alive.append(g)
        except Exception:
            pass
    return alive


def run(ctx):
    I = common.impl()
    held = suspended_generators(I)
    ctx.count("generators of the library left suspended during the histories", len(held))
    hs = make_histories(ctx, ctx.budget(150, 4000))
    flat = []
    prev = None
    for h in hs:
        prev = None
        for q, entry in h:
            r, t = parsing.impl_parse(q, entry, history=False)
            flat.append((q, entry, r, prev))
            prev = q
            if t is not None and ctx.rng.random() < 0.5:
                scribble(t)
                ctx.count("returned tree edited in place by the caller")
    distinct = sorted({q for q, _, _, _ in flat})
    ref = dict(zip(distinct, fresh_results(distinct)))
    if ctx.model_ok:
        ans = dict(zip(distinct, common.ask_model([{"op": "parse", "q": q} for q in distinct])))
    else:
        ans = {}
    for q, entry, r, prev in flat:
        ctx.case((prev, q, entry), nontrivial=prev is not None,
                 sample={"previous": prev, "q": q, "entry": entry, "outcome": r.get("err") or "tree"}
                 if prev is not None and "err" in r else None)
        ctx.count("ok" if "ok" in r else r["err"][0])
        ctx.count("entry:" + entry)
        if "err" in r and r["err"][0] not in ALLOWED:
            ctx.fail("an exception that is not a luqum ParseError escapes (or no tree is returned): %s" % r["err"][0],
                     {"q": q, "entry": entry, "err": r["err"]})
        if r != ref[q]:
            ctx.fail("the outcome depends on what was parsed before / on the entry point",
                     {"q": q, "previous": prev, "entry": entry, "got": r, "fresh": ref[q]})
        if q in ans and ans[q] != r:
            ctx.disagree("parse(history)", {"q": q, "previous": prev, "entry": entry}, ans[q], r)
    ctx.traces_validated = len(flat)


def replay(ctx, rep):
    inp = (rep.get("failure") or {}).get("input", {})
    q = inp.get("q")
    if q is None:
        return
    if inp.get("previous") is not None:
        parsing.impl_parse(inp["previous"], inp.get("entry", "module"), history=False)
    r, _ = parsing.impl_parse(q, inp.get("entry", "module"), history=False)
    ref = fresh_results([q])[0]
    if ("err" in r and r["err"][0] not in ALLOWED) or r != ref:
        ctx.fail("outcome differs from a fresh parse or is not a ParseError", {"q": q, "got": r, "fresh": ref})
