"""C06 — each query term becomes exactly one ES clause: right field, value, kind, name."""
import copy
import json

from .. import common, es, trees
from . import c07

LEVEL = "proof"
EXTRA_LEAN_MODULES = ["Luqum.Props.GenRuntime", "Luqum.Props.GenEs"]   # constants of the E-classes and builder defaults (translated)
RULE = ("random schemas / configurations (incl. field_options, match_word_as_phrase, default_field) x named trees of "
        "supported constructs; the leaf clauses of the returned JSON are compared as a multiset with the clauses "
        "expected from the tree (field, text, kind class, zero_terms_query, _name, boost / fuzziness / slop); "
        "histories: the same builder is called again after other trees, and a fresh builder is used; the class-level "
        "attributes of the E-classes are snapshotted. non-trivial = translated with >= 2 leaves; distinct = distinct "
        "(config, tree)")
ASSUMPTIONS = ["supported constructs only; numbers after ~ and ^ with at most 15 significant digits (float repr)"]
TRUSTED = ["lean/Luqum/Model/Es.lean (hand-written)", "expected-clause computation in harness/props/c06.py (search only)"]

TRANSPARENT = ("Group", "FieldGroup", "Boost", "Fuzzy", "Proximity")


def has_wildcard(v):
    for i, ch in enumerate(v):
        if ch in "*?":
            if i == 0 or v[i - 1] != "\\" or (i >= 2 and v[i - 2] == "\\"):
                return True
    return False


def num_val(nj):
    from decimal import Decimal
    return float(Decimal((1 if nj["neg"] else 0, tuple(int(c) for c in nj["coeff"]), nj["exp"])))


def expected_leaves(d, cfg, containers):
    """[(field, text, kind, zero_terms or None, name, mods)] for every word / phrase / range of the tree"""
    na = cfg.get("not_analyzed_fields") or []
    dflt_must = cfg.get("default_operator", "should") != "should"
    fo = cfg.get("field_options") or {}
    out = []

    def walk(n, prefix, name, under_must, mods):
        c = n["c"]
        own = n["n"] if n["n"] is not None else name
        down = n["n"] if n["n"] else name
        field = ".".join(prefix) if prefix else cfg.get("default_field", "text")
        analyzed = field not in na
        if c in ("Word", "Phrase", "Range"):
            m = dict(mods)
            if c == "Range":
                kw = {("gte" if n["il"] else "gt"): n["ch"][0].get("v"), ("lte" if n["ih"] else "lt"): n["ch"][1].get("v")}
                text = json.dumps({k: v for k, v in kw.items() if v and v != "*"}, sort_keys=True)
                kind = "range"
                m.pop("slop", None)
            elif c == "Word" and n["v"] == "*":
                text, kind, m = "*", "exists", {}
            else:
                import re
                if c == "Word":
                    text = n["v"]
                    wild = has_wildcard(text)
                elif analyzed:
                    text, wild = re.sub(r"\s+", " ", n["v"])[1:-1], False
                else:
                    text = n["v"][1:-1]
                    wild = has_wildcard(text)
                if c == "Word" or not analyzed:
                    m.pop("slop", None)
                if not analyzed:
                    kind = "wildcard" if wild else ("fuzzy" if "fuzziness" in m else "term")
                elif wild:
                    kind = "query_string"
                elif "fuzziness" in m:
                    kind = "fuzzy"
                else:
                    base = "match_phrase" if (c == "Phrase" or cfg.get("match_word_as_phrase")) else "match"
                    o = fo.get(field, {})
                    kind = o.get("match_type", o.get("type", base))
            zt = ("all" if under_must else "none") if kind == "match" else None
            if kind != "exists":
                # per-field options are merged in, generated parameters win
                merged = {k: v for k, v in fo.get(field, {}).items() if k in ("boost", "fuzziness", "slop")}
                merged.update(m)
                m = merged
            out.append((field, text, kind, zt, own, tuple(sorted(m.items()))))
            return
        if c == "SearchField":
            names = n["name"].split(".")
            full = prefix + names
            nests = any(".".join(prefix + names[:len(names) - i]) in containers for i in range(len(names)))
            walk(n["ch"][0], full, down, under_must and not nests, {} if nests else mods)
            return
        if c in ("AndOperation", "OrOperation", "UnknownOperation", "BoolOperation", "Plus", "Not", "Prohibit"):
            must = c in ("AndOperation", "Plus") or (c == "UnknownOperation" and dflt_must)
            for x in flat_children(n):
                walk(x, prefix, down, must, {})
            return
        m = dict(mods)
        if c == "Boost" and "boost" not in m:
            m["boost"] = num_val(n["num"])
        if c == "Fuzzy":
            m["fuzziness"] = num_val(n["num"])
        if c == "Proximity":
            m["slop" if analyzed else "fuzziness"] = num_val(n["num"])
        for x in n["ch"]:
            walk(x, prefix, down, under_must, m)

    def flat_children(n):
        for x in n["ch"]:
            if x["c"] == n["c"] and n["c"] not in ("Not", "Prohibit"):
                yield from flat_children(x)
            else:
                yield x
    walk(d, [], None, False, {})
    return out


def actual_leaves(j, out):
    if isinstance(j, dict) and "bool" in j:
        for k in ("must", "should", "must_not"):
            for x in j["bool"].get(k, []):
                actual_leaves(x, out)
        return out
    if isinstance(j, dict) and "nested" in j:
        return actual_leaves(j["nested"]["query"], out)
    kind = list(j.keys())[0]
    body = j[kind]
    if kind == "exists":
        out.append((body["field"], "*", "exists", None, body.get("_name"), ()))
        return out
    if kind in ("query_string", "multi_match"):
        inner, field = body, body.get("default_field")
    else:
        field = list(body.keys())[0]
        inner = body[field]
    if kind == "range":
        text = json.dumps({k: inner[k] for k in inner if k in ("gte", "gt", "lte", "lt")}, sort_keys=True)
    else:
        text = inner.get("query", inner.get("value"))
    mods = tuple(sorted((k, inner[k]) for k in ("boost", "fuzziness", "slop") if k in inner))
    out.append((field, text, kind, inner.get("zero_terms_query"), inner.get("_name"), mods))
    return out


def class_state(I):
    E = I.es_tree
    return {c.__name__: {k: copy.deepcopy(v) for k, v in vars(c).items()
                         if k in ("ADDITIONAL_KEYS_TO_ADD", "zero_terms_query", "_KEYS_TO_ADD", "boost", "_fuzzy",
                                  "_proximity", "operation")}
            for c in (E.AbstractEItem, E.EWord, E.EPhrase, E.ERange, E.EMust, E.EMustNot, E.EShould,
                      E.EBoolOperation, E.ENested)}


def run(ctx):
    I = common.impl()
    rng = ctx.rng
    cs = c07.cases(ctx, ctx.budget(400, 8000), multi_match=False, mixes=False, misuse=0.02, names=True, bool_ops=True)
    before = class_state(I)
    results = c07.run_cases(ctx, cs)
    builders = {}
    hist = trees.SharedObjects(ctx, ctx.rng, "ElasticsearchQueryBuilder", known_params={"tree"})
    reqs_seen = []
    for schema, cfg, d, r, raw in results:
        ok = "ok" in r
        if not ok:
            ctx.case((repr(cfg), repr(common.strip_tree(d, names=False))), nontrivial=False)
            ctx.count(r["err"][0])
            continue
        actual_pref = set(es.leaf_parent_prefixes(cfg.get("nested_fields")))
        exp = sorted(map(repr, expected_leaves(d, cfg, actual_pref)))
        act_list = actual_leaves(raw, [])
        act = sorted(map(repr, act_list))
        ctx.case((repr(cfg), repr(common.strip_tree(d, names=False))), nontrivial=len(act) >= 2,
                 sample={"query": str(common.load_tree(d)), "clauses": [list(map(str, a)) for a in act_list][:6]}
                 if len(act) >= 3 else None)
        ctx.count("translated")
        ctx.count("leaf clauses", len(act))
        info = {"cfg": cfg, "tree": d}
        if exp != act:
            missing = [e for e in exp if e not in act]
            extra = [a for a in act if a not in exp]
            ctx.fail("leaf clauses differ from what the tree's terms demand (field, text, kind, zero_terms_query, "
                     "_name, modifiers): expected-but-missing %s; unexpected %s" % (missing[:2], extra[:2]),
                     dict(info, json=raw))
        try:
            if json.loads(json.dumps(raw)) != raw:
                ctx.fail("the result does not survive a JSON round trip", info)
        except (TypeError, ValueError) as e:
            ctx.fail("the result is not plain JSON data: %s" % e, info)
        # histories: same builder again (after other calls) and a fresh builder
        key = repr(cfg)
        b = builders.get(key)
        if b is None:
            b = builders[key] = I.es.ElasticsearchQueryBuilder(**es.python_spelling(cfg))
        o = common.load_tree(d)
        r1, _ = es.build(cfg, o, b)
        r2, _ = es.build(cfg, o, b)
        r3, _ = es.build(cfg, common.load_tree(d))
        if not (r1 == r2 == r3 == r):
            ctx.fail("the result depends on the builder's history (same builder twice / fresh builder differ)", info)
        if len(reqs_seen) % 4 == 0:
            hist.check(key, lambda: I.es.ElasticsearchQueryBuilder(**es.python_spelling(cfg)),
                       lambda bb, t: es.build(cfg, t, bb)[0], d, info,
                       poison=[es.refused_in_nested(schema)] if schema else ())
        reqs_seen.append(1)
    # ---- "each word ... of the INPUT ... addressed to the fully qualified field": queries given as text. `name:value`
    # must be read as the field `name` and the term `value` (documented lexical rules, independent tokenizer and
    # grammar of the C03 check), and the clause built from it must sit on that field with that text (seeded C06-G:
    # `zone-12:45` swallowed into one word by a wider time look-behind)
    from . import c03
    from .. import gen as _gen, parsing as _parsing
    b = I.es.ElasticsearchQueryBuilder(default_field="dflt", not_analyzed_fields=[])
    for _ in range(ctx.budget(160, 3000)):
        name = rng.choice(_gen.FIELDS + ["zone-12", "level+10", "iso-8859-15", "slotT10", "x-1", "a+22"])
        value = rng.choice([w for w in _gen.WORDS if ":" not in w and "\\" not in w and not w.startswith(("*", "?"))] + ["45", "15", "30x"])
        sep = rng.choice(["", "", " ", "\t"])
        q = "%s:%s%s" % (name, sep, value)
        shape = ["TERM", "COLUMN", "TERM"]
        k = rng.random()
        if k < 0.35:
            # the modifiers of the INPUT: `^n` and `~n` in every spelling of a number the syntax documents (seeded
            # C06-G: `2.` and `.5` no longer lexed as one number, the rest becoming a phantom word)
            num = rng.choice([n for n in _gen.NUMS if n])
            kind = rng.choice(["^", "~", "p~", "f^"])
            plain = rng.choice(["foo", "a", "x1", "héllo"])
            if kind == "^":
                q, shape = "%s^%s" % (plain, num), ["TERM", "BOOST"]
            elif kind == "~":
                q, shape = "%s~%s" % (plain, num), ["TERM", "APPROX"]
            elif kind == "p~":
                q, shape = '"a b"~%s' % rng.choice(["1", "2", "03", "10"]), ["PHRASE", "APPROX"]
            else:
                q, shape = "f:%s^%s" % (plain, num), ["TERM", "COLUMN", "TERM", "BOOST"]
            if kind in ("^", "~", "p~") and rng.random() < 0.35:
                # a prefix operator binds less tightly than `^` / `~`: the boost belongs to the term, the negation to
                # the boosted term (seeded C06-H: NOT given the precedence of a unary minus)
                pre = rng.choice(["NOT ", "-", "+"])
                q, shape = pre + q, [{"NOT ": "NOT", "-": "MINUS", "+": "PLUS"}[pre]] + shape
            if rng.random() < 0.4:
                q, shape = q + " bar", shape + ["TERM"]
        toks = _parsing.spec_lex(q)
        if toks is None or [t[0] for t in toks] != shape:
            continue
        r, t = _parsing.impl_parse(q)
        ctx.count("queries given as text")
        if t is None:
            ctx.fail("a `name:value` query of the documented syntax is refused", {"q": q, "err": r})
            continue
        try:
            j = b(t)
        except Exception:
            continue
        sk = c03.skeleton(r["ok"])
        spec, why = c03.spec_parse(toks)
        if spec is not None and sk != spec:
            ctx.fail("the query is not read as its documented syntax says (%s): the clauses are built from other "
                     "words, fields or modifiers" % " ".join(t[1] for t in toks),
                     {"q": q, "json": j, "tree": sk, "documented": spec})
    after = class_state(I)
    if after != before:
        ctx.fail("a call modified class-level attributes of the E-classes", {"before": before, "after": after})
