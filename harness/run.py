"""Entry point of every check:  python -m harness.run <ID> --tier quick|thorough [--replay file]

Verdict logic (DESIGN §2.5):
  regenerate Generated/* from /repo's working tree, build the property's Lean module (proof
  obligations), audit axioms and forbidden constructs, run correspondence (model vs implementation)
  and the direct oracle (property statement on the implementation) on generated cases.
  * a failing input of the oracle that no known finding classifies  -> VIOLATION (replay = input)
  * broken obligation / correspondence -> escalated search; failing input found -> VIOLATION,
    else VIOLATION ... no-failing-input-found (replay names the theorem / correspondence stream)
  * otherwise print KNOWN-FINDING lines and exit 0.
Exit 2 = the check itself could not run (timeout, crash of the harness): never a VIOLATION.
"""
import argparse
import importlib
import json
import os
import random
import sys
import time
import traceback

from . import common
from .common import VERIF, OUT_DIR, EVIDENCE_DIR

PROPS = ["C%02d" % i for i in range(1, 21)]
# generated cases of the quick tier = the per-property base number x QUICK_MULT; x SOURCE_MULT more when the source of
# a function the property is anchored in differs from the pinned tree (harness/fingerprint.py): directed escalation
QUICK_MULT = int(os.environ.get("VERIF_QUICK_MULT", "3"))
SOURCE_MULT = int(os.environ.get("VERIF_SOURCE_MULT", "3"))
THOROUGH_MULT = int(os.environ.get("VERIF_THOROUGH_MULT", "5"))


class Ctx:
    """what a property module receives"""

    def __init__(self, prop, tier, seed, escalate, model_ok):
        self.prop = prop
        self.tier = tier
        self.seed = seed
        self.escalate = escalate          # obligations / correspondence broke: search harder
        self.model_ok = model_ok          # the compiled model driver is usable
        self.rng = random.Random("%s-%s" % (prop, seed))
        self.failures = []                # oracle failures: property false on the implementation
        self.disagreements = []           # model and implementation differ
        self.evaluations = 0
        self.nontrivial = set()
        self.samples = []
        self.dist = {}
        self.known_hits = {}
        self.notes = []
        self.traces_validated = 0
        self.source_changed = []          # anchored functions whose source differs from the pinned tree

    # budget: number of generated cases
    def budget(self, quick, thorough):
        n = quick * QUICK_MULT if self.tier == "quick" else thorough * THOROUGH_MULT
        return int(n * (4 if self.escalate else 1) * (SOURCE_MULT if self.source_changed else 1))

    def count(self, key, n=1):
        self.dist[key] = self.dist.get(key, 0) + n

    def case(self, key, nontrivial=True, sample=None):
        """register one explored case; `key` identifies it for distinctness"""
        self.evaluations += 1
        if nontrivial:
            self.nontrivial.add(key if isinstance(key, (str, int, tuple)) else json.dumps(key, sort_keys=True))
        if sample is not None and len(self.samples) < 6:
            self.samples.append(sample)

    def fail(self, what, inp, **extra):
        """the property statement is false on the implementation for this input"""
        f = {"kind": "oracle", "what": what, "input": inp}
        f.update(extra)
        self.failures.append(f)

    def disagree(self, stream, inp, model, impl_):
        self.disagreements.append({"kind": "correspondence", "stream": stream, "input": inp,
                                   "model": model, "impl": impl_})


def load_prop(prop):
    return importlib.import_module("harness.props.%s" % prop.lower())


def write_json(path, obj):
    os.makedirs(os.path.dirname(path), exist_ok=True)
    tmp = path + ".tmp%d" % os.getpid()
    with open(tmp, "w", encoding="utf-8") as f:
        json.dump(obj, f, indent=1, ensure_ascii=False, default=str)
    os.replace(tmp, path)


def setup():
    """MANIFEST.setup_cmd: translator + clean build of everything"""
    from tools import translate
    with common.BuildLock():
        changed = translate.regenerate()
        print("translator:", changed)
        ok, out = common.lake_build(["Luqum", "luqumdrv"])
        print(out[-3000:])
    hits = common.grep_audit()
    if hits:
        print("forbidden constructs:\n" + "\n".join(hits))
    return 0 if ok and not hits else 1


def main(argv=None):
    ap = argparse.ArgumentParser()
    ap.add_argument("prop")
    ap.add_argument("--tier", default=os.environ.get("VERIF_TIER", "quick"))
    ap.add_argument("--replay", default=None)
    args = ap.parse_args(argv)
    if args.prop == "--setup" or args.prop == "setup":
        return setup()
    prop = args.prop.upper()
    if prop not in PROPS:
        print("unknown property", prop)
        return 2
    tier = "thorough" if args.tier.startswith("t") else "quick"
    try:
        seed = int(os.environ.get("VERIF_SEED", "0"))
    except ValueError:
        seed = 0
    timer = common.Timer()
    mod = load_prop(prop)

    # ---- replay mode: run the oracle on a stored input
    if args.replay:
        common.impl()
        rep = json.load(open(args.replay, encoding="utf-8"))
        ctx = Ctx(prop, tier, seed, False, os.path.exists(common.DRIVER))
        if hasattr(mod, "replay") and rep.get("failure"):
            mod.replay(ctx, rep)
        else:
            # generic replay: every random choice derives from (property, seed), so re-running the property
            # module with the recorded seed and tier regenerates the same cases
            ctx = Ctx(prop, rep.get("tier", tier), int(rep.get("seed", seed)), False, os.path.exists(common.DRIVER))
            mod.run(ctx)
        bad = ctx.failures
        print(json.dumps({"failures": bad[:5], "disagreements": ctx.disagreements[:5]}, indent=1,
                         ensure_ascii=False, default=str))
        return 1 if bad or ctx.disagreements else 0

    # ---- 1. translator + build (proof obligations)
    from tools import translate
    lean_module = getattr(mod, "LEAN_MODULE", "Luqum.Props.%s" % prop)
    extra_modules = list(getattr(mod, "EXTRA_LEAN_MODULES", []))
    props_file = os.path.join(common.LEAN_DIR, *lean_module.split(".")) + ".lean"
    broken = []          # names of theorems / obligations / streams that no longer check
    build_log = ""
    try:
        common.impl()
    except Exception:
        print("cannot import the implementation snapshot:\n" + traceback.format_exc())
        return 2
    with common.BuildLock():
        changed = translate.regenerate()
        ok_thm, build_log = common.lake_build([lean_module] + extra_modules)
        ok_drv, drv_log = common.lake_build(["luqumdrv"])
        # keep a private copy of the driver so that a concurrent rebuild cannot disturb this run
        if ok_drv:
            import shutil
            private = os.path.join(common.scratch_dir(), "luqumdrv")
            shutil.copy2(common.DRIVER, private)
            common.DRIVER = private
    thms = common.theorem_names(props_file)
    extra_thms = {m: common.theorem_names(os.path.join(common.LEAN_DIR, *m.split(".")) + ".lean") for m in extra_modules}
    axioms = {}
    if not ok_thm:
        errs = [l for l in build_log.split("\n") if l.startswith("error")]
        broken.append({"obligation": "lake build %s" % lean_module, "errors": errs[:20]})
    else:
        ok_ax, axioms, ax_out = common.axiom_audit(lean_module, thms)
        if not ok_ax:
            broken.append({"obligation": "axiom audit of %s" % lean_module, "output": ax_out[-2000:]})
        for m, names in extra_thms.items():
            ok_m, ax_m, out_m = common.axiom_audit(m, names)
            axioms.update(ax_m)
            if not ok_m:
                broken.append({"obligation": "axiom audit of %s" % m, "output": out_m[-2000:]})
        thms = thms + [n for names in extra_thms.values() for n in names]
    grep_hits = common.grep_audit()
    if grep_hits:
        broken.append({"obligation": "grep audit", "hits": grep_hits})
    if tier == "thorough" and ok_thm and os.environ.get("VERIF_NO_LEANCHECKER") != "1":
        import subprocess
        try:
            p = subprocess.run(["lake", "env", "leanchecker", lean_module] + extra_modules, cwd=common.LEAN_DIR,
                               stdout=subprocess.PIPE, stderr=subprocess.STDOUT, timeout=3000)
            if p.returncode != 0:
                broken.append({"obligation": "leanchecker %s" % lean_module,
                               "output": p.stdout.decode("utf-8", "replace")[-2000:]})
        except FileNotFoundError:
            pass

    # ---- 2. correspondence + oracle
    ctx = Ctx(prop, tier, seed, bool(broken), ok_drv)
    from . import fingerprint
    ctx.source_changed = fingerprint.changed_since_pinned(prop)
    if ctx.source_changed:
        print("source changed since the model was pinned (search escalated, not a verdict): %s" % ", ".join(ctx.source_changed[:12]))
    if not ok_drv:
        broken.append({"obligation": "lake build luqumdrv (model driver)",
                       "errors": [l for l in drv_log.split("\n") if l.startswith("error")][:20]})
        ctx.escalate = True
    from . import parsing as _parsing
    _parsing.HISTORY_RATE[0] = 0.2 if (ctx.escalate or ctx.source_changed) else 0.04
    try:
        mod.run(ctx)
    except common.DriverError as e:
        print("model driver failed: %s" % e)
        traceback.print_exc()
        return 2
    except Exception as e:
        # an exception that escapes from the implementation's own code while the check exercises it on inputs the
        # property covers (printing a parsed tree, cloning, visiting ...) is a failure of the property, not of the
        # harness: it is reported with the traceback as the replay. Anything raised by the harness itself is exit 2.
        tb = traceback.extract_tb(e.__traceback__)
        impl_root = common.snapshot_impl()
        if tb and os.path.abspath(tb[-1].filename).startswith(impl_root):
            where = "%s:%d in %s" % (os.path.relpath(tb[-1].filename, impl_root), tb[-1].lineno, tb[-1].name)
            ctx.fail("the implementation raised %s (%s) at %s while the check exercised it" % (
                type(e).__name__, str(e)[:200], where),
                {"traceback": traceback.format_exception(type(e), e, e.__traceback__)[-12:]})
            ctx.notes.append("the run was cut short by an exception from the implementation")
        else:
            raise
    if ctx.disagreements and not ctx.escalate and not ctx.failures:
        # correspondence broke: search harder with the oracle
        ctx2 = Ctx(prop, tier, seed + 1000003, True, ok_drv)
        ctx2.source_changed = ctx.source_changed
        mod.run(ctx2)
        ctx.failures += ctx2.failures
        ctx.evaluations += ctx2.evaluations
        ctx.nontrivial |= ctx2.nontrivial
        for k, v in ctx2.dist.items():
            ctx.dist[k] = ctx.dist.get(k, 0) + v

    # ---- 3. known findings
    from . import known
    kfs = common.known_findings(prop)
    unlisted = []
    listed = {}
    for f in ctx.failures:
        hit = None
        for kf in kfs:
            if known.classify(kf, prop, f):
                hit = kf
                break
        if hit is None:
            unlisted.append(f)
        else:
            listed.setdefault(hit["id"], []).append(f)
    # a disagreement that a known finding explains is not a broken correspondence
    real_disagreements = []
    for d in ctx.disagreements:
        if not any(known.classify(kf, prop, d) for kf in kfs):
            real_disagreements.append(d)
    if real_disagreements:
        streams = sorted({d["stream"] for d in real_disagreements})
        broken.append({"correspondence": streams, "first": real_disagreements[0],
                       "count": len(real_disagreements)})

    # ---- 4. evidence
    n_obl = len(thms) + len(getattr(mod, "EXTRA_OBLIGATIONS", []))
    discharged = n_obl if ok_thm and not any("obligation" in b for b in broken) else 0
    level = getattr(mod, "LEVEL", "proof")
    coverage = {
        "obligations": max(n_obl, 1),
        "discharged": discharged,
        "checker_cmd": "cd lean && lake build %s && lake env lean <#print axioms of each theorem>%s" % (
            lean_module, " && lake env leanchecker %s" % lean_module if tier == "thorough" else ""),
        "trusted_base": [
            "Lean 4.33 kernel" + (" (+ leanchecker re-check)" if tier == "thorough" else ""),
            "axioms: subset of {propext, Classical.choice, Quot.sound} (audited this run)",
            "tools/translate.py (reads live python objects of the snapshot)",
            "correspondence harness: hand-written model == implementation only on the generated cases",
        ] + list(getattr(mod, "TRUSTED", [])),
        "theorems": thms,
        "axioms": axioms,
        "translator_changed": changed,
        "evaluations": ctx.evaluations,
        "distinct_nontrivial": len(ctx.nontrivial),
        "rule": getattr(mod, "RULE", ""),
        "samples": ctx.samples or ["(no case)"],
        "traces_validated_against_impl": ctx.traces_validated or ctx.evaluations,
        "correspondence_disagreements": len(real_disagreements),
        "oracle_failures": len(ctx.failures),
        "oracle_failures_known": {k: len(v) for k, v in listed.items()},
        "distribution": dict(sorted(list(ctx.dist.items()) + [
            ("history: " + k, v) for k, v in __import__("harness.parsing", fromlist=["HISTORY"]).HISTORY.items() if v])),
        "broken": broken,
        "source_changed_since_pinned": ctx.source_changed,
        "notes": ctx.notes,
    }
    evidence = {
        "property_id": prop, "tier": tier, "seed": seed, "level": level, "coverage": coverage,
        "assumptions": list(getattr(mod, "ASSUMPTIONS", [])),
        "wall_s": round(timer.elapsed(), 2),
        "violations": len(unlisted) + (1 if broken and not unlisted else 0),
    }
    write_json(os.path.join(EVIDENCE_DIR, "%s.json" % prop), evidence)

    # ---- 5. verdict
    rc = 0
    replay_path = os.path.join(OUT_DIR, "replay", "%s-seed%d.json" % (prop, seed))
    if unlisted:
        write_json(replay_path, {"property": prop, "seed": seed, "tier": tier, "failure": unlisted[0],
                                 "more": unlisted[1:10], "broken": broken})
        print("VIOLATION property=%s replay=%s" % (prop, replay_path))
        print("  %s" % json.dumps(unlisted[0], ensure_ascii=False, default=str)[:1500])
        rc = 1
    elif broken:
        write_json(replay_path, {"property": prop, "seed": seed, "tier": tier, "failure": None,
                                 "no_longer_checks": broken})
        print("VIOLATION property=%s replay=%s no-failing-input-found" % (prop, replay_path))
        print("  %s" % json.dumps(broken, ensure_ascii=False, default=str)[:3000])
        rc = 1
    for kf in kfs:
        n = len(listed.get(kf["id"], []))
        print("KNOWN-FINDING: property=%s %s: %s (witness %s; %d generated inputs hit it this run)" % (
            prop, kf["id"], kf["what"], json.dumps(kf["witness"], ensure_ascii=False), n))
    print("%s %s seed=%d: %d theorems, %d cases (%d distinct non-trivial), %d oracle failures "
          "(%d unlisted), %d disagreements, %.1fs" % (
              prop, tier, seed, len(thms), ctx.evaluations, len(ctx.nontrivial), len(ctx.failures),
              len(unlisted), len(real_disagreements), timer.elapsed()))
    return rc


if __name__ == "__main__":
    try:
        sys.exit(main())
    except SystemExit:
        raise
    except BaseException:
        traceback.print_exc()
        sys.exit(2)
