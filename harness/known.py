"""Classifiers of the known findings (known_findings.json): decide whether a failing input is an
instance of a recorded defect. One function per finding id; a failure is a dict produced by
Ctx.fail / Ctx.disagree ("what", "input", ...)."""

CLASSIFIERS = {}


def classifier(fid):
    def deco(f):
        CLASSIFIERS[fid] = f
        return f
    return deco


def classify(kf, prop, failure):
    f = CLASSIFIERS.get(kf["id"])
    if f is None:
        return False
    try:
        return bool(f(prop, failure))
    except Exception:
        return False
