"""Classifiers of the known findings (known_findings.json): decide whether a failing input is an
instance of a recorded defect. One function per finding id; a failure is a dict produced by
Ctx.fail / Ctx.disagree ("what", "input", ...)."""

CLASSIFIERS = {}


def classifier(fid):
    def deco(f):
        CLASSIFIERS[fid] = f
        return f
    return deco


def classify(kf, prop, failure):
    f = CLASSIFIERS.get(kf["id"])
    if f is None:
        return False
    try:
        return bool(f(prop, failure))
    except Exception:
        return False


# ---------------------------------------------------------------------------------------------
# KF1 / KF2 (C01, C02, C17)
# ---------------------------------------------------------------------------------------------

def _lossless_explained(q, printed, kf1, kf2):
    """is `printed` what the known findings predict for query `q`?"""
    from . import parsing
    base = q
    if kf1:
        base = parsing.remove_spans(q, parsing.blank_before_colon_spans(q))
    if parsing.respell_ok(base, printed) is None:
        return True
    if kf2:
        a = parsing.NUM_RE.split(base)
        b = parsing.NUM_RE.split(printed)
        if len(a) != len(b):
            return False
        long_ = set(parsing.long_numerals(q))
        for i in range(1, len(a), 2):
            if a[i] in long_ and b[i][:1] == a[i][:1]:
                b[i] = a[i]
        return parsing.respell_ok("".join(a), "".join(b)) is None
    return False


def _lossless_explained_base(base, orig_slice, printed, kf2):
    """like _lossless_explained but `base` already has the KF1 blanks removed"""
    from . import parsing
    if parsing.respell_ok(base, printed) is None:
        return True
    if kf2:
        a = parsing.NUM_RE.split(base)
        b = parsing.NUM_RE.split(printed)
        if len(a) != len(b):
            return False
        long_ = set(parsing.long_numerals(orig_slice))
        for i in range(1, len(a), 2):
            if a[i] in long_ and b[i][:1] == a[i][:1]:
                b[i] = a[i]
        return parsing.respell_ok("".join(a), "".join(b)) is None
    return False


def _c02_explained(f, tag):
    inp = f.get("input") or {}
    if "problems" not in inp:
        return None
    return inp.get("unexplained") == 0 and any(tag in e for e in inp.get("explained_by", []))


@classifier("KF1")
def _kf1(prop, f):
    inp = f.get("input") or {}
    c02 = _c02_explained(f, "KF1")
    if c02 is not None:
        return c02
    q, printed = inp.get("q"), inp.get("printed")
    if q is None or printed is None:
        return False
    from . import parsing
    if not parsing.blank_before_colon_spans(q):
        return False
    return (not _lossless_explained(q, printed, False, True)) and _lossless_explained(q, printed, True, True)


@classifier("KF2")
def _kf2(prop, f):
    inp = f.get("input") or {}
    c02 = _c02_explained(f, "KF2")
    if c02 is not None:
        return c02
    q, printed = inp.get("q"), inp.get("printed")
    if q is None or printed is None:
        return False
    from . import parsing
    if not parsing.long_numerals(q):
        return False
    return (not _lossless_explained(q, printed, False, False)) and _lossless_explained(q, printed, False, True)


# ---------------------------------------------------------------------------------------------
# KF8 / KF9 (C13, C11): glued tokens that re-lex differently
# ---------------------------------------------------------------------------------------------

def _glue_repair(node, kinds):
    """put a blank where KF8 / KF9 glue two tokens; returns the number of repairs"""
    n = 0
    for c in node.children:
        n += _glue_repair(c, kinds)
    return n + _glue_repair_one(node, kinds)


def _glue_repair_one(node, kinds):
    import re
    from . import common
    T = common.impl().tree
    n = 0
    if "KF8" in kinds and isinstance(node, T.SearchField):
        text = node.expr.__str__(head_tail=True)
        if re.search(r"T\d\d$", node.name) and re.match(r"\d\d", text):
            node.expr.head = " " + node.expr.head
            n += 1
    if "KF9" in kinds and isinstance(node, T.OpenRange) and not node.include:
        text = node.a.__str__(head_tail=True)
        if text.startswith("="):
            node.a.head = " " + node.a.head
            n += 1
    return n


def _glue_explained(f, mine, others):
    """the failure disappears with my repair (plus the other known glue repairs) but not without mine"""
    from . import common, parsing
    inp = f.get("input") or {}
    if "tree" not in inp or "printed" not in inp:
        return False
    I = common.impl()
    target = common.load_tree(inp["tree"])

    def ok(kinds):
        t = common.load_tree(inp.get("transformed") or inp["tree"])
        if "transformed" not in inp:
            t = I.aht.auto_head_tail(t)
        if _glue_repair(t, kinds) == 0 and kinds:
            pass
        r, back = parsing.impl_parse(t.__str__(head_tail=True))
        cmp_to = common.load_tree(inp["expect"]) if "expect" in inp else target
        return back is not None and back == cmp_to

    return (not ok(others)) and ok(others | {mine})


@classifier("KF8")
def _kf8(prop, f):
    return _glue_explained(f, "KF8", {"KF9"})


@classifier("KF9")
def _kf9(prop, f):
    return _glue_explained(f, "KF9", set()) or _glue_explained(f, "KF9", {"KF8"})


# ---------------------------------------------------------------------------------------------
# KF10 (C18): newline inside a phrase / regex
# ---------------------------------------------------------------------------------------------

def _collapse_ws_in_delimited(d):
    import re
    r = dict(d)
    if d["c"] in ("Phrase", "Regex"):
        r["v"] = re.sub(r"\s+", " ", d["v"])
    r["ch"] = [_collapse_ws_in_delimited(c) for c in d["ch"]]
    return r


@classifier("KF10")
def _kf10(prop, f):
    from . import common, parsing
    inp = f.get("input") or {}
    if "tree" not in inp or "pretty" not in inp:
        return False
    d = inp["tree"]
    if not any(n["c"] in ("Phrase", "Regex") and "\n" in n["v"] for _, n in common.tree_nodes(d)):
        return False
    r, t = parsing.impl_parse(inp["pretty"])
    if t is None:
        return False
    a = common.strip_tree(_collapse_ws_in_delimited(d))
    b = common.strip_tree(_collapse_ws_in_delimited(r["ok"]))
    return a == b


# ---------------------------------------------------------------------------------------------
# KF3 / KF4 / KF5 (C05, C07): the oracle itself records which finding predicts the outcome
# ---------------------------------------------------------------------------------------------

def _explained(fid):
    def f(prop, failure):
        inp = failure.get("input") or {}
        return any(fid in e.split("+") for e in inp.get("explained_by", []))
    return f


for _fid in ("KF3", "KF4", "KF5", "KF6", "KF7", "KF11", "KF12"):
    CLASSIFIERS[_fid] = _explained(_fid)

_kf8_tree, _kf9_tree = CLASSIFIERS["KF8"], CLASSIFIERS["KF9"]
CLASSIFIERS["KF8"] = lambda prop, f: _explained("KF8")(prop, f) or _kf8_tree(prop, f)
CLASSIFIERS["KF9"] = lambda prop, f: _explained("KF9")(prop, f) or _kf9_tree(prop, f)


def _kf8_pretty(prop, f):
    """C18: the pretty text re-parses to the original tree once the KF8 blank is put after the ':'"""
    from . import common, parsing
    inp = f.get("input") or {}
    if prop != "C18" or "tree" not in inp or "pretty" not in inp:
        return False
    I = common.impl()
    t = common.load_tree(inp["tree"])
    # KF8 is a defect of PRINTING (no blank between `name:` and a time-like value because the tree has none): the
    # pretty printer inherits it only when the plain printed form of the tree already re-parses to something else.
    # A tree whose printed form is fine must also survive pretty-printing (seeded C18-G glues `slotT10: 30`).
    r0, back0 = parsing.impl_parse(t.__str__(head_tail=True))
    if back0 is not None and back0 == t:
        return False
    if _glue_repair(t, {"KF8"}) == 0:
        return False
    pp = I.pretty.Prettifier(indent=inp.get("indent", 4), max_len=inp.get("max_len", 80),
                             inline_ops=inp.get("inline_ops", False))
    r, back = parsing.impl_parse(pp(t))
    return back is not None and back == common.load_tree(inp["tree"])


_kf8_prev = CLASSIFIERS["KF8"]
CLASSIFIERS["KF8"] = lambda prop, f: _kf8_prev(prop, f) or _kf8_pretty(prop, f)
