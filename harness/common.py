"""Shared machinery of the luqum verification harness.

* snapshot of /repo's working tree (the implementation is always imported from a scratch copy, so
  PLY can never rewrite /repo/luqum/parsetab.py and a deleted submodule cannot silently fall back
  to /repo through the editable-install finder)
* JSON dump / load of luqum trees (same encoding as lean/Luqum/Driver/Codec.lean)
* driver wrapper (line protocol to the compiled Lean model)
* lake build / axiom audit / grep audit
* evidence, replay and verdict helpers
"""
import atexit
import fcntl
import json
import os
import re
import shutil
import subprocess
import sys
import tempfile
import time
from decimal import Decimal

VERIF = os.path.dirname(os.path.dirname(os.path.abspath(__file__)))
REPO = os.environ.get("LUQUM_REPO", "/repo")
LEAN_DIR = os.path.join(VERIF, "lean")
DRIVER = os.path.join(LEAN_DIR, ".lake", "build", "bin", "luqumdrv")
OUT_DIR = os.path.join(VERIF, "out")
EVIDENCE_DIR = os.environ.get("VERIF_EVIDENCE_DIR") or os.path.join(VERIF, "evidence")
STD_AXIOMS = {"propext", "Classical.choice", "Quot.sound"}

_scratch = None


def scratch_dir():
    """a private scratch directory outside /repo and /verif, removed at exit"""
    global _scratch
    if _scratch is None:
        base = os.environ.get("TMPDIR") or "/tmp"
        _scratch = tempfile.mkdtemp(prefix="luqum-verif-", dir=base)
        atexit.register(shutil.rmtree, _scratch, True)
    return _scratch


_impl_path = None


def snapshot_impl():
    """copy /repo/luqum (working tree) into the scratch dir and make it the importable luqum"""
    global _impl_path
    if _impl_path is None:
        dst = os.path.join(scratch_dir(), "impl")
        os.makedirs(dst)
        shutil.copytree(
            os.path.join(REPO, "luqum"), os.path.join(dst, "luqum"),
            ignore=shutil.ignore_patterns("__pycache__", "*.pyc", "parser.out"))
        sys.path.insert(0, dst)
        for name in [m for m in sys.modules if m == "luqum" or m.startswith("luqum.")]:
            del sys.modules[name]
        _impl_path = dst
        import luqum  # noqa
        assert os.path.abspath(luqum.__file__).startswith(dst), luqum.__file__
    return _impl_path


class Impl:
    """lazy namespace over the implementation's modules (imported from the snapshot)"""

    def __init__(self):
        snapshot_impl()
        import warnings
        warnings.simplefilter("ignore")
        import luqum.tree
        import luqum.parser
        import luqum.visitor
        import luqum.utils
        import luqum.naming
        import luqum.check
        import luqum.pretty
        import luqum.auto_head_tail
        import luqum.thread
        import luqum.exceptions
        import luqum.head_tail
        import luqum.elasticsearch
        import luqum.elasticsearch.visitor
        import luqum.elasticsearch.tree
        import luqum.elasticsearch.schema
        import luqum.elasticsearch.nested
        self.luqum = luqum
        self.tree = luqum.tree
        self.parser = luqum.parser
        self.visitor = luqum.visitor
        self.utils = luqum.utils
        self.naming = luqum.naming
        self.check = luqum.check
        self.pretty = luqum.pretty
        self.aht = luqum.auto_head_tail
        self.thread = luqum.thread
        self.exceptions = luqum.exceptions
        self.head_tail = luqum.head_tail
        self.es = luqum.elasticsearch
        self.es_visitor = luqum.elasticsearch.visitor
        self.es_tree = luqum.elasticsearch.tree
        self.schema = luqum.elasticsearch.schema
        self.nested = luqum.elasticsearch.nested
        self._foreign_visitors_first()

    def _foreign_visitors_first(self):
        """Before anything is checked, visitors that use the documented knobs (`visitor_method_prefix`,
        `generic_visitor_method_name`) walk a tree with every item class, as another part of an application may
        have done in the same process. The library's own visitors must not be affected by what those looked up
        (seeded C10-G: a module-level cache of method names keyed by the item class only)."""
        T, V = self.tree, self.visitor
        try:
            w = T.Word("a")
            sample = T.UnknownOperation(
                T.AndOperation(T.SearchField("f", T.FieldGroup(T.OrOperation(T.Word("a"), T.Phrase('"b"')))),
                               T.Not(T.Group(T.BoolOperation(T.Plus(w), T.Prohibit(T.Regex("/r/")))))),
                T.Boost(T.Fuzzy(T.Word("c"), "2"), "3"), T.Proximity(T.Phrase('"p q"'), "2"),
                T.Range(T.Word("1"), T.Word("2")), T.From(T.Word("1")), T.To(T.Word("2")), T.NoneItem())

            class OnVisitor(V.TreeVisitor):
                visitor_method_prefix = "on_"
                generic_visitor_method_name = "fallback"

                def fallback(self, node, context):
                    yield from V.TreeVisitor.generic_visit(self, node, context)

            class OnTransformer(V.TreeTransformer):
                visitor_method_prefix = "handle_"

            class OnPath(V.PathTrackingVisitor):
                visitor_method_prefix = "see_"
            OnVisitor(track_parents=True).visit(sample)
            OnTransformer(track_new_parents=True).visit(sample)
            OnPath().visit(sample)
            # ... and an application's own, differently opinionated, subclass of the checker (seeded C20-H: the
            # dispatch memoised per item class on the CLASS, shared with every subclass)
            import luqum.check as C

            class LenientCheck(C.LuceneCheck):
                def check_word(self, item, parents):
                    return iter(())

                def check_phrase(self, item, parents):
                    yield "phrases are not welcome here"

                def check_search_field(self, item, parents):
                    return iter(())
            LenientCheck(zeal=1).errors(sample)
            LenientCheck().errors(T.SearchField("bad name", T.Word("a b")))
        except Exception:
            pass        # whatever this does, the checks that follow judge the library

    def parse(self, q):
        return self.parser.parser.parse(q, lexer=self.parser.lexer)


_impl = None


def impl():
    global _impl
    if _impl is None:
        _impl = Impl()
    return _impl


# ---------------------------------------------------------------------------------------------
# tree <-> JSON
# ---------------------------------------------------------------------------------------------

def num_json(value, implicit):
    """finite Decimal / int -> {"neg","coeff","exp","imp"}"""
    if isinstance(value, bool):
        raise TypeError("bool is not a number here")
    if isinstance(value, int):
        return {"neg": value < 0, "coeff": str(abs(value)), "exp": 0, "imp": bool(implicit)}
    if isinstance(value, Decimal):
        sign, digits, exp = value.as_tuple()
        if not isinstance(exp, int):
            raise TypeError("non finite decimal")
        coeff = int("".join(map(str, digits))) if digits else 0
        return {"neg": bool(sign), "coeff": str(coeff), "exp": exp, "imp": bool(implicit)}
    raise TypeError("unsupported number %r" % (value,))


def dump_tree(t):
    """luqum item -> JSON-able dict (class, own attributes, layout, name, children)"""
    T = impl().tree
    # (a node of a user-defined subclass counts as its luqum class: trees.user_subclasses)
    cls = next((c.__name__ for c in type(t).__mro__ if c.__module__ == "luqum.tree"), type(t).__name__)
    d = {"c": cls, "h": t.head, "t": t.tail, "p": t.pos, "s": t.size,
         "n": getattr(t, "_luqum_name", None)}
    if isinstance(t, T.Term):
        d["v"] = t.value
    elif isinstance(t, T.SearchField):
        d["name"] = t.name
    elif isinstance(t, T.Range):
        d["il"] = t.include_low
        d["ih"] = t.include_high
    elif isinstance(t, T.BaseApprox):
        # implicit degree = nothing is printed after the "~" (observable behaviour, not a private attribute)
        d["num"] = num_json(t.degree, t.__str__().endswith("~"))
    elif isinstance(t, T.Boost):
        d["num"] = num_json(t.force, t.__str__().endswith("^"))
    elif isinstance(t, T.OpenRange):
        d["inc"] = t.include
    d["ch"] = [dump_tree(c) for c in t.children]
    return d


def _num_value(nj, as_int=False):
    n = int(nj["coeff"])
    if as_int:
        assert nj["exp"] == 0
        return -n if nj["neg"] else n
    return Decimal((1 if nj["neg"] else 0, tuple(int(c) for c in str(n)), nj["exp"]))


_PARSED = {}
_parsed_toggle = [0]
_unnamed = [0]


def register_parsed(d, q):
    """`d` is the dump of the tree the parser gave for the text `q`"""
    _PARSED[id(d)] = (d, q)


def load_tree(d):
    """JSON dict -> luqum item (built through the public constructors). For the dump of a PARSED query, every other
    call hands out the parser's own object instead (a fresh parse of the same text, checked to dump identically): the
    properties speak of parsed queries, and an object the parser built need not be in the state the public
    constructors leave one in (seeded C11-G: the parser passes numerals as text, a copy passes numbers)."""
    reg = _PARSED.get(id(d))
    if reg is not None and reg[0] is d:
        _parsed_toggle[0] ^= 1
        if _parsed_toggle[0]:
            I = impl()
            try:
                t = I.parser.parser.parse(reg[1], lexer=I.parser.lexer)
            except Exception:
                t = None
            if t is not None and dump_tree(t) == d:
                return t
    return _load_tree(d)


def _load_tree(d):
    T = impl().tree
    c = d["c"]
    kw = {"pos": d.get("p"), "size": d.get("s"), "head": d.get("h") or "", "tail": d.get("t") or ""}
    ch = [_load_tree(x) for x in d.get("ch", [])]
    if c in ("Word", "Phrase", "Regex"):
        node = getattr(T, c)(d["v"], **kw)
    elif c == "SearchField":
        node = T.SearchField(d["name"], ch[0], **kw)
    elif c in ("Group", "FieldGroup"):
        node = getattr(T, c)(ch[0], **kw)
    elif c == "Range":
        node = T.Range(ch[0], ch[1], d["il"], d["ih"], **kw)
    elif c == "Fuzzy":
        nj = d["num"]
        node = T.Fuzzy(ch[0], None if nj.get("imp") else _num_value(nj), **kw)
    elif c == "Proximity":
        nj = d["num"]
        node = T.Proximity(ch[0], None if nj.get("imp") else _num_value(nj, as_int=True), **kw)
    elif c == "Boost":
        nj = d["num"]
        node = T.Boost(ch[0], None if nj.get("imp") else _num_value(nj), **kw)
    elif c in ("AndOperation", "OrOperation", "UnknownOperation", "BoolOperation"):
        node = getattr(T, c)(*ch, **kw)
    elif c in ("Plus", "Not", "Prohibit"):
        node = getattr(T, c)(ch[0], **kw)
    elif c in ("From", "To"):
        node = getattr(T, c)(ch[0], d["inc"], **kw)
    elif c == "NoneItem":
        node = T.NoneItem(**kw)
    else:
        raise ValueError("unknown class %s" % c)
    if d.get("n") is not None:
        setattr(node, "_luqum_name", d["n"])
    else:
        # every fifth un-named node was un-named explicitly (`set_name(node, None)`, the only way the naming API offers):
        # an un-named node is one whose name is None, whether the attribute is there or not (seeded C06-H)
        _unnamed[0] += 1
        if _unnamed[0] % 5 == 0 and c != "NoneItem":
            setattr(node, "_luqum_name", None)
    if c in ("Fuzzy", "Proximity", "Boost") and d["num"].get("imp"):
        # a number that is not printed but was assigned in place (`node.degree = 2` on `foo~`): no constructor call
        # gives that state, the attribute is assigned as the caller did
        attr = "force" if c == "Boost" else "degree"
        val = _num_value(d["num"], as_int=True) if c == "Proximity" else _num_value(d["num"])
        if getattr(node, attr) != val:
            setattr(node, attr, val)
    return node


def normalize(d):
    """round trip through the implementation's constructors (fills the real value of implicit
    numbers, normalises what the constructors normalise)"""
    return dump_tree(load_tree(d))


def fidelity_problems(orig, norm, path=()):
    """differences between a tree description and what the public constructors made of it (explicit
    attributes only: an implicit number is filled in by the constructor)"""
    out = []
    for k in ("c", "v", "name", "il", "ih", "inc", "h", "t", "p", "s", "n"):
        if orig.get(k) != norm.get(k) and not (k in ("h", "t") and not orig.get(k) and not norm.get(k)):
            out.append((list(path), k, orig.get(k), norm.get(k)))
    if "num" in orig:
        if bool(orig["num"].get("imp")) != bool(norm["num"].get("imp")):
            out.append((list(path), "implicit flag", orig["num"].get("imp"), norm["num"].get("imp")))
        elif not orig["num"].get("imp") and canon_num(orig["num"]) != canon_num(norm["num"]):
            out.append((list(path), "number", orig["num"], norm["num"]))
    if len(orig.get("ch", [])) != len(norm.get("ch", [])):
        out.append((list(path), "children", len(orig.get("ch", [])), len(norm.get("ch", []))))
    else:
        for i, (a, b) in enumerate(zip(orig.get("ch", []), norm.get("ch", []))):
            out.extend(fidelity_problems(a, b, path + (i,)))
    return out


def canon_num(nj):
    """numeric canonical form of a number json (value only)"""
    n = int(nj["coeff"])
    e = nj["exp"]
    if n == 0:
        return (False, 0, 0)
    while n % 10 == 0:
        n //= 10
        e += 1
    return (bool(nj["neg"]), n, e)


def strip_tree(d, layout=True, names=True, implicit=False):
    """copy of a tree json without layout / names (structural fingerprint helper)"""
    r = {k: v for k, v in d.items() if k not in ("h", "t", "p", "s", "n", "ch", "num")}
    if not layout:
        r.update({k: d.get(k) for k in ("h", "t", "p", "s")})
    if not names:
        r["n"] = d.get("n")
    if "num" in d:
        r["num"] = canon_num(d["num"]) + ((d["num"].get("imp"),) if implicit else ())
    r["ch"] = [strip_tree(c, layout, names, implicit) for c in d.get("ch", [])]
    return r


def tree_nodes(d, path=()):
    yield path, d
    for i, c in enumerate(d.get("ch", [])):
        yield from tree_nodes(c, path + (i,))


# ---------------------------------------------------------------------------------------------
# model driver
# ---------------------------------------------------------------------------------------------

class DriverError(Exception):
    pass


def ask_model(requests, timeout=600):
    """send the requests (list of dicts) to the compiled model, return the list of answers"""
    if not requests:
        return []
    if not os.path.exists(DRIVER):
        raise DriverError("model driver not built: %s" % DRIVER)
    data = "\n".join(json.dumps(r, ensure_ascii=False) for r in requests) + "\n"
    p = subprocess.run([DRIVER], input=data.encode("utf-8"), stdout=subprocess.PIPE,
                       stderr=subprocess.PIPE, timeout=timeout)
    lines = p.stdout.decode("utf-8").split("\n")
    if lines and lines[-1] == "":
        lines.pop()
    if p.returncode != 0 or len(lines) != len(requests):
        raise DriverError("driver returned %d, %d answers for %d requests: %s" % (
            p.returncode, len(lines), len(requests), p.stderr.decode("utf-8", "replace")[-2000:]))
    return [json.loads(line) for line in lines]


# ---------------------------------------------------------------------------------------------
# lean build and audits
# ---------------------------------------------------------------------------------------------

class BuildLock:
    def __enter__(self):
        os.makedirs(OUT_DIR, exist_ok=True)
        self.f = open(os.path.join(OUT_DIR, ".build.lock"), "w")
        fcntl.flock(self.f, fcntl.LOCK_EX)
        return self

    def __exit__(self, *a):
        fcntl.flock(self.f, fcntl.LOCK_UN)
        self.f.close()


def lake_build(targets, timeout=3000):
    """returns (ok, output)"""
    p = subprocess.run(["lake", "build"] + list(targets), cwd=LEAN_DIR, stdout=subprocess.PIPE,
                       stderr=subprocess.STDOUT, timeout=timeout)
    return p.returncode == 0, p.stdout.decode("utf-8", "replace")


_BAD_WORDS = re.compile(
    r"\bsorry\b|\badmit\b|^\s*axiom\s|native_decide|bv_decide|implemented_by|\bunsafe\s|maxHeartbeats\s+0")


def _strip_comments(src):
    # remove block comments (nested) and line comments
    out = []
    depth = 0
    i = 0
    while i < len(src):
        if src.startswith("/-", i):
            depth += 1
            i += 2
        elif src.startswith("-/", i) and depth:
            depth -= 1
            i += 2
        elif depth:
            if src[i] == "\n":
                out.append("\n")
            i += 1
        elif src.startswith("--", i):
            j = src.find("\n", i)
            i = len(src) if j < 0 else j
        else:
            out.append(src[i])
            i += 1
    return "".join(out)


def grep_audit():
    """forbidden constructs outside comments in the library sources (driver excluded: it is not
    part of any theorem, but it is audited too except for `partial`)"""
    hits = []
    for root, _, files in os.walk(os.path.join(LEAN_DIR, "Luqum")):
        for f in files:
            if f.endswith(".lean"):
                p = os.path.join(root, f)
                src = _strip_comments(open(p, encoding="utf-8").read())
                for n, line in enumerate(src.split("\n"), 1):
                    if _BAD_WORDS.search(line):
                        hits.append("%s:%d: %s" % (os.path.relpath(p, VERIF), n, line.strip()))
    return hits


def theorem_names(module_file):
    """fully qualified names of the theorems of a Props file (single top-level namespace)"""
    src = _strip_comments(open(module_file, encoding="utf-8").read())
    ns = []
    names = []
    for line in src.split("\n"):
        m = re.match(r"\s*namespace\s+(\S+)", line)
        if m:
            ns.append(m.group(1))
            continue
        m = re.match(r"\s*end\s+(\S+)\s*$", line)
        if m and ns and ns[-1].split(".")[-1] == m.group(1).split(".")[-1]:
            ns.pop()
            continue
        if re.match(r"\s*(?:@\[[^\]]*\]\s*)?private\s+theorem\s", line):
            continue
        m = re.match(r"\s*(?:@\[[^\]]*\]\s*)?(?:protected\s+)?theorem\s+([^\s:({\[]+)", line)
        if m:
            names.append(".".join(ns + [m.group(1)]))
    return names


def axiom_audit(module, names, timeout=1200):
    """`#print axioms` for each theorem; returns (ok, {name: [axioms]}, raw output)"""
    if not names:
        return True, {}, ""
    src = "import %s\n" % module + "".join("#print axioms %s\n" % n for n in names)
    path = os.path.join(scratch_dir(), "Audit_%s.lean" % module.replace(".", "_"))
    with open(path, "w") as f:
        f.write(src)
    p = subprocess.run(["lake", "env", "lean", path], cwd=LEAN_DIR, stdout=subprocess.PIPE,
                       stderr=subprocess.STDOUT, timeout=timeout)
    out = p.stdout.decode("utf-8", "replace")
    result = {}
    flat = re.sub(r"\n\s+", " ", out)     # a long axiom list may be wrapped
    for line in flat.split("\n"):
        k = line.find("' depends on axioms: [")
        if line.startswith("'") and k > 0:
            name = line[1:k]
            lst = line[k + len("' depends on axioms: ["):].rstrip().rstrip("]")
            result[name] = [a.strip() for a in lst.split(",") if a.strip()]
            continue
        k = line.find("' does not depend on any axioms")
        if line.startswith("'") and k > 0:
            result[line[1:k]] = []
    ok = p.returncode == 0 and all(n in result for n in names) and all(
        set(v) <= STD_AXIOMS for v in result.values())
    return ok, result, out


# ---------------------------------------------------------------------------------------------
# known findings
# ---------------------------------------------------------------------------------------------

def known_findings(prop):
    data = json.load(open(os.path.join(VERIF, "known_findings.json"), encoding="utf-8"))
    return [e for e in data["findings"] if prop in e["properties"] and e["status"] == "known"]


# ---------------------------------------------------------------------------------------------
# misc
# ---------------------------------------------------------------------------------------------

def exc_info(e):
    return {"exc": type(e).__name__, "msg": str(e)}


class Timer:
    def __init__(self):
        self.t0 = time.time()

    def elapsed(self):
        return time.time() - self.t0
