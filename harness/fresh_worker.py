"""Reference results without history: this process imports the snapshot of luqum and never parses
anything itself; for every request line it forks a child that parses exactly one string.
usage: python fresh_worker.py <impl_dir>   (requests: JSON strings on stdin, answers on stdout)"""
import json
import os
import sys

impl_dir = sys.argv[1]
sys.path.insert(0, impl_dir)
sys.path.insert(0, os.path.dirname(os.path.dirname(os.path.abspath(__file__))))
import warnings  # noqa
warnings.simplefilter("ignore")
from harness import common  # noqa
common._impl_path = impl_dir
import luqum  # noqa
assert os.path.abspath(luqum.__file__).startswith(impl_dir)
I = common.impl()
from harness import parsing  # noqa

for line in sys.stdin:
    req = json.loads(line)
    r, w = os.pipe()
    pid = os.fork()
    if pid == 0:
        os.close(r)
        try:
            res, _ = parsing.impl_parse(req["q"], req.get("entry", "module"))
        except BaseException as e:  # noqa
            res = {"err": ["<worker>", repr(e)]}
        with os.fdopen(w, "w", encoding="utf-8") as f:
            f.write(json.dumps(res, ensure_ascii=False))
        os._exit(0)
    os.close(w)
    with os.fdopen(r, encoding="utf-8") as f:
        data = f.read()
    os.waitpid(pid, 0)
    sys.stdout.write(data + "\n")
    sys.stdout.flush()
