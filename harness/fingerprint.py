"""Source fingerprints of the functions the hand-written model was written against.

The model of the *logic* (lexer recognisers, head/tail manager, grammar actions, visitors, builder ...) is tied to
the code by the correspondence check, whose strength is bounded by how many cases it runs.  To spend that budget
where it matters, every check compares a normalised-AST hash of each function / class body in the files its
property is anchored in (properties.jsonl: anchors.files) with the hashes pinned in /verif/pinned_sources.json
(written by `python -m tools.pin_sources` when the model was last validated against the tree).  A difference is
NOT a verdict: a harmless rewrite changes the hash too.  It only *escalates* the search (more generated cases,
exhaustive small scopes) for the properties anchored in the changed code, and is recorded in the evidence.
"""
import ast
import hashlib
import json
import os

from . import common

PINNED = os.path.join(common.VERIF, "pinned_sources.json")


class _Strip(ast.NodeTransformer):
    def _body(self, node):
        self.generic_visit(node)
        b = node.body
        if b and isinstance(b[0], ast.Expr) and isinstance(getattr(b[0], "value", None), ast.Constant) \
                and isinstance(b[0].value.value, str) and not node.name.startswith("p_"):
            # docstrings are not behaviour (except PLY grammar rules: p_* docstrings ARE the grammar)
            node.body = b[1:] or [ast.Pass()]
        return node

    visit_FunctionDef = _body
    visit_AsyncFunctionDef = _body
    visit_ClassDef = _body


def _h(node):
    return hashlib.sha256(ast.dump(node, annotate_fields=False, include_attributes=False).encode()).hexdigest()[:16]


def file_hashes(path):
    """qualified name -> hash, for every function, method and class-level statement block of a python file"""
    try:
        src = open(path, encoding="utf-8").read()
        tree = _Strip().visit(ast.parse(src))
    except (OSError, SyntaxError) as e:
        return {"<unreadable>": str(e)[:60]}
    out = {}
    rest = []

    def walk(body, prefix):
        other = []
        for n in body:
            if isinstance(n, (ast.FunctionDef, ast.AsyncFunctionDef)):
                out[prefix + n.name] = _h(n)
            elif isinstance(n, ast.ClassDef):
                inner = walk(n.body, prefix + n.name + ".")
                out[prefix + n.name + ".<class-level>"] = hashlib.sha256(
                    ("|".join(inner) + "|" + ",".join(ast.dump(b) for b in n.bases)).encode()).hexdigest()[:16]
            else:
                other.append(ast.dump(n, annotate_fields=False, include_attributes=False))
        return other
    rest = walk(tree.body, "")
    out["<module-level>"] = hashlib.sha256("|".join(rest).encode()).hexdigest()[:16]
    return out


def anchor_files(prop):
    files = []
    with open(os.path.join(common.VERIF, "properties.jsonl"), encoding="utf-8") as f:
        for line in f:
            p = json.loads(line)
            if p["id"] == prop:
                files = [x for x in p.get("anchors", {}).get("files", []) if x.endswith(".py")]
    return files


def current(files):
    return {f: file_hashes(os.path.join(common.REPO, f)) for f in files}


def changed_since_pinned(prop):
    """list of 'file::qualname' whose body differs from the pinned tree (added / removed / edited)"""
    try:
        pinned = json.load(open(PINNED, encoding="utf-8"))["files"]
    except (OSError, ValueError, KeyError):
        return ["<no pinned_sources.json>"]
    out = []
    for f, cur in current(anchor_files(prop)).items():
        if f.endswith("parsetab.py"):
            continue        # generated file: covered by the tables_fresh obligation
        old = pinned.get(f)
        if old is None:
            out.append(f + "::<not pinned>")
            continue
        for k in sorted(set(cur) | set(old)):
            if cur.get(k) != old.get(k):
                out.append("%s::%s" % (f, k))
    return out
