"""Shared by C01-C04 (and users of parsed trees): run the implementation's parser and the model's
parser on the same strings and compare; helpers for the direct oracles."""
import re
from decimal import Decimal

from . import common

NUM_RE = re.compile(r"([~^][0-9.]+)")
PLAIN_NUM = re.compile(r"^[0-9]+(\.[0-9]+)?$")


REFUSED = ["[10 90]", "price:[10 90]", "f:[a b]", "{1 2}", "[a TO", "f:[1 TO 2", "f:{1", "[", "(a b", "(a OR", "((a)",
           "a AND", "a OR", "NOT", "f:", "f:(a", "f:(a AND", '"abc', "/re", "+", "-", "a:b:", "a AND AND b", "a )",
           "[1 TO 2 3]", "a^ ^", "< ", ">=", "f:[* TO", "[a TO b", "x [1 2] y", "(a [b c)", "   ", "\t", " \n'", "  \\",
           " )", "\r\n^2"]
_hist_rng = __import__("random").Random(int(__import__("os").environ.get("VERIF_SEED", "0") or 0) + 7717)
HISTORY = {"refused inputs parsed just before another parse": 0}
HISTORY_RATE = [0.04]      # raised by the harness when an obligation broke / the source changed (escalated search)


def impl_parse(q, entry=None, history=True):
    """-> {"ok": tree json} | {"err": [class, message]} (any exception class is reported).
    history: now and then an input that is refused (before its first element, or in the middle of a construct) goes
    through the same entry point just before -- whatever a parse that gave up leaves behind (a mode of the lexer,
    pending blanks, a flag) must not reach the next parse, wherever in a check that next parse happens (seeded C13-G,
    C17-F: the parse of a PRINTED form right after a refused input)"""
    I = common.impl()
    if entry is None:
        # the two entry points are interchangeable (C04): a check that does not care gets either
        entry = "thread" if _hist_rng.random() < 0.3 else "module"
    if history and _hist_rng.random() < HISTORY_RATE[0] * 0.75:
        # ... or the SAME text was parsed a moment ago and the caller edited the tree it got in place: every parse hands
        # out a tree of its own (seeded C03-H, C13-H: results memoised by text, in either entry point)
        HISTORY["the same text parsed just before, that result edited in place"] = \
            HISTORY.get("the same text parsed just before, that result edited in place", 0) + 1
        try:
            t0 = I.thread.parse(q) if entry == "thread" else I.parser.parser.parse(q, lexer=I.parser.lexer)
            if t0 is not None and isinstance(t0, I.tree.Item):
                scribble(t0)
        except Exception:  # noqa
            pass
    if history and _hist_rng.random() < HISTORY_RATE[0]:
        HISTORY["refused inputs parsed just before another parse"] += 1
        try:
            if entry == "thread":
                I.thread.parse(_hist_rng.choice(REFUSED))
            else:
                I.parser.parser.parse(_hist_rng.choice(REFUSED), lexer=I.parser.lexer)
        except Exception:  # noqa
            pass
    try:
        if entry == "thread":
            t = I.thread.parse(q)
        else:
            t = I.parser.parser.parse(q, lexer=I.parser.lexer)
    except Exception as e:  # noqa
        return {"err": [type(e).__name__, str(e)]}, None
    if t is None or not isinstance(t, I.tree.Item):
        return {"err": ["<no tree>", repr(t)]}, None
    try:
        return {"ok": common.dump_tree(t)}, t
    except TypeError as e:
        # (a tree the parser must never hand out, e.g. a NaN degree: reported as an outcome of its own, not a crash)
        return {"err": ["<tree that cannot be described>", str(e)]}, None


def compare_parses(ctx, queries, stream="parse"):
    """runs both parsers; returns list of (q, impl_result, impl_tree_object)"""
    out = []
    for q in queries:
        r, t = impl_parse(q)
        out.append((q, r, t))
    if ctx.model_ok:
        ans = common.ask_model([{"op": "parse", "q": q} for q in queries])
        for (q, r, _), a in zip(out, ans):
            if a != r:
                ctx.disagree(stream, q, a, r)
        ctx.traces_validated += len(queries)
    return out


def respell_ok(orig, printed):
    """printed == orig up to re-spelling numerals after ~ or ^ as numerically equal plain decimals.
    returns None if fine, else a description"""
    if orig == printed:
        return None
    a = NUM_RE.split(orig)
    b = NUM_RE.split(printed)
    if len(a) != len(b):
        return "different text (not only numerals): %r vs %r" % (orig, printed)
    for i, (x, y) in enumerate(zip(a, b)):
        if x == y:
            continue
        if i % 2 == 0:
            return "text differs outside numerals: %r vs %r" % (x, y)
        if x[0] != y[0]:
            return "marker differs"
        nx, ny = x[1:], y[1:]
        if not PLAIN_NUM.match(ny):
            return "numeral re-spelled as %r which is not a plain decimal literal" % ny
        try:
            dx, dy = Decimal(nx), Decimal(ny)
        except Exception:
            return "numeral %r not convertible" % nx
        if dx != dy:
            return "numeral %r re-spelled as %r: not numerically equal" % (nx, ny)
    return None


def lex_tokens(q):
    """tokens of the real lexer (fresh clone): list of (type, lexeme, pos) -- or None on error"""
    I = common.impl()
    lx = I.parser.lexer.clone()
    lx.input(q)
    toks = []
    try:
        while True:
            t = lx.token()
            if t is None:
                break
            toks.append((t.type, q[t.lexpos:t.lexpos + (t.value.size if hasattr(t.value, "size") and t.value.size is not None else 0)], t.lexpos))
    except Exception:
        return None
    return toks


def blank_before_colon_spans(q):
    """[(start, end)] of blank runs between a TERM token and the COLUMN token that follows it (KF1)"""
    toks = lex_tokens(q)
    if toks is None:
        return []
    spans = []
    for (ty, text, pos), (ty2, text2, pos2) in zip(toks, toks[1:]):
        if ty == "TERM" and ty2 == "COLUMN" and pos + len(text) < pos2:
            spans.append((pos + len(text), pos2))
    return spans


def remove_spans(q, spans):
    out = []
    last = 0
    for a, b in spans:
        out.append(q[last:a])
        last = b
    out.append(q[last:])
    return "".join(out)


def long_numerals(q):
    """numerals after ~ / ^ with more than 28 significant digits (KF2)"""
    res = []
    for m in NUM_RE.finditer(q):
        digits = m.group(1)[1:].replace(".", "").lstrip("0")
        if len(digits) > 28:
            res.append(m.group(1))
    return res


# ---------------------------------------------------------------------------------------------
# reference tokenizer: an independent reading of the documented lexical rules (same rules as the
# Lean model lean/Luqum/Model/Lexer.lean), used by the failing-input search of C03
# ---------------------------------------------------------------------------------------------

_TERM_FIRST_EXCL = set(":^~(){}[]/\"'+-\\<>")
_TERM_NEXT_EXCL = set(":^\\~(){}[]")
RESERVED = {"AND": "AND_OP", "OR": "OR_OP", "NOT": "NOT", "TO": "TO"}


def _is_space(c):
    return bool(re.match(r"\s", c))


def _is_digit(c):
    return bool(re.match(r"\d", c))


def spec_lex(q):
    """[(type, lexeme, pos)] or None when some character cannot start a token"""
    toks = []
    i, n = 0, len(q)
    while i < n:
        c = q[i]
        if _is_space(c):
            i += 1
            continue
        single = {"+": "PLUS", "-": "MINUS", ":": "COLUMN", "(": "LPAREN", ")": "RPAREN", "[": "LBRACKET",
                  "{": "LBRACKET", "]": "RBRACKET", "}": "RBRACKET"}
        if c in single:
            toks.append((single[c], c, i))
            i += 1
        elif c in "<>":
            j = i + 2 if q[i + 1:i + 2] == "=" else i + 1
            toks.append(("LESSTHAN" if c == "<" else "GREATERTHAN", q[i:j], i))
            i = j
        elif c in "\"/":
            j = i + 1
            while True:
                if j >= n:
                    return None
                if q[j] == c:
                    break
                if q[j] == "\\":
                    if j + 1 >= n or q[j + 1] == "\n":
                        return None
                    j += 2
                else:
                    j += 1
            toks.append(("PHRASE" if c == "\"" else "REGEX", q[i:j + 1], i))
            i = j + 1
        elif c in "~^":
            j = i + 1
            while j < n and q[j] in "0123456789.":
                j += 1
            toks.append(("APPROX" if c == "~" else "BOOST", q[i:j], i))
            i = j
        else:
            if c == "\\":
                if i + 1 >= n or q[i + 1] == "\n":
                    return None
                j = i + 2
            elif c in _TERM_FIRST_EXCL:
                return None
            else:
                j = i + 1
            while j < n:
                d = q[j]
                if d == "\\":
                    if j + 1 < n and q[j + 1] != "\n":
                        j += 2
                        continue
                    break
                if d == ":":
                    # a time: "T" + two digits before, two digits after, optionally ":" + two digits
                    if j >= 3 and q[j - 3] == "T" and _is_digit(q[j - 2]) and _is_digit(q[j - 1]) and \
                            j + 2 < n + 0 and _is_digit(q[j + 1]) and _is_digit(q[j + 2]):
                        j += 3
                        if j + 2 < n + 0 and q[j] == ":" and _is_digit(q[j + 1]) and _is_digit(q[j + 2]):
                            j += 3
                        continue
                    break
                if _is_space(d) or d in _TERM_NEXT_EXCL:
                    break
                j += 1
            text = q[i:j]
            toks.append((RESERVED.get(text, "TERM"), text, i))
            i = j
    return toks


def scribble(t):
    """what a caller may do with the tree it was given (quick start, "manipulating"): edit it in place"""
    stack = [t]
    while stack:
        n = stack.pop()
        stack.extend(n.children)
        n.head = (n.head or "") + "#"
        n.tail = "#"
        n.pos = -7
        if type(n).__name__ == "Word":
            n.value = "scribbled"
        elif type(n).__name__.endswith("Operation"):
            n.children = list(reversed(n.children))


def parsed_again_after_edit(ctx, rng, q, t, oracle, share=0.06):
    """history: the caller edits the tree it was given in place, then the same text is parsed again (by either entry
    point). The parser hands out a new tree on every call: the second tree must satisfy `oracle` like the first
    (seeded C02-G: parse results memoised by text)"""
    if rng.random() >= share:
        return
    scribble(t)
    ctx.count("history: the returned tree edited in place, the same text parsed again")
    for entry in ("module", "thread"):
        r2, t2 = impl_parse(q, entry)
        if t2 is None:
            ctx.fail("a query accepted once is rejected when parsed again", {"q": q, "entry": entry, "err": r2})
        else:
            oracle(ctx, q, t2)
