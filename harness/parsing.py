"""Shared by C01-C04 (and users of parsed trees): run the implementation's parser and the model's
parser on the same strings and compare; helpers for the direct oracles."""
import re
from decimal import Decimal

from . import common

NUM_RE = re.compile(r"([~^][0-9.]+)")
PLAIN_NUM = re.compile(r"^[0-9]+(\.[0-9]+)?$")


def impl_parse(q, entry="module"):
    """-> {"ok": tree json} | {"err": [class, message]} (any exception class is reported)"""
    I = common.impl()
    try:
        if entry == "thread":
            t = I.thread.parse(q)
        else:
            t = I.parser.parser.parse(q, lexer=I.parser.lexer)
    except Exception as e:  # noqa
        return {"err": [type(e).__name__, str(e)]}, None
    if t is None or not isinstance(t, I.tree.Item):
        return {"err": ["<no tree>", repr(t)]}, None
    return {"ok": common.dump_tree(t)}, t


def compare_parses(ctx, queries, stream="parse"):
    """runs both parsers; returns list of (q, impl_result, impl_tree_object)"""
    out = []
    for q in queries:
        r, t = impl_parse(q)
        out.append((q, r, t))
    if ctx.model_ok:
        ans = common.ask_model([{"op": "parse", "q": q} for q in queries])
        for (q, r, _), a in zip(out, ans):
            if a != r:
                ctx.disagree(stream, q, a, r)
        ctx.traces_validated += len(queries)
    return out


def respell_ok(orig, printed):
    """printed == orig up to re-spelling numerals after ~ or ^ as numerically equal plain decimals.
    returns None if fine, else a description"""
    if orig == printed:
        return None
    a = NUM_RE.split(orig)
    b = NUM_RE.split(printed)
    if len(a) != len(b):
        return "different text (not only numerals): %r vs %r" % (orig, printed)
    for i, (x, y) in enumerate(zip(a, b)):
        if x == y:
            continue
        if i % 2 == 0:
            return "text differs outside numerals: %r vs %r" % (x, y)
        if x[0] != y[0]:
            return "marker differs"
        nx, ny = x[1:], y[1:]
        if not PLAIN_NUM.match(ny):
            return "numeral re-spelled as %r which is not a plain decimal literal" % ny
        try:
            dx, dy = Decimal(nx), Decimal(ny)
        except Exception:
            return "numeral %r not convertible" % nx
        if dx != dy:
            return "numeral %r re-spelled as %r: not numerically equal" % (nx, ny)
    return None


def lex_tokens(q):
    """tokens of the real lexer (fresh clone): list of (type, lexeme, pos) -- or None on error"""
    I = common.impl()
    lx = I.parser.lexer.clone()
    lx.input(q)
    toks = []
    try:
        while True:
            t = lx.token()
            if t is None:
                break
            toks.append((t.type, q[t.lexpos:t.lexpos + (t.value.size if hasattr(t.value, "size") and t.value.size is not None else 0)], t.lexpos))
    except Exception:
        return None
    return toks


def blank_before_colon_spans(q):
    """[(start, end)] of blank runs between a TERM token and the COLUMN token that follows it (KF1)"""
    toks = lex_tokens(q)
    if toks is None:
        return []
    spans = []
    for (ty, text, pos), (ty2, text2, pos2) in zip(toks, toks[1:]):
        if ty == "TERM" and ty2 == "COLUMN" and pos + len(text) < pos2:
            spans.append((pos + len(text), pos2))
    return spans


def remove_spans(q, spans):
    out = []
    last = 0
    for a, b in spans:
        out.append(q[last:a])
        last = b
    out.append(q[last:])
    return "".join(out)


def long_numerals(q):
    """numerals after ~ / ^ with more than 28 significant digits (KF2)"""
    res = []
    for m in NUM_RE.finditer(q):
        digits = m.group(1)[1:].replace(".", "").lstrip("0")
        if len(digits) > 28:
            res.append(m.group(1))
    return res
