"""Shared by C05, C06, C07, C19: schema / configuration / query generators for the Elasticsearch
builder, running the builder, canonical JSON, and the reference semantics (python oracles)."""
import json
import warnings
from decimal import Decimal

from . import common, gen

warnings.simplefilter("ignore")

NAMES = ["a", "b", "c", "d", "n", "o", "t"]
WORDS = ["x", "y", "z", "w*", "*", "fo?", "a\\*b", "12", "\\{x\\}", "%s", "{0}"]


# ---------------------------------------------------------------------------------------------
# schema (the truth about the index) and its spellings as builder options
# ---------------------------------------------------------------------------------------------

def gen_schema(rng, depth=0, max_depth=3, in_nested=False):
    """{name: {"kind": text|keyword|nested|object, "children": schema, "sub": {name: kind}}}"""
    out = {}
    names = rng.sample(NAMES, rng.choice([1, 2, 3] if depth else [2, 3, 4]))
    if rng.random() < 0.35:
        # a sibling whose name textually extends another one (`author` / `authors`): prefix tests must respect the dots
        names.append(rng.choice(names) + rng.choice(["s", "b", "_x", "1"]))
    for name in names:
        k = rng.random()
        if depth < max_depth and k < 0.3:
            out[name] = {"kind": "nested", "children": gen_schema(rng, depth + 1, max_depth, True), "sub": {}}
        elif depth < max_depth and k < 0.45 and not in_nested:
            out[name] = {"kind": "object", "children": gen_schema(rng, depth + 1, max_depth, False), "sub": {}}
        else:
            kind = rng.choice(["text", "text", "keyword"])
            sub = {}
            if rng.random() < 0.15:
                sub = {"raw": "keyword"}
            out[name] = {"kind": kind, "children": {}, "sub": sub}
    return out


def walk_schema(schema, prefix=()):
    """yields (path tuple, node)"""
    for name, node in schema.items():
        p = prefix + (name,)
        yield p, node
        yield from walk_schema(node["children"], p)


def leaves(schema):
    return [(p, n) for p, n in walk_schema(schema) if n["kind"] in ("text", "keyword")]


def nested_containers(schema):
    return [".".join(p) for p, n in walk_schema(schema) if n["kind"] == "nested"]


def innermost_nested(schema, path):
    """dotted path of the innermost nested ancestor (proper prefix) of the field at `path`"""
    best = None
    node = schema
    for i, name in enumerate(path[:-1]):
        cur = node[name]
        if cur["kind"] == "nested":
            best = ".".join(path[:i + 1])
        node = cur["children"]
    return best


def nested_spec(schema, rng=None, prefix_keys=()):
    """nested_fields in dict form: keys = nested containers (dotted when they sit inside objects), members =
    plain names of their leaves (None) or nested sub-containers (dict). Object containers inside a nested
    container cannot be expressed in this format: their leaves are left out of the spec."""
    def members(children):
        out = {}
        for name, node in children.items():
            if node["kind"] == "nested":
                out[name] = members(node["children"])
            elif node["kind"] in ("text", "keyword"):
                out[name] = None
        return out

    def top(children, rel=()):
        out = {}
        for name, node in children.items():
            key = ".".join(rel + (name,))
            if node["kind"] == "nested":
                out[key] = members(node["children"])
            elif node["kind"] == "object":
                out.update(top(node["children"], rel + (name,)))
        return out
    return top(schema)


def respell_spec(rng, spec):
    """an equivalent spelling: {k: None…} of leaves only may become a list"""
    if not isinstance(spec, dict):
        return spec
    if spec and all(v is None for v in spec.values()) and rng.random() < 0.5:
        return list(spec.keys())
    return {k: (respell_spec(rng, v) if v is not None else (None if rng.random() < 0.7 else {}))
            for k, v in spec.items()}


def object_fields(schema):
    """full names of leaves that sit directly in an object container"""
    out = []
    for p, n in walk_schema(schema):
        if n["kind"] in ("text", "keyword") and len(p) > 1:
            parent = schema
            for name in p[:-1]:
                cur = parent[name]
                parent = cur["children"]
            if cur["kind"] == "object":
                out.append(".".join(p))
    return out


def sub_fields(schema):
    return [".".join(p + (s,)) for p, n in walk_schema(schema) for s in n["sub"]]


def not_analyzed(schema):
    out = [".".join(p) for p, n in walk_schema(schema) if n["kind"] == "keyword"]
    out += [".".join(p + (s,)) for p, n in walk_schema(schema) for s, k in n["sub"].items() if k == "keyword"]
    return out


def gen_cfg(rng, schema, multi_match=True):
    """builder keyword arguments (python values)"""
    cfg = {"default_operator": rng.choice(["should", "must"])}
    lv = [".".join(p) for p, _ in leaves(schema)]
    if rng.random() < 0.3 and lv:
        cfg["default_field"] = rng.choice(lv)
    na = not_analyzed(schema)
    if rng.random() < 0.8:
        cfg["not_analyzed_fields"] = na + (["text"] if rng.random() < 0.15 else [])
    ns = nested_spec(schema)
    if ns or rng.random() < 0.5:
        cfg["nested_fields"] = respell_spec(rng, ns)
    if rng.random() < 0.5:
        cfg["object_fields"] = object_fields(schema)
    if rng.random() < 0.4:
        cfg["sub_fields"] = sub_fields(schema)
    if rng.random() < 0.4 and lv:
        fo = {}
        for f in rng.sample(lv + ["text"], min(len(lv) + 1, rng.choice([1, 2]))):
            fo[f] = rng.choice([{"boost": 2}, {"type": "phrase"}, {"match_type": "match_phrase"},
                                {"analyze_wildcard": False}] + ([{"match_type": "multi_match", "fields": "x"}] if multi_match else []) + [
                                {"slop": 1, "type": "phrase_prefix"}, {"fuzziness": 1}])
        cfg["field_options"] = fo
    if rng.random() < 0.15:
        cfg["match_word_as_phrase"] = True
    return cfg


def spec_json(spec):
    if spec is None:
        return None
    if isinstance(spec, dict):
        return {"k": "dict", "v": [[k, spec_json(v)] for k, v in spec.items()]}
    return {"k": "list", "v": list(spec)}


def cfg_json(cfg):
    """the same configuration for the model driver"""
    return {
        "default_must": cfg.get("default_operator", "should") != "should",
        "default_field": cfg.get("default_field", "text"),
        "not_analyzed": list(cfg.get("not_analyzed_fields") or []),
        "nested": spec_json(cfg.get("nested_fields")),
        "object": spec_json(cfg.get("object_fields")),
        "sub": spec_json(cfg.get("sub_fields")),
        "field_options": cfg.get("field_options") or {},
        "match_word_as_phrase": bool(cfg.get("match_word_as_phrase")),
    }


# ---------------------------------------------------------------------------------------------
# queries over a schema
# ---------------------------------------------------------------------------------------------

class EsTreeGen:
    """trees of supported constructs addressing the fields of a schema in both spellings"""

    def __init__(self, rng, schema, bool_ops=False, mixes=True, names=False, misuse=0.1):
        self.r = rng
        self.schema = schema
        self.paths = [p for p, _ in walk_schema(schema)]
        self.leafs = [p for p, _ in leaves(schema)] or [("text",)]
        self.bool_ops = bool_ops
        self.mixes = mixes
        self.names = names
        self.misuse = misuse
        self._n = 0

    def nm(self, d):
        if self.names and self.r.random() < 0.35:
            self._n += 1
            d["n"] = "q%d" % self._n
        return d

    def leaf(self):
        r = self.r
        k = r.random()
        if k < 0.5:
            return self.nm(gen.W(r.choice(WORDS)))
        if k < 0.65:
            return self.nm(gen.P(r.choice(['"x y"', '"p"', '"{x}"', '"a {} %(b)s"', '"a  b\tc"', '""', '"say \\"hi\\""', '"5\\""', '"\\"q"'])))
        if k < 0.8:
            lo = gen.W(r.choice(["1", "*", "a"]))
            hi = gen.W(r.choice(["9", "*", "m"])) if r.random() < 0.85 else gen.P('"m n"')
            return self.nm(gen.mk("Range", [lo, hi], il=r.random() < 0.5, ih=r.random() < 0.5))
        if k < 0.9:
            return self.nm(gen.mk("Fuzzy", [gen.W(r.choice(["x", "y", "w*"]))],
                                  num=r.choice([gen.num(5, -1, imp=True), gen.num(1), gen.num(2), gen.num(25, -1), gen.num(0),
                                                gen.num(0, -1)])))
        return self.nm(gen.mk("Proximity", [gen.P(r.choice(['"x y"', '"p q r"']))],
                              num=r.choice([gen.num(1, imp=True), gen.num(2), gen.num(5), gen.num(0)])))

    def field(self, d, base):
        """a SearchField chain addressing something below `base` (tuple), dotted or nested spelling"""
        r = self.r
        cands = [p for p in self.paths if p[:len(base)] == base and len(p) > len(base)]
        if r.random() < self.misuse or not cands:
            target = base + (r.choice(NAMES + ["zz"]),) if r.random() < 0.5 or not cands else r.choice(cands)
        else:
            leafs = [p for p in self.leafs if p[:len(base)] == base and len(p) > len(base)]
            target = r.choice(leafs) if leafs and r.random() < 0.85 else r.choice(cands)
        rel = target[len(base):]
        # split rel into 1..len(rel) chunks
        cut = sorted(r.sample(range(1, len(rel)), r.randrange(0, len(rel)))) if len(rel) > 1 else []
        chunks = [rel[i:j] for i, j in zip([0] + cut, cut + [len(rel)])]
        inner = self.value(d - 1, target)
        for ch in reversed(chunks[1:]):
            inner = self.nm(gen.mk("SearchField", [self.nm(gen.mk("FieldGroup", [inner])) if r.random() < 0.8 else inner],
                                   name=".".join(ch)))
        if len(chunks) > 1 or inner["c"].endswith("Operation") or r.random() < 0.3:
            if inner["c"] != "FieldGroup" and inner["c"] != "SearchField" or inner["c"].endswith("Operation"):
                inner = self.nm(gen.mk("FieldGroup", [inner]))
        return self.nm(gen.mk("SearchField", [inner], name=".".join(chunks[0])))

    def value(self, d, base):
        """what stands after `field:`"""
        r = self.r
        if d <= 0 or r.random() < 0.4:
            return self.leaf()
        if r.random() < 0.25:
            # an operation all of whose operands address fields below `base` (sub-containers included)
            cls = r.choice(["AndOperation", "OrOperation", "UnknownOperation"])
            ch = [self.field(d - 1, base) if r.random() < 0.85 else self.nm(gen.mk(r.choice(["Not", "Prohibit"]),
                                                                                  [self.field(d - 1, base)]))
                  for _ in range(r.choice([2, 2, 3]))]
            return self.nm(gen.mk(cls, ch))
        return self.tree(d, base)

    def tree(self, d, base=()):
        r = self.r
        k = r.random()
        if d <= 0 or k < 0.2:
            return self.leaf()
        if k < 0.55:
            ops = ["AndOperation", "OrOperation", "UnknownOperation"] + (["BoolOperation"] if self.bool_ops else [])
            cls = r.choice(ops)
            n = r.choice([2, 2, 3, 4])
            wide = r.random() < 0.006
            if wide:
                # beyond any "reasonable" limit a change may introduce (a clause count, a chunk size): seeded C05-G
                n = r.choice([130, 1030, 1030])
                if self.bool_ops and r.random() < 0.5:
                    cls = "BoolOperation"
            ch = []
            wrap = r.choice([None, "Prohibit", "Prohibit", "Plus", "Not"]) if wide else None
            for _ in range(n):
                if wide and r.random() < 0.97:
                    c = self.leaf() if wrap is None or r.random() < 0.2 else self.nm(gen.mk(wrap, [self.leaf()]))
                else:
                    c = self.tree(min(d - 1, 1) if wide else d - 1, base)
                if not self.mixes and c["c"].endswith("Operation") and c["c"] != cls:
                    c = self.nm(gen.mk("Group", [c]))
                elif c["c"].endswith("Operation") and c["c"] != cls and r.random() < 0.6:
                    c = self.nm(gen.mk("Group", [c]))
                ch.append(c)
            if not wide and r.random() < 0.08:
                # the same term again among the operands, identical or differing only by a modifier (`smith`,
                # `smith~1`, `smith^2`): neither occurrence may be dropped or merged (seeded C05-G)
                import copy as _copy
                src = r.choice(ch)
                dup = _copy.deepcopy(src)
                dup["n"] = None
                k2 = r.random()
                if src["c"] == "Word" and k2 < 0.4:
                    dup = gen.mk("Fuzzy", [dup], num=r.choice([gen.num(1), gen.num(2)]))
                elif src["c"] == "Phrase" and k2 < 0.4:
                    dup = gen.mk("Proximity", [dup], num=r.choice([gen.num(1), gen.num(3)]))
                elif k2 < 0.7 and not src["c"].endswith("Operation"):
                    dup = gen.mk("Boost", [dup], num=gen.num(2))
                ch.insert(r.randrange(len(ch) + 1), dup)
            return self.nm(gen.mk(cls, ch))
        if k < 0.63:
            return self.nm(gen.mk(r.choice(["Not", "Prohibit"]), [self.tree(d - 1, base)]))
        if k < 0.67:
            return self.nm(gen.mk("Plus", [self.tree(d - 1, base)]))
        if k < 0.74:
            return self.nm(gen.mk("Group", [self.tree(d - 1, base)]))
        if k < 0.79:
            return self.nm(gen.mk("Boost", [self.tree(d - 1, base)], num=self.r.choice([gen.num(2), gen.num(15, -1), gen.num(0), gen.num(1, imp=True),
                                                                                    gen.num(0, -2), gen.num(1)])))
        return self.field(d, base)


# ---------------------------------------------------------------------------------------------
# running the builder
# ---------------------------------------------------------------------------------------------

def canon_json(j):
    """floats / ints -> 'num:neg:coeff:exp' (canonical decimal), recursively"""
    if isinstance(j, bool) or j is None or isinstance(j, str):
        return j
    if isinstance(j, (int, float)):
        d = Decimal(repr(j)) if isinstance(j, float) else Decimal(j)
        sign, digits, exp = d.as_tuple()
        n = int("".join(map(str, digits)))
        if n == 0:
            return "num:0:0:0"
        while n % 10 == 0:
            n //= 10
            exp += 1
        return "num:%d:%d:%d" % (sign, n, exp)
    if isinstance(j, (list, tuple)):
        return [canon_json(x) for x in j]
    if isinstance(j, dict):
        return {k: canon_json(v) for k, v in j.items()}
    return {"<not json>": repr(j)}


DOCUMENTED = ("OrAndAndOnSameLevel", "NestedSearchFieldException", "ObjectSearchFieldException")


_spelling = [0]


def _spell_names(names):
    """the same collection of names under another python spelling (the normalisers accept "an iterable"): list, tuple,
    set, keys view, and the one-shot ones -- an iterator, a generator (what `SchemaAnalyzer.sub_fields()` and
    `.object_fields()` return). A specification read twice sees a one-shot iterable empty the second time
    (seeded C05-G, C07-G)."""
    _spelling[0] += 1
    k = _spelling[0] % 7
    names = list(names)
    if k == 1:
        return tuple(names)
    if k == 2:
        return set(names)
    if k == 3:
        return dict.fromkeys(names).keys()
    if k == 4:
        return iter(names)
    if k == 5:
        return (n for n in names)
    if k == 6:
        return map(str, names)
    return names


def python_spelling(cfg):
    """the keyword arguments of the builder for `cfg`, the collections of names spelled in various equivalent ways.
    `not_analyzed_fields` is documented as a list and stays one."""
    def nested(spec):
        if isinstance(spec, dict):
            return {k: nested(v) for k, v in spec.items()}
        if isinstance(spec, list):
            return _spell_names(spec)
        return spec
    out = dict(cfg)
    for key in ("object_fields", "sub_fields"):
        if isinstance(out.get(key), list):
            out[key] = _spell_names(out[key])
    if isinstance(out.get("nested_fields"), dict):
        out["nested_fields"] = nested(out["nested_fields"])
    return out


def build(cfg, tree_obj, builder=None):
    """-> ({"ok": canonical json} | {"err": [class, message]}, raw json or None)"""
    I = common.impl()
    try:
        b = builder or I.es.ElasticsearchQueryBuilder(**python_spelling(cfg))
        j = b(tree_obj)
    except Exception as e:  # noqa
        name = type(e).__name__
        return {"err": [name, str(e) if name in DOCUMENTED else None]}, None
    return {"ok": canon_json(j)}, j


# ---------------------------------------------------------------------------------------------
# reference semantics (C05)
# ---------------------------------------------------------------------------------------------

def gen_doc(rng, containers, path=None):
    """object = {"path", "kids", "truth"}; containers = dotted paths of the declared nested containers"""
    o = {"path": path, "kids": [], "truth": {}}

    def parent_of(p):
        best = None
        for c in containers:
            if p.startswith(c + ".") and (best is None or len(c) > len(best)):
                best = c
        return best
    for cp in containers:
        if parent_of(cp) == path:
            for _ in range(rng.randrange(0, 3)):
                o["kids"].append(gen_doc(rng, containers, cp))
    return o


def desc(o, path):
    out = []
    for k in o["kids"]:
        if k["path"] == path:
            out.append(k)
        elif path.startswith(k["path"] + "."):
            out.extend(desc(k, path))
    return out


class Truth:
    """a truth value per (object, clause), drawn lazily; `p` = probability of true (documents that match nearly
    nothing / nearly everything matter for long operand lists: with p = 1/2 a list of a thousand clauses has
    one value only)"""

    def __init__(self, rng, p=0.5, polar=None):
        self.rng = rng
        self.p = p
        self.polar = polar      # True: clauses in positive position true, negated ones false; False: the inverse

    def __call__(self, o, key, neg=None):
        t = o["truth"]
        if key not in t:
            if self.polar is not None and neg is not None and self.rng.random() < 0.97:
                t[key] = (not neg) if self.polar else bool(neg)
            else:
                t[key] = self.rng.random() < self.p
        return t[key]


def eval_es(j, o, truth):
    if "bool" in j:
        b = j["bool"]
        must, should, mn = b.get("must", []), b.get("should", []), b.get("must_not", [])
        if not all(eval_es(x, o, truth) for x in must):
            return False
        if any(eval_es(x, o, truth) for x in mn):
            return False
        if not must and should:
            return any(eval_es(x, o, truth) for x in should)
        return True
    if "nested" in j:
        path = j["nested"]["path"]
        if o["path"] is not None and (o["path"] == path or o["path"].startswith(path + ".")):
            objs = [o]      # already inside
        else:
            objs = desc(o, path)
        return any(eval_es(j["nested"]["query"], k, truth) for k in objs)
    return truth(o, leaf_key_es(j))


def leaf_key_es(j):
    kind = list(j.keys())[0]
    body = j[kind]
    if kind == "exists":
        return (body["field"], "*")
    if kind in ("query_string", "multi_match"):
        m = body.get("fuzziness", body.get("slop"))
        return (body.get("default_field"), body.get("query")) + ((_mod_key(m),) if m is not None else ())
    f = [k for k in body.keys()][0]
    v = body[f]
    if kind == "range":
        return (f, json.dumps({k: v[k] for k in v if k in ("gte", "gt", "lte", "lt")}, sort_keys=True))
    m = v.get("fuzziness", v.get("slop"))
    return (f, v.get("query", v.get("value"))) + ((_mod_key(m),) if m is not None else ())


def phrase_text(v):
    import re
    return re.sub(r"\s+", " ", v)[1:-1]


WRAPPERS = ("Group", "FieldGroup", "Boost", "SearchField")


def _mod_key(x):
    """a fuzziness / slop as a comparable value"""
    if x is None:
        return None
    try:
        return float(x)
    except (TypeError, ValueError):
        return str(x)


def denote(d, o, cfg, containers, truth, prefix=(), quirks=(), mod=None, neg=False):
    """truth of the luqum tree (json) at object o. `quirks` switches on the behaviour of known findings
    (KF3: operands of a boolean operation are classified through group / field / boost wrappers;
    KF4: a boolean operation directly inside another one is spliced into it)"""
    c = d["c"]
    ch = d["ch"]
    dflt_or = cfg.get("default_operator", "should") == "should"
    field = ".".join(prefix) if prefix else cfg.get("default_field", "text")

    def rec(x, oo=o, pp=prefix, mod=None, flip=False):
        return denote(x, oo, cfg, containers, truth, pp, quirks, mod, neg != flip)
    # (a term and the same term with a fuzziness / slop are different clauses: `smith` and `smith~1` do not match the
    # same documents; the modifier is part of the key the truth assignment is drawn for -- seeded C05-G)
    # (per-field options may also bring a fuzziness / slop: the clause carries the query's own modifier, else the option's)
    # (whether `~n` ends up as `fuzziness` or `slop` is the builder's business -- C06 --; here only its value counts.
    # C05 strips fuzziness / slop from the per-field options, so a modifier in the clause is the query's own)
    suffix = (_mod_key(mod[1]),) if mod else ()
    if c == "Word":
        # (`field:*` is an exists clause: a fuzziness has nothing to apply to)
        return truth(o, (field, d["v"]) + (suffix if d["v"] != "*" else ()), neg)
    if c == "Phrase":
        na = cfg.get("not_analyzed_fields") or []
        return truth(o, (field, phrase_text(d["v"]) if field not in na else d["v"][1:-1]) + suffix, neg)
    if c == "Range":
        kw = {("gte" if d["il"] else "gt"): ch[0].get("v"), ("lte" if d["ih"] else "lt"): ch[1].get("v")}
        kw = {k: v for k, v in kw.items() if v and v != "*"}
        return truth(o, (field, json.dumps(kw, sort_keys=True)), neg)
    if c in ("Fuzzy", "Proximity"):
        n = d["num"]
        val = (-1 if n.get("neg") else 1) * int(n["coeff"]) * (10.0 ** n["exp"])
        return rec(ch[0], mod=("fuzziness" if c == "Fuzzy" else "slop", val))
    if c in ("Boost", "Group", "FieldGroup", "Plus"):
        return rec(ch[0], mod=mod)
    if c in ("Not", "Prohibit"):
        return not rec(ch[0], flip=True)
    if c == "AndOperation":
        return all(rec(x) for x in ch)
    if c == "OrOperation":
        return any(rec(x) for x in ch)
    if c == "UnknownOperation":
        return (any if dflt_or else all)(rec(x) for x in ch)
    if c == "BoolOperation":
        ops = list(ch)
        if "KF4" in quirks:
            flat = []

            def splice(xs):
                for x in xs:
                    if x["c"] == "BoolOperation":
                        splice(x["ch"])
                    else:
                        flat.append(x)
            splice(ops)
            ops = flat
        must, mnot, should = [], [], []
        for x in ops:
            kind = x["c"]
            if kind == "Plus":
                must.append((x["ch"][0], o, prefix))
            elif kind in ("Not", "Prohibit"):
                mnot.append((x["ch"][0], o, prefix))
            elif "KF3" in quirks:
                # look through wrappers that return the inner E-node itself
                core, pp, blocked = x, prefix, False
                while core["c"] in WRAPPERS and not blocked:
                    if core["c"] == "SearchField":
                        names = tuple(core["name"].split("."))
                        full = pp + names
                        if any(".".join(pp + names[:len(names) - i]) in containers for i in range(len(names))):
                            blocked = True
                            break
                        pp = full
                    core = core["ch"][0]
                if blocked:
                    should.append((x, o, prefix))
                elif core["c"] in ("Plus", "AndOperation") or (core["c"] == "UnknownOperation" and not dflt_or):
                    must.append((core, o, pp))
                elif core["c"] in ("Not", "Prohibit"):
                    mnot.append((core["ch"][0], o, pp))
                else:
                    should.append((x, o, prefix))
            else:
                should.append((x, o, prefix))
        if not all(rec(x, oo, pp) for x, oo, pp in must):
            return False
        if any(rec(x, oo, pp, flip=True) for x, oo, pp in mnot):
            return False
        if not must and should:
            return any(rec(x, oo, pp) for x, oo, pp in should)
        return True
    if c == "SearchField":
        names = tuple(d["name"].split("."))
        full = prefix + names
        np = None
        for i in range(len(names)):
            cand = ".".join(prefix + names[:len(names) - i])
            if cand in containers:
                np = cand
                break
        if np is None or (o["path"] is not None and (o["path"] == np or o["path"].startswith(np + "."))):
            return rec(ch[0], o, full)
        return any(rec(ch[0], k, full) for k in desc(o, np))
    raise ValueError("unsupported construct %s" % c)


def bool_operand_kinds(d, cfg, containers):
    """classification of the BoolOperation operands of a tree for the hypotheses of C05:
    'flat-and' (un-grouped AND / must-like implicit operand: Lucene's flat reading, outside the claim),
    'wrapped' (KF3), 'nested-bool' (KF4)"""
    dflt_or = cfg.get("default_operator", "should") == "should"
    found = set()
    for _, n in common.tree_nodes(d):
        if n["c"] != "BoolOperation":
            continue
        for x in n["ch"]:
            if x["c"] == "BoolOperation":
                found.add("nested-bool")
            if x["c"] == "AndOperation" or (x["c"] == "UnknownOperation" and not dflt_or):
                found.add("flat-and")
            core, depth = x, 0
            while core["c"] in WRAPPERS:
                core = core["ch"][0]
                depth += 1
            if depth and (core["c"] in ("Plus", "AndOperation", "Not", "Prohibit") or
                          (core["c"] == "UnknownOperation" and not dflt_or)):
                found.add("wrapped")
    return found


def norm_object_spec(spec):
    """independent reading of an object_fields / sub_fields specification: None = not declared; otherwise
    the set of dotted names it denotes (lists as given, dicts by their leaf paths)"""
    if spec is None:
        return None
    if isinstance(spec, dict):
        out = set()

        def walk(d, pfx):
            if not d:
                out.add(".".join(pfx))
                return
            if isinstance(d, dict):
                for k, v in d.items():
                    walk(v, pfx + [k])
            else:
                for k in d:
                    out.add(".".join(pfx + [k]))
        walk(spec, [])
        return out
    return set(spec)


def norm_nested_leaves(spec):
    """independent reading of a nested_fields specification: set of the dotted names of all its members"""
    out = set()

    def walk(d, pfx):
        if not d:
            if pfx:
                out.add(".".join(pfx))
            return
        if isinstance(d, dict):
            for k, v in d.items():
                walk(v, pfx + [k])
        else:
            for k in d:
                out.add(".".join(pfx + [k]))
    walk(spec or {}, [])
    return out


def refused_in_nested(schema):
    """a query the builder refuses (OR and AND on the same level) *during* the visit of a nested field group:
    container:(leaf:a OR leaf:b AND leaf:c) -- used to leave a long-lived builder in the middle of something"""
    for p, node in walk_schema(schema):
        if node["kind"] != "nested":
            continue
        leafs = [n for n, c in node["children"].items() if c["kind"] in ("text", "keyword")]
        if not leafs:
            continue
        lf = leafs[0]
        f = lambda v: gen.mk("SearchField", [gen.W(v)], name=lf)
        body = gen.mk("OrOperation", [f("a"), gen.mk("AndOperation", [f("b"), f("c")])])
        t = gen.mk("SearchField", [gen.mk("FieldGroup", [body])], name=p[-1])
        for name in reversed(p[:-1]):
            t = gen.mk("SearchField", [gen.mk("FieldGroup", [t])], name=name)
        return common.normalize(t)
    return None


def norm_nested_spec(spec):
    """independent re-implementation of the documented reading of a nested_fields specification (None / dict of
    specs / iterable of names) as nested dicts -- the oracles must not borrow the library's own normaliser"""
    if spec is None:
        return {}
    if isinstance(spec, dict):
        return {k: norm_nested_spec(v) for k, v in spec.items()}
    return {k: {} for k in spec}


def leaf_parent_prefixes(spec):
    """the dotted parents of the members of a nested_fields specification (what KF5 says the builder uses)"""
    return sorted({k.rsplit(".", 1)[0] for k in norm_nested_leaves(spec)})


def declared_containers(spec, prefix=""):
    """dotted paths of all nested containers declared by a nested_fields spec (any spelling)"""
    out = []
    if isinstance(spec, dict):
        for k, v in spec.items():
            full = prefix + k
            if v:      # has members: a container
                out.append(full)
                out.extend(declared_containers(v, full + "."))
    return out


def containers_without_direct_leaf(spec, prefix=""):
    """KF5: declared nested containers none of whose direct members is a leaf"""
    out = []
    if isinstance(spec, dict):
        for k, v in spec.items():
            full = prefix + k
            if v:
                members = v if isinstance(v, dict) else {m: None for m in v}
                if not any(not mv for mv in members.values()):
                    out.append(full)
                out.extend(containers_without_direct_leaf(v, full + "."))
    return out
