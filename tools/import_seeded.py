"""copy a confirmed seeded change into /verif/seeded/<id>/ with its meta.json
usage: python -m tools.import_seeded <id> <patch> <demo> <property> "<needs>" "<what>" "<caught_by>" """
import json
import os
import shutil
import sys

VERIF = os.path.dirname(os.path.dirname(os.path.abspath(__file__)))
sid, patch, demo, prop, needs, what, caught = sys.argv[1:8]
d = os.path.join(VERIF, "seeded", sid)
os.makedirs(d, exist_ok=True)
shutil.copy(patch, os.path.join(d, "patch.diff"))
shutil.copy(demo, os.path.join(d, "demo.py"))
meta = {
    "id": sid, "breaks_property": prop, "what_it_breaks": what, "needs_to_manifest": needs,
    "origin": "written by a fresh sub-agent that saw only the property text and its own scratch worktree",
    "confirmed": "tools/seedtest.py: in a scratch worktree the pinned suite passes with the patch (363 passed), "
                 "demo.py exits 0 without and 1 with it; then `git -C /repo apply`, the listed checks, "
                 "`git -C /repo checkout -- .`",
    "caught_by": caught,
}
json.dump(meta, open(os.path.join(d, "meta.json"), "w"), indent=1, ensure_ascii=False)
print("imported", sid)
