"""Writes /verif/MANIFEST.json from the table below and validates it against the schema.
    /venv/bin/python -m tools.manifest
"""
import json
import os
import subprocess

VERIF = os.path.dirname(os.path.dirname(os.path.abspath(__file__)))

NOTE_COMMON = ("Trusted: Lean 4.33 kernel; axioms of every property theorem within {propext, Classical.choice, "
               "Quot.sound} (audited each run; no sorry / native_decide / own axioms); tools/translate.py and its code "
               "translator tools/pysym.py (symbolic execution of python source into Lean, DESIGN 11.7); "
               "the correspondence harness (hand-written model == implementation only on generated cases); "
               "python/re/decimal/PLY runtime semantics as modelled. ")

# id -> (technique, level text, level note, design ref)
T_CODE_ACT = ' + code translated from the source on every run by symbolic execution (tools/pysym.py): the semantic actions p_* with HeadTailManager / create_operation / constructors (Props/GenActions: model act = generated function for all 25 productions), HeadTailLexer.handle as effects (Props/GenHandle), __str__ of every class and Item.span (Props/GenPrint)'
T_CORR = " + correspondence (model vs implementation, differential) + python oracle for the failing-input search"
CLAIMED = {
    "C01": ("Lean 4 proof: table-independent LR-run invariant (flat text), lexer slicing lemma, kernel-checked table facts"
            + T_CODE_ACT + T_CORR,
            "Theorem parse_lossless_partial: for every string s, if the model's parse accepts s and no blank stands directly "
            "before a ':' (known finding KF1), printing the tree with heads/tails in source numeral spelling gives back s "
            "character for character; the run lemma holds for ARBITRARY LALR tables (any shift, any reduce), three decide "
            "+kernel facts tie it to the generated tables; print_norm_eq_raw_respelled relates what the implementation prints "
            "to the source spelling. Negative witness for KF1 and a non-vacuity example are kernel-checked. C01b characterises "
            "KF1 exactly and UNCONDITIONALLY: parse_lossless_exact (for every accepted s, the tree prints `unblank s` = s "
            "with the separators between a field name and its ':' removed, nothing else), parse_lossless_iff (prints s "
            "iff there is no such separator), unblank_sublist / unblank_nonblank (only blanks are lost), bad_colon_fails, "
            "reparse_unblank_partial (the printed text re-parses to an eqv tree unless the time clash KF8 arises).",
            NOTE_COMMON + "The token recognisers and PLY's driver loop are hand-modelled (master regex tree and tables are "
            "translated data); grammar actions, head/tail bookkeeping and printing are hand-modelled AND proved equal to "
            "the functions translated from the python source (GenActions, GenHandle, GenPrint). Numeral re-spelling: "
            "Props/C01Num (plain literal, same value, fixed point).", "5 C01"),
    "C02": ("Lean 4 proof: run invariant Laid (every stack value is positioned where its text sits) over the LR run, per-action "
            "size/pos arithmetic, table fact from the kernel-checked certificate (right operand never of the class being built)"
            + T_CODE_ACT + T_CORR,
            "Theorems: parse_laid_partial (for every accepted string without a blank before ':' (KF1), every node's pos is the "
            "offset of its text and size the length of its text printed without head and tail, recursively for all "
            "descendants), node_slices_partial (slice(pos,size) = node printed without head/tail; widened slice = printed "
            "with them, numerals in source spelling), children_spans_partial (children's widened spans lie inside the "
            "parent's span, in order, disjoint), root_span_partial (widened root span = whole input), lex_positions "
            "(token positions, unconditional), run_laid (generic: arbitrary tables with a valid certificate). Negative "
            "witness for KF1 ('foo :bar') and non-vacuity witnesses are kernel-checked. Without the hypothesis (C01b): "
            "parse_laid_exact / root_span_exact / children_spans_exact / node_span_exact hold UNCONDITIONALLY (pos and size "
            "keep designating slices of the input: the lost separator is still counted), parse_source_exact and "
            "node_slices_exact: re-inserting the lost separators (regap) gives a tree that prints s and is Laid, every "
            "node's slice is its text with those gaps, a leaf is exactly its slice, field_gap_exact. Correspondence and "
            "per-node oracle as before.",
            NOTE_COMMON + "HeadTailManager arithmetic (Model/Parser.lean mgrPos/binaryOp) and Item.span (Lemmas/LaidPath.lean) are "
            "hand-modelled and proved equal to the functions translated from the python source (GenActions, GenPrint: "
            "gen_span_*).", "5 C02"),
    "C03": ("Lean 4 proof: kernel-checked abstract-interpretation certificate of the generated LALR tables (every parse result is "
            "canonical w.r.t. precedence), lock-step simulation (layout independence), yield theorem; translator obligations "
            "(tables fresh, regex trees, reserved map) by decide + three-way differential (implementation / LR model / "
            "independent precedence-climbing spec) + semantic actions translated from the source by symbolic execution "
            "(tools/pysym.py; Props/GenActions: group -> field group, inclusiveness from the bracket text, flattening in "
            "create_operation)",
            "Theorems: parse_canon (for every string, the tree returned satisfies CanonAt: an AND node has no un-parenthesised "
            "OR/implicit operand, OR none implicit, prefixes/fields/boosts apply to non-operations, n-ary nodes are flat with "
            ">= 2 operands, parentheses give a FieldGroup exactly under a field, range bounds/fuzzy/proximity operands are "
            "terms): cert_ok is `certOK tables cert = true` by decide +kernel on the tables and the certificate regenerated "
            "from the live parser on every run, run_canon is proved once for arbitrary tables; layout_independent / "
            "layout_independent_error / layout_independent_iff (equal token kinds and texts give eqv trees or the same syntax "
            "error); parse_yield (the token sequence is the yield of the tree) and same_yield_equal_trees; lexOne_word_kind / "
            "reserved_words (a TERM lexeme is an operator only if it is exactly AND/OR/NOT/TO). tables_fresh: the cached "
            "parsetab.py equals the tables generated from the grammar source. Completeness (every canonical token sequence is "
            "accepted) IS proved: parse_complete / parse_complete_str (every Parseable tree = canonical + lexable texts + "
            "convertible numerals is returned, up to ==, for every token sequence spelling it: a second kernel-checked "
            "certificate compl_ok of the tables, regenerated on every run, sound for arbitrary tables by run_complete), "
            "parse_parseable (every parse result is Parseable), parse_image (the class is exactly the image of the parser). "
            "C03d: a READABLE declarative grammar `Denotes level tokens tree` (one inductive rule per clause of the prose, "
            "levels implicit > or > and > prefix/field > suffix > atom, n-ary flat operations, FieldGroup exactly after "
            "field:, bracket kind and < <= > >= give inclusiveness, reserved words only as whole tokens) with denotes_iff "
            "(Denotes .implicit toks t <-> Parseable t and yield t = toks), parse_denotes, denotes_parse, denotes_unique "
            "(the grammar is unambiguous up to ==), and the precedence examples of the property as derivations.",
            NOTE_COMMON + "Semantic actions and lexer recognisers are hand-modelled; tables, precedence, regex trees and the "
            "certificate are translated from the live objects (the certificate generator is untrusted: only its kernel check counts).", "5 C03"),
    "C04": ('Lean 4 proof (totality: parse never yields a model-internal error; fuel sufficiency; history independence on a stateful lexer model) + HeadTailLexer.handle and the number conversions of p_fuzzy / p_boosting / p_proximity translated from the source by symbolic execution (tools/pysym.py; Props/GenHandle, Props/GenActions) + correspondence over call histories with forked history-free references (repeated strings, results edited in place by the caller)',
            'Theorems: parse_total / parse_outcomes (for every string a tree or one of the two ParseError classes, nothing else: parse_never_internal rests on an LR stack-consistency invariant whose table facts are decide +kernel certificates, and runLoop_fuel_ok); lex_history_independent (for EVERY previous lexer state, stale tracker and mid-input position included, tokenising s gives lex s, because the first lexeme starts at offset 0), parseCall_eq_parse, nth_call_eq_parse, entry_points_agree. Correspondence: histories of 2-8 calls through both entry points against forked children that never parsed anything.',
            NOTE_COMMON + "PLY's own lexer/parser loop is modelled (Model/Stateful.lean, Parser.lean); RecursionError/MemoryError outside the claim.", "5 C04"),
    "C05": ('Lean 4 proof (reject-or-equivalent: build_meaning on nested documents, boolean part without document hypothesis) + correspondence (JSON and messages equal) + reference semantics on random documents',
            'Theorems: evalJ_json (the JSON means what the E-tree means), build_meaning (SupportedSem, cfgPlain, DocWF: for every truth assignment and document the returned query matches exactly what the tree denotes: AND all, OR any, implicit default, NOT/- complement, nested = some nested object), build_meaning_flat (pure boolean part, no document hypothesis: negation never dropped, grouping respected), reject_or_equivalent (with C07). KF3/KF4/KF5 excluded by hypothesis and refuted on witnesses by decide. Correspondence + python reference evaluators as before.',
            NOTE_COMMON + 'Leaf atoms are opaque (truth insensitive to _name / zero_terms_query); documents well-formed (DocWF).', "5 C05"),
    "C06": ('Lean 4 proof (leaf clauses in document order = expectedLeaves; count, field, name) + visit_word / visit_phrase translated from the source by symbolic execution (tools/pysym.py; Props/GenEs: the items the model builds for words and phrases are made from the arguments the translated methods hand to the factory) + correspondence + expected-clause oracle + builder call histories',
            'Theorems: leaves_eq_expected (no boolean operation: the leaf clauses of the result, in document order, are the clauses expected from the tree), leaves_perm_expected (with boolean operations: as a permutation), leaves_length (= number of terms and ranges), expected_fields, expected_names, every_term_one_clause. Purity of the builder is definitional in the model; on the implementation: same builder twice / fresh builder / class attribute snapshots.',
            NOTE_COMMON + "expectedLeaves is defined through the same EItem construction as the model's builder; the python oracle recomputes field/text/kind/zero_terms/_name/modifiers independently.", "5 C06"),
    "C07": ('Lean 4 proof (refuses_exactly: misuse / mix characterisation in all four directions) + CheckNestedFields decision and _is_must / _is_should / _yield_nested_children (all pairs of classes, both default operators) translated from the source by symbolic execution (tools/pysym.py; Props/GenNesting, Props/GenEs) + correspondence + independent refusal predicate',
            'Theorems: nestingCheck_ok_iff / nestingCheck_error_iff (the checker raises exactly on the first misused container term), orAnd_only_on_mix, mix_refused, misuse_refused, translated (Supported: every query that is not refused is translated, no other exception), refuses_exactly; spec-normalisation lemmas for equivalent spellings. Negative witnesses (IndexError on one-operand mixes, regex after field, non-term range bound, KF5) by decide.',
            NOTE_COMMON + 'KF5 recognised by recomputing the python predicate with parents-of-leaves as containers.', "5 C07"),
    "C08": ("Lean 4 proof (visitEvents = preorder map dispatch, cache consistency, preorder context, copy lemmas) + clone_item "
            "translated from the source by symbolic execution (tools/pysym.py; Props/GenClone: the model's cloneItem is the "
            "generated function, and the object returned is always new)" + T_CORR,
            "Theorems: for every handler table, consistent cache, tree: the events of a visit are exactly the pre-order "
            "enumeration with dispatch along the generated MRO, true ancestors and index path; the cache stays consistent "
            "(visit_twice); preorder has nodeCount entries with pairwise distinct, lexicographically increasing paths; the "
            "default transformer gives an eqv, identically printing tree with the same layout at every path.",
            NOTE_COMMON + "Object identity / non-mutation are checked on the implementation only (ids, deep snapshots).", "5 C08"),
    "C09": (
        "Lean 4 proof (eqv <-> content equality, clone lemmas) + translator (class table by decide; clone_item and __str__ "
        "of every class translated from the source by symbolic execution, tools/pysym.py: Props/GenClone, Props/GenPrint) + "
        "correspondence (incl. compare - edit in place - compare again)",
        "Theorems for all pairs of trees: eqv a b <-> content a = content b (hence equivalence relation), "
        "layout/positions/names never matter; clone_item keeps class, layout, own attributes and gives back an "
        "equal, identically printing node once it has the children. The per-class attribute lists the generic "
        "__eq__/clone_item iterate over are regenerated from the source and compared with the model's by "
        "`decide`. Model tied to the code by differential runs of __eq__, clone_item and __str__.",
        NOTE_COMMON + "Finite Decimals only, 20 concrete classes.", "5 C09"),
    "C10": ("Lean 4 proof (resolve = relabel, no unknown left, lucene skeleton, idempotence, meaning) + the resolver's visit "
            "methods for the explicit targets and the default copy translated from the source by symbolic execution "
            "(tools/pysym.py; Props/GenVisit: relabel is the fixed point of the translated steps)" + T_CORR,
            "Theorems: for explicit targets resolve = the structural relabelling; no implicit operation is left for all four "
            "targets; Lucene mode changes only operation kinds (all AND without explicit operator); idempotence; boolean "
            "meaning preserved (evalB) under leavesResolved; layout changes only by add_head on later operands.",
            NOTE_COMMON + "The last_operation dict sharing is modelled as a threaded store.", "5 C10"),
    "C11": ("Lean 4 proof: re-lexing theory (LX: a text assembled from token texts and blank separators lexes back into those "
            "tokens iff the glue conditions hold), parser completeness (C03c), print-and-reparse theorem (Reparse), then one "
            "theorem per shipped transformer" + T_CORR,
            "Theorems (for every parsed query t without blank before ':' (KF1), or any printable tree): c11_copy_partial, "
            "c11_aht_partial, c11_openrange_partial (add_head blank and non-empty): the printed result is accepted and "
            "parses to an eqv tree; c11_openrange_merge_partial (KF12: hypothesis that the merged result keeps its glue "
            "condition), c11_resolve_partial / c11_resolve_or_partial / c11_resolve_lucene_partial (KF6: noLooserOperand of "
            "the result; KF7: the operator word must not glue to the operand before it, wordAfterOK on the query): the "
            "printed result parses to a tree eqv to norm(result) (same-class nesting flattened, one-operand operations "
            "unwrapped), and c11_meaning: equal boolean meaning (evalB on contents) for both readings of the implicit "
            "operation. resolve_to=BoolOperation prints as juxtaposition and can only be compared by meaning "
            "(C10.resolve_meaning). Every hypothesis is decidable and refuted on its witness (KF6 'a OR b c', KF7 'a(b)', "
            "KF12 '>1 AND a~2AND <5 3', empty add_head, KF1/KF8 'T12 :30') by decide +kernel.",
            NOTE_COMMON + "Transformers are hand-modelled (Model/Transform.lean); KF12 has only the result-level hypothesis.", "5 C11"),
    "C12": ("Lean 4 proof (conversion spec, no comparison left, mergeOps preserves the conjunction over any order) + "
            "visit_from / visit_to / _visit_from_to and the non-merging visit_and_operation translated from the source by "
            "symbolic execution (tools/pysym.py; Props/GenVisitAht: openrange_is_generated)" + T_CORR,
            "Theorems: openRange without merging is the plain conversion; no From/To remains; mergeOps_conj: for every value "
            "the conjunction of the merged operands holds iff that of the original ones (any LE/LT structure); operands "
            "without bound side survive in order; without AND nodes merging changes nothing.",
            NOTE_COMMON, "5 C12"),
    "C13": ("Lean 4 proof (aht eqv, layout, idempotence, failure characterisation; round trip = re-lexing theory LX + parser "
            "completeness C03c + print-and-reparse theorem) + the four visit methods of AutoHeadTail with add_head / add_tail "
            "translated from the source by symbolic execution (tools/pysym.py; Props/GenVisitAht: aht_is_generated), "
            "__str__ of every class (Props/GenPrint)" + T_CORR,
            "Theorems: auto_head_tail returns an eqv tree, changes only empty heads/tails into '' or ' ', is idempotent, fails "
            "exactly on operations without operands; aht_roundtrip_partial / aht_roundtrip_partial_layout: for every tree with "
            "no (or only blank) layout that is expressible (canonical w.r.t. precedence, texts that lex as single tokens, "
            "numerals that re-read to the same value: exactly the shapes the parser produces, expressible_of_parse / "
            "expressible_parse) and safeAdj (excludes exactly KF8 name ending in Tdd before a value starting with dd, and "
            "KF9 exclusive comparison before '='), auto_head_tail succeeds, its printed form is accepted by the parser and "
            "parses to an eqv tree. Every glued adjacency auto_head_tail leaves is analysed in chain_spaced. KF8 / KF9 "
            "refuted on witnesses by decide +kernel.",
            NOTE_COMMON + "Non-mutation of the argument is checked on the implementation only.", "5 C13"),
    "C14": ('Lean 4 proof on an abstract machine (frame property under every schedule, unconditional thread_safe) + forced-schedule differential runs + free-running stress + access audit of the shared parser object',
            'Theorems: run_thread (after ANY schedule the state of a thread depends only on its own number of turns), thread_safe / thread_safe_parse (every schedule that lets a thread finish gives it exactly parse(input); fuel proved sufficient), outcome_is_sequential (under any schedule an outcome, once present, is the sequential one), shared_irrelevant. Harness: deterministic scheduler at every lexer step (plain and context-copied workers, caller parsed before), stress with 1 microsecond switch interval, audit of attribute reads/writes on the shared LRParser.',
            NOTE_COMMON + 'GIL / byte-code atomicity and PLY internals outside the audited accesses are not modelled: partial by nature.', "5 C14"),
    "C15": ("Lean 4 proof (named = operands, mapping exact, names pairwise distinct via rank, alphabet facts by decide)" + T_CORR,
            "Theorems for every tree without names: auto_name never fails; the named nodes are exactly the direct operands of "
            "operations (or the root alone); the mapping is exactly {name: path}; names and paths are pairwise distinct for "
            "any number of operands (rank strictly increases; the needed alphabet facts are checked by decide on the "
            "generated LETTERS/_pos_letter).",
            NOTE_COMMON, "5 C15"),
    "C16": ("Lean 4 proof (propagate = boolean evaluation on visible nodes; class tuples by case analysis on generated data) + "
            "MatchingPropagator._propagate (per class, both default operations, the loop over the operands as a fold) and "
            "_status_from_parent translated from the source by symbolic execution (tools/pysym.py; Props/GenPropagate: the "
            "model's propagate is the translated code)" + T_CORR,
            "Theorem propagate_correct: under the property's hypotheses, for both default operations and every truth "
            "assignment, a visible node is in the matching set iff it evaluates to true, in the other set iff false, each "
            "exactly once. Theorem propagate_correct_reported: the same conclusion when the names of parenthesised "
            "operations are reported too (as a search engine does), provided the report is truthful and no negation lies "
            "strictly between the element and its operation (examples show both conditions are needed).",
            NOTE_COMMON, "5 C16"),
    "C17": ("Lean 4 proof (erase tags = text, balanced, render, class per character, parsimonious = same classes) + "
            "HTMLMarker.mark_node with its while loop translated from the source by symbolic execution (tools/pysym.py; "
            "Props/GenMark: the model's markLay / parentClass are the translated method and the iteration of its translated "
            "loop body, which terminates)" + T_CORR,
            "Theorems for any tree, any path sets, both modes: erasing the tags from the token-level output gives the tree's "
            "text; tags are balanced; the rendered string is the implementation's output; each character carries the class "
            "of the innermost marked ancestor; the parsimonious mode gives the same class per character.",
            NOTE_COMMON + "'original query' inherits C01's hypothesis (KF1).", "5 C17"),
    "C18": ("Lean 4 proof (structure theorem: the output is a re-layout of the printed tree in which separators are kept or "
            "replaced by non-empty blank strings; glue conditions are monotone in the separators; LX + parser completeness) + "
            "correspondence + re-parse oracle + printer histories",
            "Theorems: prettify_spelling (for every indent, max_len, inline_ops: out = spell ps tr with the token keys of the "
            "tree and blank separators), gluesOK_loosen, prettify_parse_back_partial / prettify_parsed_total (for every "
            "parsed query without blank before ':' (KF1, needed only for fields inside chunks printed with str: 'NOT T12 "
            ":30') and without newline inside a lexeme (KF10), under every setting the printer succeeds, its output is "
            "accepted by the parser and parses to an eqv tree), prettify_parse_back_of_printable (any printable tree), "
            "prettify_isSome_iff (fails exactly on operations without operands); determinism = functionality of the model. "
            "KF10 and KF1/KF8 refuted on witnesses by decide +kernel; four settings cross-checked byte for byte. On the "
            "implementation: re-parse equality, determinism, non-mutation, and long-lived printers against fresh ones on "
            "near-identical trees.",
            NOTE_COMMON + "Prettifier is hand-modelled (Model/Pretty.lean; prettifyK is a structurally recursive copy proved equal, "
            "used for kernel evaluation).", "5 C18"),
    "C19": ('Lean 4 proof (walk enumerates every field once; not-analysed iff; registered nested prefixes; end-to-end clause for the dotted spelling) + correspondence + per-leaf oracle on random mappings with analyzer call histories',
            'Theorems: walk_enumerates, notAnalyzed_iff, nestedPrefixes_iff (a nested node is registered iff it has a child that is not itself a registered container: KF5/KF11 made precise), build_schema_field / build_nested_path / build_no_nested_path (the dotted query of a mapped field gives a clause on the full path, term-level iff not analysed, nested on the innermost REGISTERED nested prefix). Correspondence and oracle over random mappings, both spellings, equivalent spec spellings.',
            NOTE_COMMON + 'Group spelling, phrases/ranges and document-type level are covered by the correspondence only.', "5 C19"),
    "C20": ('Lean 4 proof (call_iff_wf: accepted iff well-formed; defect found in every context) + translator (method table, 20 decide lemmas; LuceneCheck.check with its dispatch, the _check_children decorator and every check_* method translated from the source by symbolic execution, tools/pysym.py; Props/GenCheck: the model\'s checkErrors is the fixed point of the translated steps) + correspondence + defect-injection oracle',
            'Theorems: call_iff_no_error, checkErrors_nil_iff / call_iff_wf (the checker accepts exactly the trees of the class WF), defect_found / defect_rejected (each defect kind at the hole of any context built from operations, groups, field groups, fields, boosts, prefixes is reported), total. 20 method_* lemmas tie the generated check_* table to the model.',
            NOTE_COMMON + 'Regex, From/To, NoneItem have no check method (reported as unknown item): outside WF, as the model shows.', "5 C20"),
}

PLANNED = {}


def build():
    props = [json.loads(l) for l in open(os.path.join(VERIF, "properties.jsonl"), encoding="utf-8")]
    checks = []
    na = []
    for p in props:
        pid = p["id"]
        if pid in CLAIMED:
            tech, text, note, ref = CLAIMED[pid]
            checks.append({
                "property_id": pid,
                "quick_cmd": "./check %s --tier quick" % pid,
                "thorough_cmd": "./check %s --tier thorough" % pid,
                "evidence_file": "evidence/%s.json" % pid,
                "replay_cmd_template": "./check %s --replay {path}" % pid,
                "engine": "lean-model+harness",
                "level_claimed": {"category": "proof", "text": text, "design_ref": ref},
                "level_note": note,
                "technique": tech,
            })
        else:
            na.append({"property_id": pid, "reason": PLANNED.get(
                pid, "not claimed yet: model/theorems for this property are not built at this commit "
                     "(see DESIGN.md section 8, growth order); no other technique is substituted")})
    return {
        "version": 1,
        "setup_cmd": "./check --setup",
        "hooks": {
            "guard": "LUQUM_VERIF",
            "enable": "no hooks: the harness instruments from outside (imports a scratch copy of /repo/luqum)",
            "baseline_off_cmd": "cd /repo && /venv/bin/python -m pytest -ra -q -p no:cacheprovider --timeout=900 "
                                "--continue-on-collection-errors",
            "source_commits": [],
            "add_only": True,
        },
        "engines": [{
            "name": "lean-model+harness",
            "path": "lean/ harness/ tools/",
            "serves_properties": sorted(CLAIMED),
            "kind_free_text": "Lean 4 model + theorems (lake), translator regenerating table-like facts from the "
                              "source on every run, python correspondence harness driving the compiled model "
                              "through a JSON line protocol, direct python oracles for the failing-input search",
        }],
        "checks": checks,
        "not_applicable": na,
        "notes": "All checks: exit 0 = held; exit 1 + VIOLATION line; exit 2 = check could not run. "
                 "Known findings: known_findings.json (committed, never written at run time).",
    }


def main():
    m = build()
    path = os.path.join(VERIF, "MANIFEST.json")
    with open(path, "w", encoding="utf-8") as f:
        json.dump(m, f, indent=1, ensure_ascii=False)
        f.write("\n")
    code = ("import json,jsonschema;jsonschema.validate(json.load(open(%r)),"
            "json.load(open('/root/.vp/MANIFEST.schema.json')));print('manifest valid')" % path)
    subprocess.run(["python3-vt", "-c", code], check=True)


if __name__ == "__main__":
    main()
