"""Writes /verif/MANIFEST.json from the table below and validates it against the schema.
    /venv/bin/python -m tools.manifest
"""
import json
import os
import subprocess

VERIF = os.path.dirname(os.path.dirname(os.path.abspath(__file__)))

NOTE_COMMON = ("Trusted: Lean 4.33 kernel; axioms of every property theorem within {propext, Classical.choice, "
               "Quot.sound} (audited each run; no sorry / native_decide / own axioms); tools/translate.py; "
               "the correspondence harness (hand-written model == implementation only on generated cases); "
               "python/re/decimal/PLY runtime semantics as modelled. ")

# id -> (technique, level text, level note, design ref)
T_CORR = " + correspondence (model vs implementation, differential) + python oracle for the failing-input search"
CLAIMED = {
    "C01": ("Lean 4 proof: table-independent LR-run invariant (flat text), lexer slicing lemma, kernel-checked table facts" + T_CORR,
            "Theorem parse_lossless_partial: for every string s, if the model's parse accepts s and no blank stands directly "
            "before a ':' (known finding KF1), printing the tree with heads/tails in source numeral spelling gives back s "
            "character for character; the run lemma holds for ARBITRARY LALR tables (any shift, any reduce), three decide "
            "+kernel facts tie it to the generated tables; print_norm_eq_raw_respelled relates what the implementation prints "
            "to the source spelling. Negative witness for KF1 and a non-vacuity example are kernel-checked.",
            NOTE_COMMON + "Lexer, head/tail, grammar actions, printing are hand-modelled (tables and regex trees are "
            "translated). Numeral re-spelling (render/normalize) is modelled; its arithmetic lemmas are not proved yet.", "5 C01"),
    "C02": ("correspondence + per-node position oracle; Lean obligations shared with C01 (position theorem in progress)",
            "All four clauses (slice = node text, widened slice, children nested/ordered/disjoint, root span) are evaluated on "
            "every node of every accepted generated query on the implementation, and the model (which computes pos/size with "
            "the same HeadTailManager arithmetic) must agree node by node. The Lean theorem Laid (positions) is not proved at "
            "this commit: the machine-checked part is the C01 text invariant on which it rests.",
            NOTE_COMMON + "Position arithmetic is covered by differential testing only at this commit.", "5 C02"),
    "C03": ("translator obligations (tables fresh, regex trees, reserved map) by decide + three-way differential "
            "(implementation / LR model over generated tables / independent precedence-climbing spec); certificate proof in progress",
            "The LR model runs over the tables regenerated from the live parser on every run; freshness of parsetab.py against "
            "the grammar source is an obligation; an independent python specification parser (implicit < OR < AND < prefix < "
            "field < suffix) must give the same tree for every accepted query, and two re-layouts of every query must give "
            "equal trees.",
            NOTE_COMMON + "The abstract-interpretation certificate (Canon) theorem is not merged at this commit.", "5 C03"),
    "C04": ("correspondence over call histories with forked history-free references; Lean: total model with explicit error type",
            "Histories of 2-8 calls mixing valid, syntactically wrong, illegal-character and malformed-numeral inputs through "
            "both entry points; every outcome must equal the outcome in a forked child that never parsed anything and the "
            "model's; only ParseSyntaxError / IllegalCharacterError may escape. The model's parse is a total Lean function "
            "into Except ParseErr Tree.",
            NOTE_COMMON + "History independence theorem (stateful lexer model) in progress.", "5 C04"),
    "C05": ("correspondence (JSON and exception messages equal) + reference semantics on random documents; Lean proof in progress",
            "The model of the builder (visitor, E-tree, JSON) agrees with the implementation on every generated (config, tree); "
            "for every translated query the JSON is evaluated by a reference bool/nested evaluator on random nested documents "
            "and compared with the reference denotation of the tree; KF3-KF5 are recognised by re-evaluating with the "
            "finding's predicted semantics.",
            NOTE_COMMON + "The equivalence theorem is not merged at this commit.", "5 C05"),
    "C06": ("correspondence + expected-leaf-clause oracle + builder call histories",
            "Leaf clauses of the JSON are compared as a multiset with the clauses expected from the tree (field, text, kind, "
            "zero_terms_query, _name, boost/fuzziness/slop incl. field_options); same builder twice / fresh builder / class "
            "attribute snapshots for purity; JSON round trip.",
            NOTE_COMMON + "Lean theorem about leaves in progress.", "5 C06"),
    "C07": ("correspondence + independent refusal predicate; Lean proof in progress",
            "Exception class and message must equal the model's; an independent python predicate (container misuse in "
            "pre-order, else AND/OR mix after same-class flattening) must predict refusal exactly.",
            NOTE_COMMON + "KF5 recognised by recomputing the predicate with parents-of-leaves as containers.", "5 C07"),
    "C08": ("Lean 4 proof (visitEvents = preorder map dispatch, cache consistency, preorder context, copy lemmas)" + T_CORR,
            "Theorems: for every handler table, consistent cache, tree: the events of a visit are exactly the pre-order "
            "enumeration with dispatch along the generated MRO, true ancestors and index path; the cache stays consistent "
            "(visit_twice); preorder has nodeCount entries with pairwise distinct, lexicographically increasing paths; the "
            "default transformer gives an eqv, identically printing tree with the same layout at every path.",
            NOTE_COMMON + "Object identity / non-mutation are checked on the implementation only (ids, deep snapshots).", "5 C08"),
    "C09": (
        "Lean 4 proof (eqv <-> content equality, clone lemmas) + translator (class table by decide) + "
        "correspondence",
        "Theorems for all pairs of trees: eqv a b <-> content a = content b (hence equivalence relation), "
        "layout/positions/names never matter; clone_item keeps class, layout, own attributes and gives back an "
        "equal, identically printing node once it has the children. The per-class attribute lists the generic "
        "__eq__/clone_item iterate over are regenerated from the source and compared with the model's by "
        "`decide`. Model tied to the code by differential runs of __eq__, clone_item and __str__.",
        NOTE_COMMON + "Finite Decimals only, 20 concrete classes.", "5 C09"),
    "C10": ("Lean 4 proof (resolve = relabel, no unknown left, lucene skeleton, idempotence, meaning)" + T_CORR,
            "Theorems: for explicit targets resolve = the structural relabelling; no implicit operation is left for all four "
            "targets; Lucene mode changes only operation kinds (all AND without explicit operator); idempotence; boolean "
            "meaning preserved (evalB) under leavesResolved; layout changes only by add_head on later operands.",
            NOTE_COMMON + "The last_operation dict sharing is modelled as a threaded store.", "5 C10"),
    "C11": ("correspondence of the transformers and the parser/printer models + truth-table oracle on the implementation; "
            "Lean: component theorems (C01, C08, C10, C12, C13)",
            "For every parsed query and shipped transformer the result is printed and re-parsed on the implementation and "
            "both trees are compared by truth table over their leaves and by their multiset of leaves and boosts; KF6-KF9 "
            "are recognised by re-running the round trip with the finding's repair.",
            NOTE_COMMON + "The end-to-end Lean theorem needs the lexer adjacency lemmas (not proved): partial.", "5 C11"),
    "C12": ("Lean 4 proof (conversion spec, no comparison left, mergeOps preserves the conjunction over any order)" + T_CORR,
            "Theorems: openRange without merging is the plain conversion; no From/To remains; mergeOps_conj: for every value "
            "the conjunction of the merged operands holds iff that of the original ones (any LE/LT structure); operands "
            "without bound side survive in order; without AND nodes merging changes nothing.",
            NOTE_COMMON, "5 C12"),
    "C13": ("Lean 4 proof (aht eqv, layout, idempotence, failure characterisation)" + T_CORR,
            "Theorems: auto_head_tail returns an eqv tree, changes only empty heads/tails into '' or ' ', is idempotent, fails "
            "exactly on operations without operands. The print/parse round trip (iv) is checked on the implementation for "
            "all expressible generated trees (expressibility decided by the all-blanks spelling); KF8, KF9 recognised.",
            NOTE_COMMON + "(iv) depends on lexer adjacency lemmas that are not proved: partial.", "5 C13"),
    "C14": ("Lean 4 proof on an abstract machine (frame property of interleaved atomic steps) + forced-schedule "
            "differential runs + access audit of the shared parser object",
            "Workers run under a deterministic scheduler that blocks each at every lexer step until a seeded schedule grants "
            "the turn; outcomes must equal sequential ones; the attributes of the shared LRParser object written/read during "
            "a parse are audited. Lean: machine and frame theorem (in progress at this commit).",
            NOTE_COMMON + "GIL / byte-code atomicity and PLY internals outside the audited accesses are not modelled: partial.",
            "5 C14"),
    "C15": ("Lean 4 proof (named = operands, mapping exact, names pairwise distinct via rank, alphabet facts by decide)" + T_CORR,
            "Theorems for every tree without names: auto_name never fails; the named nodes are exactly the direct operands of "
            "operations (or the root alone); the mapping is exactly {name: path}; names and paths are pairwise distinct for "
            "any number of operands (rank strictly increases; the needed alphabet facts are checked by decide on the "
            "generated LETTERS/_pos_letter).",
            NOTE_COMMON, "5 C15"),
    "C16": ("Lean 4 proof (propagate = boolean evaluation on visible nodes; class tuples by case analysis on generated data)" + T_CORR,
            "Theorem propagate_correct: under the property's hypotheses, for both default operations and every truth "
            "assignment, a visible node is in the matching set iff it evaluates to true, in the other set iff false, each "
            "exactly once.",
            NOTE_COMMON, "5 C16"),
    "C17": ("Lean 4 proof (erase tags = text, balanced, render, class per character, parsimonious = same classes)" + T_CORR,
            "Theorems for any tree, any path sets, both modes: erasing the tags from the token-level output gives the tree's "
            "text; tags are balanced; the rendered string is the implementation's output; each character carries the class "
            "of the innermost marked ancestor; the parsimonious mode gives the same class per character.",
            NOTE_COMMON + "'original query' inherits C01's hypothesis (KF1).", "5 C17"),
    "C18": ("correspondence of the Prettifier model + re-parse oracle; Lean proof in progress",
            "The model's output equals the implementation's for all generated trees and settings; for parsed queries the "
            "pretty text must parse to an equal tree, be deterministic, leave the input untouched; KF10 recognised.",
            NOTE_COMMON + "The structure theorem (only blanks inserted between chunks) is not merged yet: partial.", "5 C18"),
    "C19": ("correspondence of SchemaAnalyzer + builder models + per-leaf oracle on random mappings; Lean proof in progress",
            "For every leaf of random mappings (legacy and current layout, nested/object/implicit object/multi-fields) and both "
            "query spellings the clause must be on the full path, term-level iff not analysed text, nested on the innermost "
            "nested ancestor; equivalent spellings of field specs must configure equal outcomes.",
            NOTE_COMMON, "5 C19"),
    "C20": ("correspondence (message lists equal) + translator (method table) + WF / defect-injection oracle; Lean proof in progress",
            "Totality, errors()/__call__ consistency and non-mutation on arbitrary trees; well-formed trees by construction are "
            "accepted; each of 7 defect kinds injected at every reachable position is rejected; messages equal the model's.",
            NOTE_COMMON, "5 C20"),
}

PLANNED = {}


def build():
    props = [json.loads(l) for l in open(os.path.join(VERIF, "properties.jsonl"), encoding="utf-8")]
    checks = []
    na = []
    for p in props:
        pid = p["id"]
        if pid in CLAIMED:
            tech, text, note, ref = CLAIMED[pid]
            checks.append({
                "property_id": pid,
                "quick_cmd": "./check %s --tier quick" % pid,
                "thorough_cmd": "./check %s --tier thorough" % pid,
                "evidence_file": "evidence/%s.json" % pid,
                "replay_cmd_template": "./check %s --replay {path}" % pid,
                "engine": "lean-model+harness",
                "level_claimed": {"category": "proof", "text": text, "design_ref": ref},
                "level_note": note,
                "technique": tech,
            })
        else:
            na.append({"property_id": pid, "reason": PLANNED.get(
                pid, "not claimed yet: model/theorems for this property are not built at this commit "
                     "(see DESIGN.md section 8, growth order); no other technique is substituted")})
    return {
        "version": 1,
        "setup_cmd": "./check --setup",
        "hooks": {
            "guard": "LUQUM_VERIF",
            "enable": "no hooks: the harness instruments from outside (imports a scratch copy of /repo/luqum)",
            "baseline_off_cmd": "cd /repo && /venv/bin/python -m pytest -ra -q -p no:cacheprovider --timeout=900 "
                                "--continue-on-collection-errors",
            "source_commits": [],
            "add_only": True,
        },
        "engines": [{
            "name": "lean-model+harness",
            "path": "lean/ harness/ tools/",
            "serves_properties": sorted(CLAIMED),
            "kind_free_text": "Lean 4 model + theorems (lake), translator regenerating table-like facts from the "
                              "source on every run, python correspondence harness driving the compiled model "
                              "through a JSON line protocol, direct python oracles for the failing-input search",
        }],
        "checks": checks,
        "not_applicable": na,
        "notes": "All checks: exit 0 = held; exit 1 + VIOLATION line; exit 2 = check could not run. "
                 "Known findings: known_findings.json (committed, never written at run time).",
    }


def main():
    m = build()
    path = os.path.join(VERIF, "MANIFEST.json")
    with open(path, "w", encoding="utf-8") as f:
        json.dump(m, f, indent=1, ensure_ascii=False)
        f.write("\n")
    code = ("import json,jsonschema;jsonschema.validate(json.load(open(%r)),"
            "json.load(open('/root/.vp/MANIFEST.schema.json')));print('manifest valid')" % path)
    subprocess.run(["python3-vt", "-c", code], check=True)


if __name__ == "__main__":
    main()
