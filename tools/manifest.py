"""Writes /verif/MANIFEST.json from the table below and validates it against the schema.
    /venv/bin/python -m tools.manifest
"""
import json
import os
import subprocess

VERIF = os.path.dirname(os.path.dirname(os.path.abspath(__file__)))

NOTE_COMMON = ("Trusted: Lean 4.33 kernel; axioms of every property theorem within {propext, Classical.choice, "
               "Quot.sound} (audited each run; no sorry / native_decide / own axioms); tools/translate.py; "
               "the correspondence harness (hand-written model == implementation only on generated cases); "
               "python/re/decimal/PLY runtime semantics as modelled. ")

# id -> (technique, level text, level note, design ref)
CLAIMED = {
    "C09": (
        "Lean 4 proof (eqv <-> content equality, clone lemmas) + translator (class table by decide) + "
        "correspondence",
        "Theorems for all pairs of trees: eqv a b <-> content a = content b (hence equivalence relation), "
        "layout/positions/names never matter; clone_item keeps class, layout, own attributes and gives back an "
        "equal, identically printing node once it has the children. The per-class attribute lists the generic "
        "__eq__/clone_item iterate over are regenerated from the source and compared with the model's by "
        "`decide`. Model tied to the code by differential runs of __eq__, clone_item and __str__.",
        NOTE_COMMON + "Finite Decimals only, 20 concrete classes.", "5 C09"),
}

PLANNED = {}


def build():
    props = [json.loads(l) for l in open(os.path.join(VERIF, "properties.jsonl"), encoding="utf-8")]
    checks = []
    na = []
    for p in props:
        pid = p["id"]
        if pid in CLAIMED:
            tech, text, note, ref = CLAIMED[pid]
            checks.append({
                "property_id": pid,
                "quick_cmd": "./check %s --tier quick" % pid,
                "thorough_cmd": "./check %s --tier thorough" % pid,
                "evidence_file": "evidence/%s.json" % pid,
                "replay_cmd_template": "./check %s --replay {path}" % pid,
                "engine": "lean-model+harness",
                "level_claimed": {"category": "proof", "text": text, "design_ref": ref},
                "level_note": note,
                "technique": tech,
            })
        else:
            na.append({"property_id": pid, "reason": PLANNED.get(
                pid, "not claimed yet: model/theorems for this property are not built at this commit "
                     "(see DESIGN.md section 8, growth order); no other technique is substituted")})
    return {
        "version": 1,
        "setup_cmd": "./check --setup",
        "hooks": {
            "guard": "LUQUM_VERIF",
            "enable": "no hooks: the harness instruments from outside (imports a scratch copy of /repo/luqum)",
            "baseline_off_cmd": "cd /repo && /venv/bin/python -m pytest -ra -q -p no:cacheprovider --timeout=900 "
                                "--continue-on-collection-errors",
            "source_commits": [],
            "add_only": True,
        },
        "engines": [{
            "name": "lean-model+harness",
            "path": "lean/ harness/ tools/",
            "serves_properties": sorted(CLAIMED),
            "kind_free_text": "Lean 4 model + theorems (lake), translator regenerating table-like facts from the "
                              "source on every run, python correspondence harness driving the compiled model "
                              "through a JSON line protocol, direct python oracles for the failing-input search",
        }],
        "checks": checks,
        "not_applicable": na,
        "notes": "All checks: exit 0 = held; exit 1 + VIOLATION line; exit 2 = check could not run. "
                 "Known findings: known_findings.json (committed, never written at run time).",
    }


def main():
    m = build()
    path = os.path.join(VERIF, "MANIFEST.json")
    with open(path, "w", encoding="utf-8") as f:
        json.dump(m, f, indent=1, ensure_ascii=False)
        f.write("\n")
    code = ("import json,jsonschema;jsonschema.validate(json.load(open(%r)),"
            "json.load(open('/root/.vp/MANIFEST.schema.json')));print('manifest valid')" % path)
    subprocess.run(["python3-vt", "-c", code], check=True)


if __name__ == "__main__":
    main()
