"""rewrite the block between <!-- GEN:BEGIN --> and <!-- GEN:END --> of DESIGN.md: the theorems of every
lean/Luqum/Props/Gen*.lean file (the obligations of the translators), in file order.

    python -m tools.design_gen
"""
import glob
import os
import re

VERIF = os.path.dirname(os.path.dirname(os.path.abspath(__file__)))
ORDER = ["GenActions", "GenPrint", "GenHandle", "GenClone", "GenContext", "GenChildren", "GenVisit", "GenVisitAht",
         "GenCheck", "GenNesting", "GenMark", "GenPropagate", "GenEs", "GenGlue", "GenRuntime"]


def main():
    files = {os.path.basename(f)[:-5]: f for f in glob.glob(os.path.join(VERIF, "lean/Luqum/Props/Gen*.lean"))}
    names = [n for n in ORDER if n in files] + sorted(n for n in files if n not in ORDER)
    out = []
    for n in names:
        src = open(files[n], encoding="utf-8").read()
        src = re.sub(r"/-.*?-/", "", src, flags=re.S)
        ths = re.findall(r"^\s*(?:private\s+)?theorem\s+([A-Za-z_][\w'.]*)", src, flags=re.M)
        out.append("*Theorems in `lean/Luqum/Props/%s.lean` (%d).* %s" % (n, len(ths), ", ".join("`%s`" % t for t in ths)))
    p = os.path.join(VERIF, "DESIGN.md")
    s = open(p, encoding="utf-8").read()
    a, b = s.index("<!-- GEN:BEGIN -->"), s.index("<!-- GEN:END -->")
    s = s[:a] + "<!-- GEN:BEGIN -->\n" + "\n\n".join(out) + "\n" + s[b:]
    open(p, "w", encoding="utf-8").write(s)
    print("%d files, %d theorems" % (len(names), sum(o.count("`") // 2 - 1 for o in out)))


if __name__ == "__main__":
    main()
