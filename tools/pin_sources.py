"""Pins the source fingerprints of every python file the properties are anchored in (harness/fingerprint.py).
Run after the model has been validated against the current tree of /repo (all checks green on several seeds):
    /venv/bin/python -m tools.pin_sources
"""
import json
import os
import subprocess

from harness import common, fingerprint

files = set()
for line in open(os.path.join(common.VERIF, "properties.jsonl"), encoding="utf-8"):
    files |= {x for x in json.loads(line).get("anchors", {}).get("files", []) if x.endswith(".py")}
head = subprocess.run(["git", "-C", common.REPO, "rev-parse", "HEAD"], stdout=subprocess.PIPE).stdout.decode().strip()
dirty = subprocess.run(["git", "-C", common.REPO, "status", "--porcelain"], stdout=subprocess.PIPE).stdout.decode().strip()
assert not dirty, "pin only a clean tree:\n" + dirty
out = {"repo_commit": head, "files": fingerprint.current(sorted(files))}
with open(fingerprint.PINNED, "w", encoding="utf-8") as f:
    json.dump(out, f, indent=1, sort_keys=True)
print("pinned %d files at %s" % (len(files), head[:10]))
