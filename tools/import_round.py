"""import a round of seeded changes into /verif/seeded/<id>/ from the sub-agents' output directories and the
detection log of tools.seedtest (written by a run_seed*.sh loop):

    /venv/bin/python -m tools.import_round /tmp/seedE E F /tmp/seedE-final.log "round E" [--note "C13 2=..."]

<prefix>-Cxx-out/{patch1.diff,demo1.py,notes1.json,patch2.diff,...}; patch1 gets the first letter, patch2 the second.
A change is imported only if the log says it is valid (suite green with the patch, demo 0 without / non-zero with)."""
import json
import os
import re
import shutil
import sys

VERIF = os.path.dirname(os.path.dirname(os.path.abspath(__file__)))


def parse_log(path):
    res = {}
    cur = None
    for line in open(path, encoding="utf-8", errors="replace"):
        m = re.match(r"=== (C\d\d) patch(\d)", line)
        if m:
            cur = (m.group(1), int(m.group(2)))
            res[cur] = {"valid": None, "checks": []}
            continue
        if cur is None:
            continue
        if line.startswith("VALIDATE"):
            res[cur]["valid"] = "valid=True" in line
            res[cur]["validate"] = line.strip()
        elif line.startswith("CHECK"):
            m = re.match(r"CHECK (C\d\d)/seed(\d+) exit=(\d+)(.*)", line)
            if m:
                res[cur]["checks"].append({"prop": m.group(1), "seed": int(m.group(2)), "exit": int(m.group(3)),
                                           "nofail": "no-failing-input-found" in m.group(4)})
    return res


def main():
    prefix, l1, l2, log, origin = sys.argv[1:6]
    notes_extra = {}
    for a in sys.argv[6:]:
        if a.startswith("--note="):
            k, v = a[7:].split("=", 1)
            notes_extra[k] = v
    res = parse_log(log)
    for (prop, k), r in sorted(res.items()):
        sid = "%s-%s" % (prop, l1 if k == 1 else l2)
        src = "%s-%s-out" % (prefix, prop)
        if not r["valid"]:
            print("skip %s: not valid (%s)" % (sid, r.get("validate")))
            continue
        try:
            notes = json.load(open(os.path.join(src, "notes%d.json" % k), encoding="utf-8"))
        except Exception:
            notes = {}
        d = os.path.join(VERIF, "seeded", sid)
        os.makedirs(d, exist_ok=True)
        shutil.copy(os.path.join(src, "patch%d.diff" % k), os.path.join(d, "patch.diff"))
        shutil.copy(os.path.join(src, "demo%d.py" % k), os.path.join(d, "demo.py"))
        seeds = sorted({c["seed"] for c in r["checks"]})
        hit = [c for c in r["checks"] if c["exit"] == 1]
        if len(hit) == len(r["checks"]) and hit:
            caught = "%s quick, every seed (%s)" % (prop, ", ".join(map(str, seeds)))
            if all(c["nofail"] for c in hit):
                caught += ": reported as no-failing-input-found (an obligation / the correspondence broke, no input found)"
        elif hit:
            caught = "%s quick on seeds %s of %s" % (prop, sorted(c["seed"] for c in hit), seeds)
        else:
            caught = "NOT caught by %s quick (seeds %s)" % (prop, seeds)
        if "%s %d" % (prop, k) in notes_extra:
            caught += "; " + notes_extra["%s %d" % (prop, k)]
        meta = {
            "id": sid, "breaks_property": prop,
            "what_it_breaks": str(notes.get("what_it_breaks", "")),
            "needs_to_manifest": str(notes.get("needs_to_manifest", "")),
            "origin": "written by a fresh sub-agent that saw only the property text, the list of ideas already explored "
                      "and its own scratch worktree (%s)" % origin,
            "confirmed": "tools/seedtest.py --isolated: in a scratch worktree the pinned suite passes with the patch "
                         "(363 passed), demo.py exits 0 without and 1 with it; then the patch is applied to a private "
                         "worktree handed to the checks through LUQUM_REPO (seeds %s), and the worktree is removed" % seeds,
            "caught_by": caught,
        }
        json.dump(meta, open(os.path.join(d, "meta.json"), "w", encoding="utf-8"), indent=1, ensure_ascii=False)
        print("imported %s: %s" % (sid, caught))


if __name__ == "__main__":
    main()
