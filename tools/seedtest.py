"""Validate a seeded change and run checks against it.

    /venv/bin/python -m tools.seedtest <patch.diff> <demo.py> <PROP> [<PROP> ...] [--seeds 0,1] [--tier quick]

1. in a scratch worktree (outside /repo and /verif): the suite must pass with the patch, the demo must exit 0
   without it and non-zero with it;
2. the patch is applied to /repo, every listed check is run, /repo is restored (always).
Prints one JSON line per step; exit 0 iff the change is valid (step 1); detection is reported, not judged.
"""
import json
import os
import shutil
import subprocess
import sys
import tempfile

REPO = "/repo"
VERIF = os.path.dirname(os.path.dirname(os.path.abspath(__file__)))


def sh(cmd, cwd=None, env=None, timeout=3600):
    p = subprocess.run(cmd, cwd=cwd, env=env, shell=isinstance(cmd, str), stdout=subprocess.PIPE,
                       stderr=subprocess.STDOUT, timeout=timeout)
    return p.returncode, p.stdout.decode("utf-8", "replace")


def main():
    args = [a for a in sys.argv[1:] if not a.startswith("--")]
    opts = dict(a[2:].split("=", 1) if "=" in a else (a[2:], "1") for a in sys.argv[1:] if a.startswith("--"))
    patch, demo, props = os.path.abspath(args[0]), os.path.abspath(args[1]), args[2:]
    seeds = [int(x) for x in opts.get("seeds", "0").split(",")]
    tier = opts.get("tier", "quick")
    report = {"patch": patch, "demo": demo}
    wt = tempfile.mkdtemp(prefix="seedtest-", dir="/tmp")
    os.rmdir(wt)
    try:
        rc, out = sh(["git", "-C", REPO, "worktree", "add", "-q", "--detach", wt, "HEAD"])
        assert rc == 0, out
        env = dict(os.environ, PYTHONPATH=wt, PYTHONDONTWRITEBYTECODE="1")
        # the demo runs from a directory of its own: outside the worktree (the suite's doctest collection imports
        # every .py file there) and not next to another checkout of luqum (sys.path[0] is the script's directory)
        ddir = tempfile.mkdtemp(prefix="seedtest-demo-", dir="/tmp")
        demo_copy = os.path.join(ddir, "demo.py")
        shutil.copy(demo, demo_copy)
        demo = demo_copy
        rc0, out0 = sh(["/venv/bin/python", demo], cwd=wt, env=env, timeout=600)
        report["demo_without_patch"] = rc0
        rc, out = sh(["git", "-C", wt, "apply", patch])
        report["patch_applies"] = rc == 0
        if rc != 0:
            report["apply_error"] = out[-500:]
        else:
            rc1, out1 = sh(["/venv/bin/python", demo], cwd=wt, env=env, timeout=600)
            report["demo_with_patch"] = rc1
            report["demo_output"] = out1[-600:]
            rcs, outs = sh("/venv/bin/python -m pytest -q -p no:cacheprovider 2>&1 | tail -3", cwd=wt, env=env, timeout=1800)
            report["suite"] = outs.strip().split("\n")[-1]
        report["valid"] = bool(report.get("patch_applies") and rc0 == 0 and report.get("demo_with_patch", 0) != 0 and
                               "363 passed" in report.get("suite", "") and "failed" not in report.get("suite", ""))
    finally:
        sh(["git", "-C", REPO, "worktree", "remove", "--force", wt])
        shutil.rmtree(wt, ignore_errors=True)
        shutil.rmtree(os.path.dirname(demo), ignore_errors=True) if demo.startswith("/tmp/seedtest-demo-") else None
    print("VALIDATE valid=%s demo_without=%s demo_with=%s suite=%r" % (
        report.get("valid"), report.get("demo_without_patch"), report.get("demo_with_patch"), report.get("suite")))
    if not report["valid"]:
        return 1
    # ---- run the checks against the patched tree
    results = {}
    scratch_ev = tempfile.mkdtemp(prefix="seedtest-ev-", dir="/tmp")
    if "isolated" in opts:
        # a private worktree with the patch applied, handed to the checks through LUQUM_REPO: /repo itself is
        # not touched (used while other jobs read /repo); evidence goes to a scratch directory
        target = tempfile.mkdtemp(prefix="seedtest-wt-", dir="/tmp")
        os.rmdir(target)
        rc, out = sh(["git", "-C", REPO, "worktree", "add", "-q", "--detach", target, "HEAD"])
        assert rc == 0, out
    else:
        target = REPO
        rc, out = sh(["git", "-C", REPO, "status", "--porcelain"])
        if out.strip():
            print(json.dumps({"step": "error", "msg": "/repo is not clean", "status": out}))
            return 2
    try:
        rc, out = sh(["git", "-C", target, "apply", patch])
        assert rc == 0, out
        for prop in props:
            for seed in seeds:
                env = dict(os.environ, VERIF_SEED=str(seed), VERIF_NO_LEANCHECKER="1", LUQUM_REPO=target,
                           VERIF_EVIDENCE_DIR=scratch_ev)
                rc, out = sh(["./check", prop, "--tier", tier], cwd=VERIF, env=env, timeout=7200)
                lines = [l for l in out.split("\n") if l.startswith("VIOLATION") or l.startswith(prop + " ")]
                first = next((l for l in out.split("\n") if l.startswith("  {") or l.startswith("  [")), "")
                results["%s/seed%d" % (prop, seed)] = {"exit": rc, "lines": lines, "detail": first[:700]}
    finally:
        shutil.rmtree(scratch_ev, ignore_errors=True)
        if target == REPO:
            sh(["git", "-C", REPO, "checkout", "--", "."])
            sh(["git", "-C", REPO, "clean", "-fdq", "luqum"])
        else:
            sh(["git", "-C", REPO, "worktree", "remove", "--force", target])
            shutil.rmtree(target, ignore_errors=True)
        # the generated Lean data must describe the unchanged tree again
        sh(["/venv/bin/python", "-c", "from tools import translate; translate.regenerate()"], cwd=VERIF)
    for k, v in results.items():
        print("CHECK %s exit=%d %s" % (k, v["exit"], " | ".join(v["lines"])[:330]))
        if v["detail"]:
            print("      " + v["detail"][:400])
    if "json" in opts:
        print(json.dumps({"step": "checks", "results": results}, ensure_ascii=False))
    return 0


if __name__ == "__main__":
    sys.exit(main())
