"""Abstract interpretation of the LALR tables of `luqum.parser` (property C03: precedence shape).

`certificate(parser)` computes the least inductive certificate (S, E) for the tables of a PLY parser
object; `emit_lean(parser)` renders it as `Luqum/Generated/Cert.lean`. The certificate is re-checked
in Lean by `Luqum.certOK` (Luqum/Lemmas/CertDefs.lean), whose soundness is proved for arbitrary
tables; nothing here is trusted.

Abstract domain: a *shape* per stack value (one per token kind for `TokenValue`s, eleven for items),
sets of shapes are bit masks.
  S[(s, a)]  : shapes possible for the TOP value when the parser is in state `s` and the look-ahead
               terminal is `a` (`$end` included)
  E[(s, s')] : shapes possible for the value pushed together with state `s` while state `s'` sits
               directly above it (state 0 holds no value: its edges carry the empty set; the KEYS of
               E are the possible adjacent pairs of the state stack)
The transfer functions `adm_set` / `res_set` mirror `Luqum.admSet` / `Luqum.resSet` literally.
"""

# ---- shapes (bit positions; must agree with Luqum/Lemmas/CertDefs.lean) -------------------------
TOKEN_KINDS = ["TERM", "PHRASE", "REGEX", "APPROX", "BOOST", "MINUS", "PLUS", "COLUMN", "LPAREN",
               "RPAREN", "LBRACKET", "RBRACKET", "LESSTHAN", "GREATERTHAN", "AND_OP", "OR_OP", "NOT",
               "TO"]                                       # order of `Luqum.TokK`
ITEM_SHAPES = ["word", "phrase", "regex", "negterm", "atomic", "pre", "fld", "bst", "and", "or", "unk"]
SHAPES = ["tok:" + k for k in TOKEN_KINDS] + ITEM_SHAPES
BIT = {name: i for i, name in enumerate(SHAPES)}


def m(*names):
    r = 0
    for n in names:
        r |= 1 << BIT[n]
    return r


M_WORD, M_PHRASE, M_REGEX, M_NEG, M_ATOMIC, M_PRE, M_FLD, M_BST, M_AND, M_OR, M_UNK = (
    m(n) for n in ITEM_SHAPES)
M_WP = M_WORD | M_PHRASE
M_OPS = M_AND | M_OR | M_UNK
M_ITEMS = m(*ITEM_SHAPES)


def meets(a, b):
    return (a & b) != 0


def sub(a, b):
    return (a & b) == a


def names_of(mask):
    return [n for n in SHAPES if mask >> BIT[n] & 1]


def tok_val_shape(term):
    """shape of the value a shifted token contributes (`Tok.toVal`)"""
    return {"TERM": M_WORD, "PHRASE": M_PHRASE, "REGEX": M_REGEX}.get(term, m("tok:" + term))


def adm_set(f, a):
    """`Luqum.admSet`: every member of the argument shape sets is acceptable to action `f`"""
    n = len(a)
    if f == "p_expression_or" and n == 3:
        return not meets(a[0], M_UNK) and not meets(a[2], M_UNK | M_OR)
    if f == "p_expression_and" and n == 3:
        return not meets(a[0], M_UNK | M_OR) and not meets(a[2], M_OPS)
    if f == "p_expression_implicit" and n == 2:
        return not meets(a[1], M_UNK)
    if f in ("p_expression_plus", "p_expression_minus", "p_expression_not") and n == 2:
        return not meets(a[1], M_OPS)
    if f == "p_range" and n == 5:
        return sub(a[1], M_WP | M_NEG) and sub(a[3], M_WP | M_NEG)
    if f == "p_possibly_negative_term" and n == 2:
        return sub(a[1], M_WP)
    if f in ("p_lessthan", "p_greaterthan") and n == 2:
        return sub(a[1], M_WP)
    if f == "p_field_search" and n == 3:
        return not meets(a[2], M_OPS)
    if f == "p_proximity" and n == 2:
        return sub(a[0], M_PHRASE)
    if f == "p_fuzzy" and n == 2:
        return sub(a[0], M_WORD)
    if f == "p_boosting" and n == 2:
        return not meets(a[0], M_OPS | M_PRE | M_NEG | M_FLD)
    return True


def res_set(f, a):
    """`Luqum.resSet`: shapes of the value built by action `f`"""
    n = len(a)
    if f == "p_expression_or" and n == 3:
        return M_OR
    if f == "p_expression_and" and n == 3:
        return M_AND
    if f == "p_expression_implicit" and n == 2:
        return M_UNK
    if f in ("p_expression_plus", "p_expression_not") and n == 2:
        return M_PRE
    if f == "p_expression_minus" and n == 2:
        return (M_NEG if meets(a[1], M_WP) else 0) | (0 if sub(a[1], M_WP) else M_PRE)
    if f == "p_grouping" and n == 3:
        return M_ATOMIC
    if f == "p_range" and n == 5:
        return M_ATOMIC
    if f == "p_possibly_negative_term" and n == 2:
        return M_NEG
    if f in ("p_lessthan", "p_greaterthan") and n == 2:
        return M_ATOMIC
    if f == "p_field_search" and n == 3:
        return M_FLD
    if f in ("p_proximity", "p_fuzzy") and n == 2:
        return M_ATOMIC
    if f == "p_boosting" and n == 2:
        return M_BST
    if f == "p_to_as_term" and n == 1:
        return M_WORD
    if n == 1:          # pass-through actions
        return a[0]
    return 0


# ---- tables ------------------------------------------------------------------------------------
def _tables(parser):
    act, goto, prods = parser.action, parser.goto, parser.productions
    terminals = sorted({t for row in act.values() for t in row})
    nstates = max(list(act.keys()) + list(goto.keys())) + 1
    return act, goto, prods, terminals, nstates


def _walk(E_preds, n, above, acc):
    """all ways to go `n` slots further down the stack from state `above` along certificate edges;
    yields (c1, acc') where c1 is the lowest popped state and acc' the argument sets in order"""
    if n == 0:
        yield above, acc
        return
    for (s, mask) in E_preds(above):
        yield from _walk(E_preds, n - 1, s, [mask] + acc)


def certificate(parser, with_errors=False):
    """least fixpoint; returns (S, E) -- and the list of inadmissible cells if `with_errors`"""
    act, goto, prods, terminals, nstates = _tables(parser)
    S = {(s, a): 0 for s in range(nstates) for a in terminals}
    E = {}
    errors = set()

    def preds(b):
        return sorted((a, mask) for (a, b2), mask in E.items() if b2 == b)

    changed = True
    while changed:
        changed = False

        def edge_add(a, b, mask):
            nonlocal changed
            if (a, b) not in E:
                E[(a, b)] = 0
                changed = True
            if E[(a, b)] | mask != E[(a, b)]:
                E[(a, b)] |= mask
                changed = True

        def top_add(s, a, mask):
            nonlocal changed
            if S[(s, a)] | mask != S[(s, a)]:
                S[(s, a)] |= mask
                changed = True

        for s in range(nstates):
            for a in terminals:
                v = act.get(s, {}).get(a)
                if v is None or v == 0:
                    continue
                if v > 0:
                    if a == "$end":
                        continue
                    edge_add(s, v, S[(s, a)])
                    for a2 in terminals:
                        top_add(v, a2, tok_val_shape(a))
                else:
                    p = prods[-v]
                    if p.len == 0:
                        continue
                    for c1, acc in list(_walk(preds, p.len - 1, s, [S[(s, a)]])):
                        for (s0, m0) in preds(c1):
                            if any(x == 0 for x in acc):
                                continue
                            if not adm_set(p.func, acc):
                                errors.add((s, a, p.str, tuple(tuple(names_of(x)) for x in acc)))
                            g = goto.get(s0, {}).get(p.name)
                            if g is None:
                                errors.add((s, a, p.str, "no goto from %d" % s0))
                                continue
                            edge_add(s0, g, m0)
                            top_add(g, a, res_set(p.func, acc))
    if with_errors:
        return S, E, sorted(errors)
    return S, E


def check(parser, S, E):
    """python replica of `Luqum.certOK`; returns the list of failing cells"""
    act, goto, prods, terminals, nstates = _tables(parser)
    bad = []

    def preds(b):
        return sorted((a, mask) for (a, b2), mask in E.items() if b2 == b)

    for s in range(nstates):
        for a in terminals:
            v = act.get(s, {}).get(a)
            if v is None:
                continue
            if v == 0:
                if not sub(S[(s, a)], M_ITEMS):
                    bad.append((s, a, "accept"))
                continue
            if v > 0:
                if a == "$end":
                    continue
                ok = (s, v) in E and sub(S[(s, a)], E[(s, v)]) and all(
                    sub(tok_val_shape(a), S[(v, a2)]) for a2 in terminals)
                if not ok:
                    bad.append((s, a, "shift"))
            else:
                p = prods[-v]
                if p.len == 0:
                    continue
                for c1, acc in _walk(preds, p.len - 1, s, [S[(s, a)]]):
                    for (s0, m0) in preds(c1):
                        if any(x == 0 for x in acc):
                            continue
                        g = goto.get(s0, {}).get(p.name)
                        ok = (adm_set(p.func, acc) and g is not None and (s0, g) in E and
                              sub(m0, E[(s0, g)]) and sub(res_set(p.func, acc), S[(g, a)]))
                        if not ok:
                            bad.append((s, a, p.str, [names_of(x) for x in acc]))
    return bad


HEADER = "-- GENERATED by tools_absint.py from the live PLY tables of /repo's working tree. Do not edit.\n"


def emit_lean(parser):
    """text of Luqum/Generated/Cert.lean (deterministic)"""
    act, goto, prods, terminals, nstates = _tables(parser)
    S, E = certificate(parser)
    s_rows = ["  #[" + ", ".join(str(S[(s, a)]) for a in terminals) + "]" for s in range(nstates)]
    e_rows = []
    for b in range(nstates):
        ps = sorted((a, mask) for (a, b2), mask in E.items() if b2 == b)
        e_rows.append("  [" + ", ".join("(%d, %d)" % p for p in ps) + "]")
    legend = ", ".join("%d=%s" % (i, n) for i, n in enumerate(SHAPES))
    return HEADER + """namespace Luqum.Generated

/- shapes (bit positions of the masks): %s -/

/-- names of the shapes, by bit position (pinned against the Lean side by `Props.C03.cert_shapes`) -/
def certShapeNames : List String := [%s]
/-- `certS[s][t]`: shapes possible for the top value in state `s` with look-ahead terminal number `t`
(numbering of `terminals`) -/
def certS : Array (Array Nat) := #[
%s
]
/-- `certE[s']`: the states `s` that can lie directly below `s'` on the state stack, each with the
shapes possible for the value pushed together with `s` while `s'` is above it -/
def certE : Array (List (Nat × Nat)) := #[
%s
]

end Luqum.Generated
""" % (legend, ", ".join('"%s"' % n for n in SHAPES), ",\n".join(s_rows), ",\n".join(e_rows))


if __name__ == "__main__":
    import luqum.parser as P
    S, E, errs = certificate(P.parser, with_errors=True)
    print("edges", len(E), "inadmissible cells", len(errs))
    for e in errs[:20]:
        print("  ", e)
    print("check:", len(check(P.parser, S, E)))
