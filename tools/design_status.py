"""injects the per-property status (technique / what is proved / trusted) from tools/manifest.py into DESIGN.md
between <!-- STATUS:BEGIN --> and <!-- STATUS:END -->, plus the list of theorems per property file"""
import os
import re
import sys

VERIF = os.path.dirname(os.path.dirname(os.path.abspath(__file__)))
sys.path.insert(0, VERIF)
from tools import manifest  # noqa
from harness import common  # noqa

out = []
for pid in sorted(manifest.CLAIMED):
    tech, text, note, ref = manifest.CLAIMED[pid]
    import glob
    files = sorted(glob.glob(os.path.join(common.LEAN_DIR, "Luqum", "Props", pid + "*.lean")))
    names = []
    for f in files:
        names += [n.split(".")[-1] for n in common.theorem_names(f)]
    out.append("### %s\n*Decided by.* %s\n\n*What is established.* %s\n\n*Theorems in `lean/Luqum/Props/%s*.lean` (%d).* %s\n" % (
        pid, tech, text, pid, len(names), ", ".join("`%s`" % n for n in names)))
p = os.path.join(VERIF, "DESIGN.md")
s = open(p).read()
b, e = "<!-- STATUS:BEGIN -->", "<!-- STATUS:END -->"
if b not in s:
    s += ("\n\n---------------------------------------------------------------------------------------------\n\n"
          "## 10. Per property: what is decided how, as merged (generated from tools/manifest.py and the Props files)\n\n"
          + b + "\n" + e + "\n")
i, j = s.index(b) + len(b), s.index(e)
s = s[:i] + "\n" + "\n".join(out) + s[j:]
open(p, "w").write(s)
print("DESIGN.md status: %d properties" % len(out))
