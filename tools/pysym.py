"""pysym -- symbolic execution of a small subset of Python into Lean 4 terms.
This is the *code* translator (the rest of tools/translate.py translates data). It interprets the AST of functions of
/repo's working tree -- the parser's semantic actions `p_*`, `HeadTailManager`, `create_operation`,
`group_to_fieldgroup`, the `__init__` methods of `luqum.tree` -- on symbolic inputs and writes, for every grammar
production, the function it computes as a Lean definition over the model's data types (`Tree`, `Lay`, `Str`).
`lean/Luqum/Props/GenActions.lean` then proves that the hand-written model (`Luqum.act`) is equal to the generated
function: the tie between `Model/Parser.lean` and `luqum/parser.py` + `luqum/head_tail.py` + `create_operation` is a
theorem re-checked on every run, not a sampled comparison.
What is interpreted: assignments (names, attributes, `p[i]`), augmented assignments, `if`, `pass`, `return`, `raise`,
`try/except`, expression statements; names, constants, attributes, subscripts and slices of the production list,
calls (functions and methods defined in luqum are interpreted recursively; classes of luqum.tree are instantiated by
interpreting their `__init__` along the MRO, `super()` included; `len`, `sum`, `isinstance`), `+ - %`, `and or not`,
comparisons (`is`, `is not`, `==`, `!=`, `in`), generator expressions and list displays over lists of known length,
starred arguments.
Symbolic values: strings (concatenations of literals and variables), integers (linear terms over variables and
lengths), optional integers / strings, booleans, heap objects (items and token values, mutable attributes, identity
preserved), lists with symbolic segments (the operands of an operation of unknown length).
Branching on something symbolic (is it None?  is it an instance of this class?  is the string empty?  is the list
empty?  did the numeric conversion fail?) forks the path; all paths are enumerated by re-execution under a decision
oracle and assembled into a decision tree (`match` / `if` in Lean); equal subtrees are merged.
Primitives (NOT interpreted, listed in the trusted base): the numeric conversions done by the constructors of `Fuzzy`,
`Proximity` and `Boost` (`Decimal(str).normalize()`, `int(str)`: they succeed or raise `InvalidOperation` /
`ValueError`), the correspondence between luqum classes and the constructors of the model's `Tree`.
Anything outside the subset raises `Untranslatable`: the generated file then does not define the function, the Lean
obligation breaks and the check searches for a failing input (a harmless rewrite can do that too: it is not a verdict).
"""
import ast
import inspect
import textwrap
import types

class Untranslatable(Exception):
    pass

class PyRaise(Exception):
    """an exception raised by the interpreted program"""
    def __init__(self, cls, payload=None):
        Exception.__init__(self, cls.__name__)
        self.cls = cls
        self.payload = payload

class _Break(Exception):
    pass


class _Return(Exception):
    def __init__(self, value):
        self.value = value

# ---------------------------------------------------------------------------------------------
# Lean literals
# ---------------------------------------------------------------------------------------------
def lean_char(c):
    o = ord(c)
    if c == "'":
        return "'\\''"
    if c == "\\":
        return "'\\\\'"
    if o < 0x20 or o == 0x7f:
        return "'\\x%02x'" % o
    return "'%s'" % c

def lean_strlit(s):
    if s == "":
        return "([] : Str)"
    return "[" + ", ".join(lean_char(c) for c in s) + "]"

def lean_string(s):
    out = ['"']
    for ch in s:
        if ch == '"':
            out.append('\\"')
        elif ch == "\\":
            out.append("\\\\")
        elif ch == "\n":
            out.append("\\n")
        else:
            out.append(ch)
    out.append('"')
    return "".join(out)

# ---------------------------------------------------------------------------------------------
# symbolic values
# ---------------------------------------------------------------------------------------------
class SStr:
    """concatenation of literal and variable parts"""
    def __init__(self, parts):
        norm = []
        for k, v in parts:
            if k == "lit":
                if v == "":
                    continue
                if norm and norm[-1][0] == "lit":
                    norm[-1] = ("lit", norm[-1][1] + v)
                    continue
            norm.append((k, v))
        self.parts = norm
    @staticmethod
    def var(lean):
        return SStr([("var", lean)])
    def lean(self):
        if not self.parts:
            return "([] : Str)"
        ps = [lean_strlit(v) if k == "lit" else v for k, v in self.parts]
        return ps[0] if len(ps) == 1 else "(" + " ++ ".join(ps) + ")"

def str_parts(v):
    if isinstance(v, str):
        return [("lit", v)]
    if isinstance(v, SStr):
        return list(v.parts)
    raise Untranslatable("not a string: %r" % (v,))

def str_cat(a, b):
    if isinstance(a, str) and isinstance(b, str):
        return a + b
    return SStr(str_parts(a) + str_parts(b))

def str_lean(v):
    return lean_strlit(v) if isinstance(v, str) else v.lean()

class SInt:
    def __init__(self, op, *args):
        self.op = op
        self.args = args
    def lean(self):
        if self.op in ("var", "nonzero"):
            return self.args[0]
        if self.op == "len":
            return "((%s).length : Int)" % str_lean(self.args[0])
        if self.op == "getD":
            return "((%s).getD %d)" % (self.args[0], self.args[1])
        a, b = (int_lean(x) for x in self.args)
        return "(%s %s %s)" % (a, "+" if self.op == "add" else "-", b)

def nat_lean(v):
    if isinstance(v, bool):
        raise Untranslatable("bool used as a position")
    if isinstance(v, int) and v >= 0:
        return "%d" % v
    if isinstance(v, SInt) and v.op == "var":
        return v.args[0]
    raise Untranslatable("not a position: %r" % (v,))

def int_lean(v):
    if isinstance(v, bool):
        raise Untranslatable("bool used as int")
    if isinstance(v, int):
        return "(%d : Int)" % v
    if isinstance(v, SInt):
        return v.lean()
    raise Untranslatable("not an integer: %r" % (v,))

class SOpt:
    """an optional value that is a variable of the generated function (`none` / `some` not yet known)"""
    def __init__(self, lean, ty):
        self.lean_name = lean
        self.ty = ty          # "int" | "str"
    def lean(self):
        return self.lean_name

class SBool:
    def __init__(self, lean):
        self.lean_text = lean
    def lean(self):
        return self.lean_text

def bool_lean(v):
    if isinstance(v, bool):
        return "true" if v else "false"
    if isinstance(v, SBool):
        return v.lean()
    raise Untranslatable("not a boolean: %r" % (v,))

class Obj:
    """heap object: an item of luqum.tree or a TokenValue. `lean` is the name of the variable of the generated
    function it stands for (None for objects the program creates); `cls` None = an item of unknown class"""
    def __init__(self, cls, lean=None, lay=None):
        self.cls = cls
        self.lean = lean
        self.lay = lay              # lean expression of the Lay it started with (None for new objects)
        self.attrs = {}
        self.written = set()
        self.pattern_vars = None    # after a successful isinstance test on an unknown item

class ListObj:
    """list / tuple; segments are ("elem", value) or ("sym", lean name of a `List Tree` variable)"""
    def __init__(self, segs=()):
        self.segs = list(segs)

class LMap:
    """a segment `[stage_n(... stage_1(x)) for x in src]` of a list, over a symbolic source list of unknown length.
    A stage takes the value built so far for one element and returns the new value (it may mutate the object it
    gets). The object is shared by every list (slice) that holds this segment, so that a loop over a slice that
    edits the elements in place is seen through the original list too."""

    def __init__(self, src, stages=()):
        self.src = src                  # lean name of a `List Tree` variable
        self.stages = list(stages)

    def build(self, interp, elem):
        v = elem
        for st in self.stages:
            v = st(v)
        return v


class MapList:
    """the values of a comprehension over a list with symbolic segments (strings only)"""

    def __init__(self, parts):
        self.parts = parts

    def lean(self):
        chunks = []
        cur = []
        for p in self.parts:
            if p[0] == "elem":
                cur.append(str_lean(p[1]))
            else:
                if cur:
                    chunks.append("[" + ", ".join(cur) + "]")
                    cur = []
                chunks.append("(%s.map fun %s => %s)" % (p[1], p[2], str_lean(p[3])))
        if cur or not chunks:
            chunks.append("[" + ", ".join(cur) + "]")
        return chunks[0] if len(chunks) == 1 else "(" + " ++ ".join(chunks) + ")"


class SColl:
    """a list / set of strings that is a variable (or an expression) of the generated function"""

    def __init__(self, lean):
        self.lean_text = lean

    def lean(self):
        return self.lean_text


class SOptColl:
    """an optional collection of strings (`None` or a list / set)"""

    def __init__(self, lean):
        self.lean_name = lean


class SPath:
    """a path: a tuple of child positions of unknown length (a `List Nat` expression of the generated function)"""

    def __init__(self, lean):
        self.lean_text = lean

    def lean(self):
        return self.lean_text


class SPathSet:
    """a set / list of paths given by the caller (a `List (List Nat)` variable): only membership is used"""

    def __init__(self, lean):
        self.lean_text = lean

    def lean(self):
        return self.lean_text


class SPathList:
    """a set / list of paths BUILT by the function (`List (List Nat)`): a heap object, so that `target = a if c else b;
    target.add(p)` reaches the right one. A python set is read as the list of its elements in insertion order."""

    def __init__(self, text):
        self.text = text

    def lean(self):
        return self.text


class SBoolList:
    """a list of booleans of unknown length (`List Bool`)"""

    def __init__(self, text):
        self.text = text

    def lean(self):
        return self.text


def boollist_lean(v):
    if isinstance(v, SBoolList):
        return v.text
    if isinstance(v, ListObj) and all(k == "elem" and isinstance(x, (bool, SBool)) for k, x in v.segs):
        return "[" + ", ".join(bool_lean(x) for _, x in v.segs) + "]"
    raise Untranslatable("not a list of booleans: %r" % (v,))


class _LoopExit(Exception):
    """(translation of one iteration of a `while`) the iteration is over: `again` tells whether the body ran"""

    def __init__(self, again, values):
        self.again = again
        self.values = values


class ReRes:
    """result of `pattern.match(s)` / `pattern.search(s)` on a symbolic string: only its being None or not is used"""

    def __init__(self, lean):
        self.lean_text = lean


class NumVal:
    """the number of a Fuzzy / Proximity / Boost (a variable `n : Num` of the generated function)"""

    def __init__(self, lean, is_decimal):
        self.lean_name = lean
        self.is_decimal = is_decimal


class SuperProxy:
    def __init__(self, cls, obj):
        self.cls = cls
        self.obj = obj

class BoundMethod:
    def __init__(self, obj, fn, owner):
        self.obj = obj
        self.fn = fn
        self.owner = owner

class ExcVal:
    def __init__(self, cls, args):
        self.cls = cls
        self.args = args

class Fmt:
    """`fmt % args` with symbolic arguments"""
    def __init__(self, fmt, args):
        self.fmt = fmt
        self.args = args

LAY_ATTRS = ("head", "tail", "pos", "size")
# luqum class -> (Lean constructor prefix, [child / own attributes in constructor order])
CLASS_TABLE = {
    "Word": ("Tree.term TermK.word", ["value"]),
    "Phrase": ("Tree.term TermK.phrase", ["value"]),
    "Regex": ("Tree.term TermK.regex", ["value"]),
    "SearchField": ("Tree.field", ["name", "expr"]),
    "Group": ("Tree.group GrpK.group", ["expr"]),
    "FieldGroup": ("Tree.group GrpK.fieldGroup", ["expr"]),
    "Range": ("Tree.range", ["low", "high", "include_low", "include_high"]),
    "AndOperation": ("Tree.op OpK.and", ["operands"]),
    "OrOperation": ("Tree.op OpK.or", ["operands"]),
    "UnknownOperation": ("Tree.op OpK.unk", ["operands"]),
    "BoolOperation": ("Tree.op OpK.bool", ["operands"]),
    "Plus": ("Tree.unary UnK.plus", ["a"]),
    "Not": ("Tree.unary UnK.not", ["a"]),
    "Prohibit": ("Tree.unary UnK.prohibit", ["a"]),
    "From": ("Tree.orange ORK.from", ["a", "include"]),
    "To": ("Tree.orange ORK.to", ["a", "include"]),
    # numeric classes: the number is a primitive (see PRIM_NUM)
    "Fuzzy": ("Tree.approx ApxK.fuzzy", ["term", "@num"]),
    "Proximity": ("Tree.approx ApxK.proximity", ["term", "@num"]),
    "Boost": ("Tree.boost", ["expr", "@num"]),
    "NoneItem": ("Tree.none", []),
}
ATTR_KIND = {"value": "str", "name": "str", "expr": "tree", "low": "tree", "high": "tree", "a": "tree",
             "term": "tree", "operands": "trees", "include_low": "bool", "include_high": "bool", "include": "bool"}
# numeric constructors: (Lean primitive : Option Str -> Option Num, exception the real constructor raises)
PRIM_NUM = {"Fuzzy": ("PyPrim.fuzzyNum", "InvalidOperation"),
            "Boost": ("PyPrim.boostNum", "InvalidOperation"),
            "Proximity": ("PyPrim.proximityNum", "ValueError")}

# ---------------------------------------------------------------------------------------------
# decision oracle
# ---------------------------------------------------------------------------------------------
class Oracle:
    def __init__(self, prefix):
        self.prefix = list(prefix)
        self.trace = []
    def choose(self, desc, n):
        i = len(self.trace)
        c = self.prefix[i] if i < len(self.prefix) else 0
        self.trace.append((desc, n, c))
        return c

def explore(run, limit=600):
    """enumerate all paths of `run(oracle)`; returns [(trace, result)]"""
    paths = []
    prefix = []
    while True:
        o = Oracle(prefix)
        res = run(o)
        paths.append((o.trace, res))
        if len(paths) > limit:
            raise Untranslatable("too many paths")
        t = list(o.trace)
        while t and t[-1][2] == t[-1][1] - 1:
            t.pop()
        if not t:
            return paths
        prefix = [c for (_, _, c) in t[:-1]] + [t[-1][2] + 1]

# ---------------------------------------------------------------------------------------------
# interpreter
# ---------------------------------------------------------------------------------------------
_SRC_CACHE = {}


def _is_generator(node):
    """does the function body contain a yield of its own (not inside a nested def / lambda)?"""
    stack = list(node.body)
    while stack:
        n = stack.pop()
        if isinstance(n, (ast.Yield, ast.YieldFrom)):
            return True
        if isinstance(n, (ast.FunctionDef, ast.Lambda, ast.ClassDef)):
            continue
        stack.extend(ast.iter_child_nodes(n))
    return False

def func_ast(fn):
    if fn not in _SRC_CACHE:
        fn0 = inspect.unwrap(fn) if False else fn
        src = textwrap.dedent(inspect.getsource(fn0.__code__))
        node = ast.parse(src).body[0]
        if not isinstance(node, ast.FunctionDef):
            raise Untranslatable("not a plain function: %r" % (fn,))
        _SRC_CACHE[fn] = node
    return _SRC_CACHE[fn]

class Frame:
    def __init__(self, fn, owner, self_obj):
        self.fn = fn
        self.globals = fn.__globals__
        self.locals = {}
        self.owner = owner          # class defining the method (for super())
        self.self_obj = self_obj

class Interp:
    def __init__(self, oracle, modules_ok=("luqum",), rec_hooks=None):
        self.o = oracle
        self.rec_hooks = rec_hooks or {}
        self.singletons = {}
        self.known = {}
        self.counter = 0
        self.depth = 0
        self.modules_ok = modules_ok
    def fresh(self, base):
        self.counter += 1
        return "%s%d" % (base, self.counter)
    # ---- forking helpers
    def decide(self, key, desc, n):
        if key in self.known:
            return self.known[key]
        c = self.o.choose(desc, n)
        self.known[key] = c
        return c
    def resolve_opt(self, v):
        """SOpt -> python None | SInt/SStr variable, forking if not known yet"""
        if not isinstance(v, SOpt):
            return v
        key = ("opt", v.lean_name)
        if key not in self.known:
            x = self.fresh("x")
            c = self.o.choose(("issome", v.lean_name, x), 2)
            self.known[key] = (c, x)
        c, x = self.known[key]
        if c == 1:
            return None
        return SInt("var", x) if v.ty == "int" else SStr.var(x)
    def truth(self, v):
        if v is None or isinstance(v, (bool, int, str)):
            return bool(v)
        if isinstance(v, SStr):
            if not v.parts:
                return False
            if any(k == "lit" for k, _ in v.parts):
                return True
            if len(v.parts) == 1:
                e = v.parts[0][1]
                return self.decide(("nonempty", e), ("nonempty", e), 2) == 0
            # a concatenation is non empty iff one part is
            for k, e in v.parts:
                if self.decide(("nonempty", e), ("nonempty", e), 2) == 0:
                    return True
            return False
        if isinstance(v, SOpt):
            r = self.resolve_opt(v)
            if r is None:
                return False
            if v.ty == "str":
                return self.truth(r)
            raise Untranslatable("truth value of a symbolic integer")
        if isinstance(v, SBool):
            return self.decide(("bool", v.lean()), ("bool", v.lean()), 2) == 0
        if isinstance(v, ReRes):
            return self.decide(("bool", v.lean_text), ("bool", v.lean_text), 2) == 0
        if isinstance(v, (SColl, SPath, SBoolList)):
            return self.decide(("nonempty", v.lean()), ("nonempty", v.lean()), 2) == 0
        if isinstance(v, ListObj) and getattr(self, "list_truth_decision", False) and len(v.segs) == 1 and \
                v.segs[0][0] == "sym":
            return self.decide(("nonempty", v.segs[0][1]), ("nonempty", v.segs[0][1]), 2) == 0
        if isinstance(v, ListObj):
            self.normalize_list(v)
            guard = 0
            while True:
                guard += 1
                if guard > 1000:
                    raise Untranslatable("truth value of a list does not terminate")
                if any(k == "elem" for k, _ in v.segs):
                    return True
                if not v.segs:
                    return False
                k, e = v.segs[-1]
                # (seen from its end: `xs and xs[-1]` then needs one case distinction only)
                self.list_back_case(e if k == "sym" else e.src)
                self.normalize_list(v)
        if isinstance(v, (Obj, ExcVal, types.FunctionType, type)):
            return True
        if isinstance(v, SInt):
            raise Untranslatable("truth value of a symbolic integer")
        return bool(v)
    def first_lazy(self, lst):
        """make the first element of `lst` concrete if the list starts with a lazy segment: forks on the source"""
        self.normalize_list(lst)
        while lst.segs and lst.segs[0][0] in ("sym", "lmap"):
            k, e = lst.segs[0]
            self.list_case(e if k == "sym" else e.src)
            self.normalize_list(lst)

    def cond_lean(self, v):
        """a truth value as a python bool or the text of a decidable Lean proposition"""
        if v is None or isinstance(v, (bool, int, str)):
            return bool(v)
        if isinstance(v, SStr):
            if any(k == "lit" for k, _ in v.parts):
                return True
            if not v.parts:
                return False
            return "(%s ≠ [])" % v.lean()
        if isinstance(v, SBool):
            return "(%s = true)" % v.lean()
        if isinstance(v, tuple) and v and v[0] == "notcond":
            return v[1]
        raise Untranslatable("condition %r" % (v,))

    def list_back_case(self, name):
        """symbolic list variable seen from its end: None if empty on this path, else (last Obj, lean of the rest)"""
        if ("list", name) in self.known and self.known[("list", name)] is None:
            return None
        key = ("listback", name)
        if key not in self.known:
            y = self.fresh("y")
            c = self.o.choose(("listback", name, y), 2)
            self.known[key] = None if c == 1 else (Obj(None, lean=y, lay="%s.lay" % y), "(%s).dropLast" % name)
        return self.known[key]

    def last_lazy(self, lst):
        """make the last element of `lst` concrete if the list ends with a lazy segment"""
        self.normalize_list(lst)
        guard = 0
        while lst.segs and lst.segs[-1][0] in ("sym", "lmap"):
            k, e = lst.segs[-1]
            self.list_back_case(e if k == "sym" else e.src)
            self.normalize_list(lst)
            guard += 1
            if guard > 1000:
                raise Untranslatable("back indexing does not terminate")

    def list_case(self, name):
        """symbolic list variable: None if empty on this path, else (head Obj, tail name)"""
        key = ("list", name)
        if key not in self.known:
            x, r = self.fresh("x"), self.fresh("r")
            c = self.o.choose(("listcase", name, x, r), 2)
            self.known[key] = None if c == 1 else (Obj(None, lean=x, lay="%s.lay" % x), r)
        return self.known[key]
    def normalize_list(self, lst):
        """expand symbolic segments whose shape is known on this path"""
        changed = True
        while changed:
            changed = False
            segs = []
            for k, e in lst.segs:
                if k == "sym" and ("list", e) in self.known:
                    kc = self.known[("list", e)]
                    if kc is not None:
                        segs.append(("elem", kc[0]))
                        segs.append(("sym", kc[1]))
                    changed = True
                elif k == "sym" and ("listback", e) in self.known:
                    kc = self.known[("listback", e)]
                    if kc is not None:
                        segs.append(("sym", kc[1]))
                        segs.append(("elem", kc[0]))
                    changed = True
                elif k == "lmap" and ("list", e.src) not in self.known and ("listback", e.src) in self.known:
                    kc = self.known[("listback", e.src)]
                    if kc is not None:
                        if ("lmaplast", id(e)) not in self.known:
                            self.known[("lmaplast", id(e))] = (LMap(kc[1], e.stages), e.build(self, kc[0]))
                        init, last = self.known[("lmaplast", id(e))]
                        init.stages = e.stages
                        segs.append(("lmap", init))
                        segs.append(("elem", last))
                    changed = True
                elif k == "lmap" and ("list", e.src) in self.known:
                    kc = self.known[("list", e.src)]
                    if kc is not None:
                        if ("lmaphead", id(e)) not in self.known:
                            self.known[("lmaphead", id(e))] = (e.build(self, kc[0]), LMap(kc[1], e.stages))
                        hd, rest = self.known[("lmaphead", id(e))]
                        rest.stages = e.stages      # stages added later through either name apply to both
                        segs.append(("elem", hd))
                        segs.append(("lmap", rest))
                    changed = True
                else:
                    segs.append((k, e))
            lst.segs = segs
    def isinstance_(self, v, cls):
        if isinstance(cls, tuple):
            return any(self.isinstance_(v, c) for c in cls)
        if isinstance(cls, ListObj):
            return any(self.isinstance_(v, c) for k, c in cls.segs if k == "elem")
        if isinstance(v, Obj):
            if v.cls is not None:
                return issubclass(v.cls, cls)
            if cls.__name__ not in CLASS_TABLE:
                raise Untranslatable("isinstance(<item>, %s)" % cls.__name__)
            key = ("isinstance", v.lean, cls.__name__)
            if key not in self.known:
                prefix, fields = CLASS_TABLE[cls.__name__]
                names = [self.fresh(f[:2].strip("@_")) for f in fields]
                layv = self.fresh("l")
                c = self.o.choose(("isinstance", v.lean, cls.__name__, tuple(names), layv), 2)
                self.known[key] = c
                if c == 0:
                    v.cls = cls
                    v.pattern_vars = (tuple(names), layv)
                    for f, n in zip(fields, names):
                        kind = ATTR_KIND.get(f)
                        if kind == "tree":
                            v.attrs[f] = Obj(None, lean=n, lay="%s.lay" % n)
                        elif kind == "trees":
                            v.attrs[f] = ListObj([("sym", n)])
                        elif kind == "str":
                            v.attrs[f] = SStr.var(n)
                        elif kind == "bool":
                            v.attrs[f] = SBool(n)
                        else:
                            v.attrs[f] = ("@num", n)
                    # the layout attributes not read so far now come from the bound layout
                    v.lay = layv
            return self.known[key] == 0
        if isinstance(v, NumVal):
            import decimal
            if cls is decimal.Decimal:
                return v.is_decimal
            if cls is int:
                return not v.is_decimal
            raise Untranslatable("isinstance(<number>, %s)" % cls.__name__)
        if isinstance(v, (SStr, SInt, SBool, SOpt, ListObj)):
            return False
        return isinstance(v, cls)
    # ---- attribute access
    def getattr_(self, v, name, frame):
        if isinstance(v, SPathList) and name in ("update", "add"):
            return ("plmethod", name, v)
        if isinstance(v, SBoolList) and name == "append":
            return ("blmethod", name, v)
        if isinstance(v, Obj):
            if name in v.attrs:
                return v.attrs[name]
            if name == "__class__" and v.cls is not None:
                return v.cls
            if name in LAY_ATTRS and v.lay is not None:
                if name in ("head", "tail"):
                    val = SStr.var("%s.%s" % (v.lay, name))
                else:
                    val = SOpt("%s.%s" % (v.lay, name), "int")
                v.attrs[name] = val
                return val
            if v.cls is None:
                if name in self.rec_hooks:
                    return ("rechook", name, v)
                raise Untranslatable("attribute %s of an item of unknown class" % name)
            return self.class_attr(v, v.cls, name, v.cls.__mro__)
        if isinstance(v, SuperProxy):
            mro = v.obj.cls.__mro__ if isinstance(v.obj, Obj) else type(v.obj).__mro__
            rest = mro[mro.index(v.cls) + 1:]
            return self.class_attr(v.obj, None, name, rest)
        if isinstance(v, ListObj):
            if name == "extend":
                return ("listmethod", "extend", v)
            if name == "append":
                return ("listmethod", "append", v)
            raise Untranslatable("list.%s" % name)
        if isinstance(v, (str, SStr)) and name == "join":
            return ("strmethod", "join", v)
        if isinstance(v, str) and name in ("isupper", "islower", "lower", "upper", "lstrip", "rstrip", "strip"):
            return getattr(v, name)
        if isinstance(v, type) and name in ("mro", "__name__", "__mro__"):
            return getattr(v, name)
        if isinstance(v, Obj) and name == "__class__" and v.cls is not None:
            return v.cls
        if type(v).__name__ == "Pattern" and name in ("match", "search", "fullmatch"):
            return ("remethod", name, v.pattern)
        if isinstance(v, (str, SStr)) and name in ("endswith", "startswith", "split", "format"):
            return ("strmethod", name, v)
        if isinstance(v, dict) and name in ("update", "get"):
            return ("dictmethod", name, v)
        if isinstance(v, NumVal) and name == "normalize" and v.is_decimal:
            return ("nummethod", "normalize", v)
        if isinstance(v, (SStr, SInt, SOpt, SBool)):
            raise Untranslatable("attribute %s of a symbolic scalar" % name)
        if isinstance(v, (str, int, float, bool)) or v is None:
            raise Untranslatable("attribute %s of a constant" % name)
        # a concrete python object of the implementation (module, singleton instance, class)
        if not hasattr(v, name):
            raise AttributeError(name)
        val = getattr(v, name)
        if isinstance(val, types.MethodType) and val.__self__ is v and isinstance(val.__func__, types.FunctionType):
            owner = next(c for c in type(v).__mro__ if name in c.__dict__)
            return BoundMethod(v, val.__func__, owner)
        return self.wrap(val)
    def class_attr(self, obj, _cls, name, mro):
        for c in mro:
            if name in c.__dict__:
                raw = c.__dict__[name]
                if isinstance(raw, types.FunctionType):
                    return BoundMethod(obj, raw, c)
                if isinstance(raw, property):
                    return self.call_function(raw.fget, [obj], {}, owner=c, self_obj=obj)
                if isinstance(raw, classmethod):
                    return BoundMethod(obj.cls if isinstance(obj, Obj) else type(obj), raw.__func__, c)
                if isinstance(raw, staticmethod):
                    raise Untranslatable("staticmethod %s" % name)
                return self.wrap(raw)
        raise Untranslatable("no attribute %s" % name)
    def wrap(self, val):
        if val is None or isinstance(val, (bool, int, str, dict, types.FunctionType, type, types.ModuleType)):
            return val
        if isinstance(val, (list, tuple)):
            return ListObj([("elem", self.wrap(x)) for x in val])
        if isinstance(val, float):
            raise Untranslatable("float")
        if type(val).__module__ == "luqum.tree" and type(val).__name__ in CLASS_TABLE and \
                type(val).__name__ != "NoneItem" and hasattr(val, "__dict__"):
            # a concrete item held by the library itself (e.g. `OpenRangeTransformer.WILDCARD_WORD`): one heap object
            # with the attributes it really has
            if id(val) not in self.singletons:
                o = Obj(type(val))
                self.singletons[id(val)] = o
                for k, v in vars(val).items():
                    o.attrs[k] = self.wrap(v)
            return self.singletons[id(val)]
        if type(val).__name__ == "NoneItem" and type(val).__module__ == "luqum.tree":
            # the NONE_ITEM singleton: one heap object per run, the model's constant `noneItem`
            if id(val) not in self.singletons:
                self.singletons[id(val)] = Obj(type(val), lean="noneItem", lay="noneItem.lay")
            return self.singletons[id(val)]
        return val       # opaque instance of the implementation (e.g. the HeadTailManager singleton)
    # ---- calls
    def call(self, f, args, kwargs, frame):
        if isinstance(f, BoundMethod):
            return self.call_function(f.fn, [f.obj] + args, kwargs, owner=f.owner, self_obj=f.obj)
        if isinstance(f, tuple) and f and f[0] == "rechook":
            return self.rec_hooks[f[1]](self, f[2], args, kwargs)
        if isinstance(f, tuple) and f and f[0] == "strmethod" and f[1] == "split":
            if len(args) != 1 or not isinstance(args[0], str) or len(args[0]) != 1 or kwargs:
                raise Untranslatable("split with unusual arguments")
            if isinstance(f[2], str):
                return ListObj([("elem", x) for x in f[2].split(args[0])])
            return SColl("(PyPrim.splitOn %s %s)" % (lean_char(args[0]), str_lean(f[2])))
        if isinstance(f, tuple) and f and f[0] == "strmethod" and f[1] == "format":
            if args or not isinstance(f[2], str):
                raise Untranslatable("format with positional arguments / symbolic template")
            import re as _re
            out = ""
            pos = 0
            for m in _re.finditer(r"\{(\w+)\}", f[2]):
                out = str_cat(out, f[2][pos:m.start()])
                if m.group(1) not in kwargs or not isinstance(kwargs[m.group(1)], (str, SStr)):
                    raise Untranslatable("format field %s" % m.group(1))
                out = str_cat(out, kwargs[m.group(1)])
                pos = m.end()
            return str_cat(out, f[2][pos:])
        if isinstance(f, tuple) and f and f[0] == "strmethod" and f[1] in ("endswith", "startswith"):
            (x,) = args
            if isinstance(f[2], str) and isinstance(x, str):
                return getattr(f[2], f[1])(x)
            if not isinstance(x, str):
                raise Untranslatable("%s with a symbolic argument" % f[1])
            return SBool("(PyPrim.%s %s %s)" % ("endsWith" if f[1] == "endswith" else "startsWith",
                                                str_lean(f[2]), lean_strlit(x)))
        if isinstance(f, tuple) and f and f[0] == "strmethod":
            (seq,) = args
            if isinstance(seq, ListObj):
                self.normalize_list(seq)
                if not all(k == "elem" for k, _ in seq.segs):
                    raise Untranslatable("join over a list of unknown length")
                seq = [x for _, x in seq.segs]
            if isinstance(seq, list):
                if not seq:
                    return ""
                out = seq[0]
                for x in seq[1:]:
                    out = str_cat(str_cat(out, f[2]), x)
                return out
            if isinstance(seq, MapList):
                return SStr.var("(joinWith %s %s)" % (str_lean(f[2]), seq.lean()))
            if isinstance(seq, SColl):
                return SStr.var("(joinWith %s %s)" % (str_lean(f[2]), seq.lean()))
            raise Untranslatable("join of %r" % (seq,))
        import functools as _ft, math as _math
        if isinstance(f, _ft.partial) and f.func is _math.copysign and f.args == (1,) and not f.keywords and \
                len(args) == 1 and isinstance(args[0], NumVal):
            return ("signof", args[0])
        if isinstance(f, tuple) and f and f[0] == "remethod":
            (x,) = args
            if not isinstance(x, (str, SStr)):
                raise Untranslatable("regex on %r" % (x,))
            return ReRes("(PyPrim.re%s %s %s)" % (f[1].capitalize(), lean_string(f[2]), str_lean(x)))
        if isinstance(f, types.BuiltinMethodType) and isinstance(getattr(f, "__self__", None), (str, type)):
            if all(isinstance(a, (str, int, bool)) or a is None for a in args) and not kwargs:
                return self.wrap(f(*args))
            raise Untranslatable("method of a constant with symbolic arguments")
        if isinstance(f, tuple) and f and f[0] == "nummethod":
            v = f[2]
            return v if v.lean_name.startswith("(PyPrim.renorm ") else NumVal("(PyPrim.renorm %s)" % v.lean_name, True)
        if isinstance(f, tuple) and f and f[0] == "dictmethod":
            _, meth, d = f
            if meth == "get":
                if not isinstance(args[0], (str, int, bool)):
                    raise Untranslatable("dict.get with a symbolic key")
                return d.get(args[0], args[1] if len(args) > 1 else None)
            for a in args:
                if isinstance(a, dict):
                    d.update(a)
                elif isinstance(a, list):
                    for pair in a:
                        if not isinstance(pair, ListObj) or len(pair.segs) != 2 or \
                                not isinstance(pair.segs[0][1], str):
                            raise Untranslatable("dict.update with %r" % (pair,))
                        d[pair.segs[0][1]] = pair.segs[1][1]
                else:
                    raise Untranslatable("dict.update with %r" % (a,))
            d.update(kwargs)
            return None
        if isinstance(f, tuple) and f and f[0] == "plmethod":
            (x,) = args
            if f[1] == "update" and isinstance(x, SPathList):
                f[2].text = "(%s ++ %s)" % (f[2].text, x.text)
            elif f[1] == "add" and isinstance(x, SPath):
                f[2].text = "(%s ++ [%s])" % (f[2].text, x.lean())
            else:
                raise Untranslatable("set.%s(%r)" % (f[1], x))
            return None
        if isinstance(f, tuple) and f and f[0] == "blmethod":
            (x,) = args
            f[2].text = "(%s ++ [%s])" % (f[2].text, bool_lean(x))
            return None
        if isinstance(f, tuple) and f and f[0] == "listmethod":
            _, meth, lst = f
            if meth == "extend":
                (other,) = args
                if not isinstance(other, ListObj):
                    raise Untranslatable("extend with a non list")
                lst.segs.extend(other.segs)
            else:
                lst.segs.append(("elem", args[0]))
            return None
        if isinstance(f, types.FunctionType):
            if not (f.__module__ or "").startswith(self.modules_ok):
                raise Untranslatable("call of %s.%s" % (f.__module__, f.__name__))
            return self.call_function(f, args, kwargs, owner=None, self_obj=None)
        if isinstance(f, types.BuiltinFunctionType) or f in (len, sum, isinstance, format, getattr, setattr, iter):
            return self.call_builtin(f, args, kwargs)
        if isinstance(f, type):
            if issubclass(f, BaseException):
                return ExcVal(f, args)
            if f is super:
                if len(args) == 2 and isinstance(args[0], type) and args[1] is frame.self_obj:
                    return SuperProxy(args[0], args[1])
                if args:
                    raise Untranslatable("super with arguments")
                if frame.owner is None:
                    raise Untranslatable("super() outside a method")
                return SuperProxy(frame.owner, frame.self_obj)
            if f in (str, int, len, float):
                return self.call_builtin(f, args, kwargs)
            if f is enumerate and len(args) == 1 and not kwargs and isinstance(args[0], (ListObj, list)):
                lst = args[0]
                return ("enumerate", lst if isinstance(lst, ListObj) else ListObj([("elem", x) for x in lst]))
            if f is set and not args and not kwargs and getattr(self, "sets_are_paths", False):
                return SPathList("[]")
            if f in (tuple, list) and len(args) == 1 and isinstance(args[0], ListObj):
                return ListObj(list(args[0].segs))
            if f is list and len(args) == 1 and isinstance(args[0], list):
                return ListObj([("elem", x) for x in args[0]])
            if f is tuple and len(args) == 1 and isinstance(args[0], list):
                return ListObj([("elem", x) for x in args[0]])
            if f is zip and len(args) == 2:
                a, b = args
                def as_list(x):
                    if isinstance(x, ListObj):
                        self.normalize_list(x)
                        if not all(k == "elem" for k, _ in x.segs):
                            raise Untranslatable("zip over a list of unknown length")
                        return [e for _, e in x.segs]
                    if isinstance(x, list):
                        return x
                    raise Untranslatable("zip of %r" % (x,))
                return [ListObj([("elem", p), ("elem", q)]) for p, q in zip(as_list(a), as_list(b))]
            if f is dict:
                d = {}
                for a in args:
                    if not isinstance(a, dict):
                        raise Untranslatable("dict() of a non dict")
                    d.update(a)
                d.update(kwargs)
                return d
            if f is type and len(args) == 1:
                if isinstance(args[0], Obj) and args[0].cls is not None:
                    return args[0].cls
                raise Untranslatable("type() of %r" % (args[0],))
            if f.__name__ == "Decimal" and f.__module__ in ("decimal", "_decimal", "_pydecimal") and len(args) == 1 \
                    and isinstance(args[0], NumVal):
                return NumVal(args[0].lean_name, True)
            if (f.__module__ or "").startswith(self.modules_ok):
                return self.instantiate(f, args, kwargs)
            raise Untranslatable("call of class %s" % f.__name__)
        raise Untranslatable("call of %r" % (f,))
    def call_builtin(self, f, args, kwargs):
        if f is len:
            (a,) = args
            if isinstance(a, str):
                return len(a)
            if isinstance(a, SStr):
                return SInt("len", a)
            if isinstance(a, SColl):
                return SInt("var", "((%s).length : Int)" % a.lean())
            if isinstance(a, list):
                return len(a)
            if isinstance(a, ListObj):
                self.normalize_list(a)
                if all(k == "elem" for k, _ in a.segs):
                    return len(a.segs)
                n = sum(1 for k, _ in a.segs if k == "elem")
                out = n
                for k, x in a.segs:
                    if k == "sym":
                        out = SInt("add", out, SInt("var", "((%s).length : Int)" % x))
                return out
            raise Untranslatable("len of %r" % (a,))
        if f is sum:
            (a,) = args
            if not isinstance(a, list):
                raise Untranslatable("sum of a non list")
            total = 0
            for x in a:
                total = self.arith("add", total, x)
            return total
        if f is isinstance:
            return self.isinstance_(args[0], args[1])
        if f in (any, all) and len(args) == 1 and not kwargs:
            return SBool("((%s).%s id)" % (boollist_lean(args[0]), "any" if f is any else "all"))
        if f is iter and len(args) == 1 and isinstance(args[0], (ListObj, list)):
            return args[0]
        if f is getattr and len(args) == 3 and isinstance(args[1], str):
            o = args[0]
            if isinstance(o, Obj):
                if args[1] in o.attrs or (o.cls is not None and hasattr(o.cls, args[1])) or \
                        (args[1] in LAY_ATTRS and o.lay is not None):
                    return self.getattr_(o, args[1], None)
                if o.cls is None:
                    raise Untranslatable("getattr with a default on an item of unknown class")
                return args[2]
            try:
                return self.getattr_(o, args[1], None)
            except AttributeError:
                return args[2]
        if f is getattr and len(args) == 2 and isinstance(args[1], str):
            if isinstance(args[0], Obj) and args[0].cls is None and args[1] not in args[0].attrs \
                    and args[1] not in LAY_ATTRS:
                raise PyRaise(AttributeError)
            return self.getattr_(args[0], args[1], None)
        if f is setattr and len(args) == 3 and isinstance(args[1], str) and isinstance(args[0], Obj):
            args[0].attrs[args[1]] = args[2]
            args[0].written.add(args[1])
            return None
        if f is int and len(args) == 1 and isinstance(args[0], NumVal) and not args[0].is_decimal:
            return args[0]
        if f is float and len(args) == 1 and isinstance(args[0], NumVal):
            return ("float", args[0])
        if f is str:
            (a,) = args
            if isinstance(a, (str, SStr)):
                return a
            if isinstance(a, NumVal):
                return SStr.var("(PyPrim.str%s %s)" % ("Decimal" if a.is_decimal else "Int", a.lean_name))
            if isinstance(a, Obj) and "__str__" in self.rec_hooks:
                return self.rec_hooks["__str__"](self, a, [], {})
            raise Untranslatable("str() of %r" % (a,))
        if f is format:
            if len(args) == 2 and isinstance(args[0], NumVal) and args[1] == "f" and args[0].is_decimal:
                return SStr.var("(PyPrim.formatDecimalF %s)" % args[0].lean_name)
            raise Untranslatable("format(%r)" % (args,))
        raise Untranslatable("builtin %r" % (f,))
    def instantiate(self, cls, args, kwargs):
        if cls.__name__ in PRIM_NUM and cls.__module__ == "luqum.tree" and not kwargs and len(args) == 2 and \
                (args[1] is None or isinstance(args[1], (str, SStr)) or
                 (isinstance(args[1], SOpt) and args[1].ty == "str")):
            return self.instantiate_num(cls, args, kwargs)
        obj = Obj(cls)
        for c in cls.__mro__:
            if "__init__" in c.__dict__:
                init = c.__dict__["__init__"]
                if isinstance(init, types.FunctionType):
                    self.call_function(init, [obj] + args, kwargs, owner=c, self_obj=obj)
                break
        return obj
    def instantiate_num(self, cls, args, kwargs):
        """Fuzzy / Proximity / Boost: the numeric conversion is a primitive that yields a number or raises"""
        if kwargs or len(args) != 2:
            raise Untranslatable("%s(...) with unusual arguments" % cls.__name__)
        child, raw = args
        prim, exc_name = PRIM_NUM[cls.__name__]
        if raw is None:
            raw_lean = "none"
        elif isinstance(raw, SOpt) and raw.ty == "str":
            raw_lean = raw.lean()
        elif isinstance(raw, (str, SStr)):
            raw_lean = "(some %s)" % str_lean(raw)
        else:
            raise Untranslatable("numeric argument %r" % (raw,))
        key = ("prim", prim, raw_lean)
        if key not in self.known:
            n = self.fresh("n")
            c = self.o.choose(("prim", prim, raw_lean, n), 2)
            self.known[key] = (c, n)
        c, n = self.known[key]
        if c == 1:
            import decimal
            raise PyRaise(decimal.InvalidOperation if exc_name == "InvalidOperation" else ValueError)
        obj = Obj(cls)
        _, fields = CLASS_TABLE[cls.__name__]
        obj.attrs[fields[0]] = child
        obj.attrs["@num"] = ("@num", n)
        obj.attrs["head"] = ""
        obj.attrs["tail"] = ""
        obj.attrs["pos"] = None
        obj.attrs["size"] = None
        return obj
    def call_function(self, fn, args, kwargs, owner, self_obj):
        node = func_ast(fn)
        if node.decorator_list and not all(
                (isinstance(d, ast.Name) and d.id in ("property", "classmethod")) or
                (isinstance(d, ast.Attribute) and d.attr == "setter" and isinstance(d.value, ast.Name)) or
                (isinstance(d, ast.Call) and isinstance(d.func, ast.Attribute) and d.func.attr == "wraps") or
                (isinstance(d, ast.Name) and d.id.startswith("_check"))
                for d in node.decorator_list):
            raise Untranslatable("decorated function %s" % fn.__name__)
        frame = Frame(fn, owner, self_obj)
        frame.yields = ListObj([]) if _is_generator(node) else None
        self.bind(node, fn, frame, list(args), dict(kwargs))
        self.depth += 1
        if self.depth > 40:
            raise Untranslatable("recursion too deep")
        try:
            self.exec_block(node.body, frame)
        except _Return as r:
            return r.value if frame.yields is None else frame.yields
        finally:
            self.depth -= 1
        return frame.yields
    def bind(self, node, fn, frame, args, kwargs):
        a = node.args
        if a.posonlyargs or a.kwonlyargs:
            raise Untranslatable("positional-only / keyword-only parameters")
        names = [x.arg for x in a.args]
        defaults = list(fn.__defaults__ or ())
        first_default = len(names) - len(defaults)
        # a starred list with symbolic segments can only feed *args
        star_rest = None
        flat = []
        for x in args:
            if isinstance(x, tuple) and x and x[0] == "starred":
                lst = x[1]
                self.normalize_list(lst)
                if all(k == "elem" for k, _ in lst.segs):
                    flat.extend(e for _, e in lst.segs)
                else:
                    star_rest = lst
            else:
                if star_rest is not None:
                    raise Untranslatable("positional argument after a symbolic starred list")
                flat.append(x)
        for i, n in enumerate(names):
            if i < len(flat):
                if n in kwargs:
                    raise Untranslatable("multiple values for %s" % n)
                frame.locals[n] = flat[i]
            elif n in kwargs:
                frame.locals[n] = kwargs.pop(n)
            elif i >= first_default and star_rest is None:
                frame.locals[n] = self.wrap(defaults[i - first_default])
            else:
                raise Untranslatable("missing argument %s of %s" % (n, fn.__name__))
        extra = flat[len(names):]
        if a.vararg:
            segs = [("elem", e) for e in extra]
            if star_rest is not None:
                segs += list(star_rest.segs)
            frame.locals[a.vararg.arg] = ListObj(segs)
        elif extra or star_rest is not None:
            raise Untranslatable("too many positional arguments for %s" % fn.__name__)
        if a.kwarg:
            frame.locals[a.kwarg.arg] = dict(kwargs)
        elif kwargs:
            raise Untranslatable("unexpected keyword arguments %s for %s" % (sorted(kwargs), fn.__name__))
    # ---- statements
    def exec_block(self, stmts, frame):
        for s in stmts:
            self.exec_stmt(s, frame)
    def exec_stmt(self, s, frame):
        self.steps = getattr(self, "steps", 0) + 1
        if self.steps > 200000:
            raise Untranslatable("step budget exhausted")
        if isinstance(s, ast.Expr):
            if isinstance(s.value, ast.Constant) and isinstance(s.value.value, str):
                return      # docstring
            self.eval(s.value, frame)
        elif isinstance(s, ast.Assign):
            v = self.eval(s.value, frame)
            for t in s.targets:
                self.assign(t, v, frame)
        elif isinstance(s, ast.AugAssign):
            cur = self.eval(self.as_load(s.target), frame)
            v = self.eval(s.value, frame)
            self.assign(s.target, self.binop(s.op, cur, v), frame)
        elif isinstance(s, ast.If) and getattr(self, "merge_mode", 0):
            cond = self.cond_lean(self.eval(s.test, frame))
            if isinstance(cond, bool):
                self.exec_block(s.body if cond else s.orelse, frame)
            else:
                # per-element decision inside a loop over a list of unknown length: only `obj.attr = value` in the
                # branch, turned into `obj.attr = if cond then value else obj.attr`
                if s.orelse:
                    raise Untranslatable("if / else inside a loop over a list of unknown length")
                for st in s.body:
                    if not (isinstance(st, ast.Assign) and len(st.targets) == 1 and
                            isinstance(st.targets[0], ast.Attribute)):
                        raise Untranslatable("a conditional statement other than an attribute assignment inside a "
                                             "loop over a list of unknown length")
                    tgt = st.targets[0]
                    o = self.eval(tgt.value, frame)
                    if not isinstance(o, Obj):
                        raise Untranslatable("conditional assignment on %r" % (o,))
                    old = self.getattr_(o, tgt.attr, frame)
                    new = self.eval(st.value, frame)
                    if not isinstance(old, (str, SStr)) or not isinstance(new, (str, SStr)):
                        raise Untranslatable("conditional assignment of a non string")
                    o.attrs[tgt.attr] = SStr.var("(if %s then %s else %s)" % (cond, str_lean(new), str_lean(old)))
                    o.written.add(tgt.attr)
        elif isinstance(s, ast.If):
            if self.truth(self.eval(s.test, frame)):
                self.exec_block(s.body, frame)
            else:
                self.exec_block(s.orelse, frame)
        elif isinstance(s, ast.For) and isinstance(self.eval_enumerate(s, frame), tuple):
            self.exec_for_enumerate(s, frame, self._enum[1])
        elif isinstance(s, ast.For):
            it = self._enum if self._enum is not None else self.eval(s.iter, frame)
            if isinstance(it, list):
                it = ListObj([("elem", x) for x in it])
            if not isinstance(it, ListObj):
                raise Untranslatable("loop over %r" % (it,))
            self.normalize_list(it)
            broke = False
            for k, x in list(it.segs):
                if k == "elem":
                    self.assign(s.target, x, frame)
                    try:
                        self.exec_block(s.body, frame)
                    except _Break:
                        broke = True
                        break
                else:
                    if any(isinstance(n, ast.Break) for st in s.body for n in ast.walk(st)):
                        raise Untranslatable("break inside a loop over a list of unknown length")
                    self.loop_lazy(s, frame, k, x)
            if not broke:
                self.exec_block(s.orelse, frame)
        elif isinstance(s, ast.While):
            self.exec_while(s, frame)
        elif isinstance(s, ast.Break):
            raise _Break()
        elif isinstance(s, ast.Pass):
            pass
        elif isinstance(s, ast.Assert):
            if not self.truth(self.eval(s.test, frame)):
                raise PyRaise(AssertionError)
        elif isinstance(s, ast.Return):
            raise _Return(self.eval(s.value, frame) if s.value is not None else None)
        elif isinstance(s, ast.Raise):
            if s.exc is None:
                raise Untranslatable("bare raise")
            e = self.eval(s.exc, frame)
            if isinstance(e, type) and issubclass(e, BaseException):
                e = ExcVal(e, [])
            if not isinstance(e, ExcVal):
                raise Untranslatable("raise of %r" % (e,))
            raise PyRaise(e.cls, e.args)
        elif isinstance(s, ast.Try):
            if s.finalbody or s.orelse:
                raise Untranslatable("try with else / finally")
            try:
                self.exec_block(s.body, frame)
            except PyRaise as e:
                for h in s.handlers:
                    hcls = self.eval(h.type, frame) if h.type is not None else BaseException
                    ok = issubclass(e.cls, hcls) if not isinstance(hcls, ListObj) else False
                    if isinstance(hcls, ListObj):
                        ok = any(issubclass(e.cls, c) for _, c in hcls.segs)
                    if ok:
                        if h.name:
                            frame.locals[h.name] = ExcVal(e.cls, e.payload or [])
                        self.exec_block(h.body, frame)
                        break
                else:
                    raise
        else:
            raise Untranslatable("statement %s" % type(s).__name__)
    def eval_enumerate(self, s, frame):
        """evaluates the iterable of a `for` once; `self._enum` holds it (a pair ("enumerate", list) or the value)"""
        self._enum = self.eval(s.iter, frame)
        return self._enum if isinstance(self._enum, tuple) and self._enum and self._enum[0] == "enumerate" else None

    def exec_for_enumerate(self, s, frame, lst):
        """`for i, x in enumerate(xs): body`. Over a list of known length: unrolled. Over a list variable of unknown
        length: a fold. As for `while`, the effect of the whole loop on the variables it changes is the parameter
        `for<k>` of the generated definition, and ONE iteration (from any state, for any index and element) is a
        definition of its own, made by running the same function with `self.fold_body = k`."""
        self.normalize_list(lst)
        if s.orelse:
            raise Untranslatable("for / else over enumerate")
        if all(k == "elem" for k, _ in lst.segs):
            for i, (_, x) in enumerate(lst.segs):
                self.assign(s.target, ListObj([("elem", i), ("elem", x)]), frame)
                self.exec_block(s.body, frame)
            return
        if len(lst.segs) != 1 or lst.segs[0][0] != "sym":
            raise Untranslatable("enumerate over a partly known list")
        src = lst.segs[0][1]
        if any(isinstance(n, (ast.Break, ast.Continue, ast.Return, ast.Yield, ast.YieldFrom))
               for st in s.body for n in ast.walk(st)):
            raise Untranslatable("break / continue / return / yield in a loop over a list of unknown length")
        spec = getattr(self, "folds", None)
        if spec is None:
            raise Untranslatable("loop with a state over a list of unknown length (no description given)")
        idx = self.fold_count = getattr(self, "fold_count", -1) + 1
        if idx >= len(spec):
            raise Untranslatable("more such loops than described")
        if not (isinstance(s.target, ast.Tuple) and len(s.target.elts) == 2 and
                all(isinstance(e, ast.Name) for e in s.target.elts)):
            raise Untranslatable("target of a loop over enumerate")
        iname, xname = (e.id for e in s.target.elts)

        def lean_of(v, kind):
            if kind == "pathlist" and isinstance(v, SPathList):
                return v.text
            if kind == "boollist":
                return boollist_lean(v)
            raise Untranslatable("loop variable of kind %s holds %r" % (kind, v))

        def state_lean():
            parts = [lean_of(frame.locals[n], k) for n, k in spec[idx]]
            return "(%s)" % ", ".join(parts)

        def fresh(text, kind):
            return SPathList(text) if kind == "pathlist" else SBoolList(text)
        if getattr(self, "fold_body", None) == idx:
            self.o.choose(("loopstart",), 1)
            self.known = {}
            for n, kind in spec[idx]:
                frame.locals[n] = fresh(n, kind)
            frame.locals[iname] = SInt("var", "i")
            frame.locals[xname] = Obj(None, lean="child", lay="child.lay")
            self.exec_block(s.body, frame)
            raise _LoopExit(True, state_lean())
        res = "(for%d %s %s)" % (idx, state_lean(), src)
        n = len(spec[idx])
        proj = {1: [""], 2: [".1", ".2"], 3: [".1", ".2.1", ".2.2"]}.get(n)
        if proj is None:
            raise Untranslatable("a loop with more than three state variables")
        for (name, kind), pj in zip(spec[idx], proj):
            frame.locals[name] = fresh("%s%s" % (res, pj), kind)

    def exec_while(self, s, frame):
        """`while cond: body` over values of unknown size. The loop is not unrolled: its effect on the variables it
        assigns is the function `loop` the generated definition takes as a parameter (`self.loops[i]` describes the
        i-th loop met: the kinds of its variables); the translation of ONE iteration (test, then body) is a
        definition of its own, made by running the same function with `self.loop_body = i`: the variables then start
        as fresh unknowns, and the run ends after the test (false) or after the body."""
        if s.orelse or any(isinstance(n, (ast.Break, ast.Continue, ast.Return, ast.Yield, ast.YieldFrom))
                           for st in s.body for n in ast.walk(st)):
            raise Untranslatable("while with else / break / continue / return / yield")
        spec = getattr(self, "loops", None)
        if spec is None:
            raise Untranslatable("while loop (no loop description given)")
        idx = self.loop_count = getattr(self, "loop_count", -1) + 1
        if idx >= len(spec):
            raise Untranslatable("more while loops than described")
        names = [n for n, _ in spec[idx]]
        written = set()
        for st in s.body:
            for n in ast.walk(st):
                if isinstance(n, ast.Name) and isinstance(n.ctx, ast.Store):
                    written.add(n.id)
                elif isinstance(n, (ast.Attribute, ast.Subscript)) and isinstance(n.ctx, ast.Store):
                    raise Untranslatable("a while loop that assigns to attributes / items")
        if written != set(names):
            raise Untranslatable("the while loop assigns %s, described: %s" % (sorted(written), sorted(names)))

        def fresh_values(prefix):
            vals = []
            for n, kind in spec[idx]:
                if kind == "optstr":
                    vals.append(SOpt("%s%s" % (prefix, n), "str"))
                elif kind == "path":
                    vals.append(SPath("%s%s" % (prefix, n)))
                else:
                    raise Untranslatable("loop variable kind %s" % kind)
            return vals

        def lean_of(v, kind):
            if kind == "optstr":
                if v is None:
                    return "none"
                if isinstance(v, SOpt):
                    return v.lean()
                if isinstance(v, (str, SStr)):
                    return "(some %s)" % str_lean(v)
            elif kind == "path":
                if isinstance(v, SPath):
                    return v.lean()
                if isinstance(v, ListObj) and not v.segs:
                    return "[]"
            raise Untranslatable("loop variable of kind %s holds %r" % (kind, v))

        if getattr(self, "loop_body", None) == idx:
            # translation of one iteration: forget the decisions taken on the way to the loop
            self.o.choose(("loopstart",), 1)
            self.o.cut = len(self.o.trace)
            self.known = {}
            for (n, _), v in zip(spec[idx], fresh_values("")):
                frame.locals[n] = v
            again = self.truth(self.eval(s.test, frame))
            if again:
                self.exec_block(s.body, frame)
            raise _LoopExit(again, "(%s)" % ", ".join(lean_of(frame.locals[n], k) for n, k in spec[idx]))
        entry = "(%s)" % ", ".join(lean_of(frame.locals[n], k) for n, k in spec[idx])
        res = "(loop%d %s)" % (idx, entry)
        proj = [".1", ".2"] if len(names) == 2 else ([""] if len(names) == 1 else None)
        if proj is None:
            raise Untranslatable("a while loop with more than two variables")
        for (n, kind), pj in zip(spec[idx], proj):
            text = "%s%s" % (res, pj)
            frame.locals[n] = SOpt(text, "str") if kind == "optstr" else SPath(text)

    def loop_lazy(self, s, frame, kind, seg):
        """`for x in <segment of unknown length>: body`. The body is turned into a stage applied to every element:
        inside a generator what it yields for one element becomes the element of a new lazy segment of the
        generator's output; otherwise the body may only edit the element in place (the segment is shared)."""
        if not isinstance(s.target, ast.Name):
            raise Untranslatable("loop target over a list of unknown length")
        tname = s.target.id
        lm = seg if kind == "lmap" else None
        src = seg.src if kind == "lmap" else seg
        yields_in_body = any(isinstance(n, (ast.Yield, ast.YieldFrom)) for st in s.body for n in ast.walk(st))

        def run_body(value):
            saved = frame.yields
            saved_locals = dict(frame.locals)
            n0 = len(self.o.trace)
            self.merge_mode = getattr(self, "merge_mode", 0) + 1
            frame.yields = ListObj([]) if yields_in_body else saved
            try:
                frame.locals[tname] = value
                self.exec_block(s.body, frame)
                out = frame.yields
            finally:
                self.merge_mode -= 1
                frame.yields = saved
                frame.locals.clear()
                frame.locals.update(saved_locals)
            if len(self.o.trace) != n0:
                raise Untranslatable("branching inside a loop over a list of unknown length")
            return out
        if yields_in_body:
            if frame.yields is None:
                raise Untranslatable("yield outside a generator")

            def stage(value):
                out = run_body(value)
                self.normalize_list(out)
                if len(out.segs) == 1 and out.segs[0][0] == "elem":
                    return out.segs[0][1]
                return out              # a list per element: the segment is a flat map
            prev = list(lm.stages) if lm is not None else []
            frame.yields.segs.append(("lmap", LMap(src, prev + [stage])))
        else:
            if lm is None:
                raise Untranslatable("in-place loop over the items of an input list of unknown length")

            def stage(value):
                run_body(value)
                return value
            lm.stages.append(stage)

    @staticmethod
    def as_load(t):
        import copy
        t2 = copy.copy(t)
        t2.ctx = ast.Load()
        return t2
    def assign(self, t, v, frame):
        if isinstance(t, ast.Name):
            frame.locals[t.id] = v
        elif isinstance(t, ast.Attribute):
            o = self.eval(t.value, frame)
            if not isinstance(o, Obj):
                raise Untranslatable("attribute assignment on %r" % (o,))
            if o.cls is not None:
                for c in o.cls.__mro__:
                    if t.attr in c.__dict__:
                        raw = c.__dict__[t.attr]
                        if isinstance(raw, property):
                            if raw.fset is None:
                                raise PyRaise(AttributeError)
                            self.call_function(raw.fset, [o, v], {}, owner=c, self_obj=o)
                            return
                        break
            o.attrs[t.attr] = v
            o.written.add(t.attr)
        elif isinstance(t, ast.Subscript):
            o = self.eval(t.value, frame)
            i = self.eval(t.slice, frame)
            if isinstance(o, list) and isinstance(i, int):
                o[i] = v
            elif isinstance(o, dict) and isinstance(i, (str, int, bool)):
                o[i] = v
            else:
                raise Untranslatable("subscript assignment")
        elif isinstance(t, ast.Tuple):
            if isinstance(v, ListObj):
                self.normalize_list(v)
                vals = [x for k, x in v.segs if k == "elem"]
                if len(vals) != len(v.segs) or len(vals) != len(t.elts):
                    raise Untranslatable("tuple assignment of the wrong length")
            else:
                raise Untranslatable("tuple assignment from %r" % (v,))
            for tt, x in zip(t.elts, vals):
                self.assign(tt, x, frame)
        else:
            raise Untranslatable("assignment target %s" % type(t).__name__)
    # ---- expressions
    def arith(self, op, a, b):
        if isinstance(a, SOpt):
            a = self.resolve_opt(a)
        if isinstance(b, SOpt):
            b = self.resolve_opt(b)
        if a is None or b is None:
            raise PyRaise(TypeError)
        if isinstance(a, bool) or isinstance(b, bool):
            raise Untranslatable("arithmetic on booleans")
        if isinstance(a, int) and isinstance(b, int):
            return a + b if op == "add" else a - b
        if isinstance(a, (int, SInt)) and isinstance(b, (int, SInt)):
            return SInt(op, a, b)
        raise Untranslatable("arithmetic on %r, %r" % (a, b))
    def binop(self, op, a, b):
        if isinstance(op, ast.Add) and isinstance(a, SPath) and isinstance(b, ListObj):
            self.normalize_list(b)
            if any(k != "elem" for k, _ in b.segs):
                raise Untranslatable("path + a tuple of unknown length")
            return SPath("(%s ++ [%s])" % (a.lean(), ", ".join(nat_lean(x) for _, x in b.segs)))
        if isinstance(op, ast.Add) and isinstance(a, ListObj) and isinstance(b, ListObj):
            return ListObj(list(a.segs) + list(b.segs))
        if isinstance(op, ast.Add) and isinstance(a, SColl) and isinstance(b, SColl):
            return SColl("(%s ++ %s)" % (a.lean(), b.lean()))
        if isinstance(op, ast.Add) and isinstance(a, ListObj) and isinstance(b, SColl) and \
                all(k == "elem" and isinstance(x, (str, SStr)) for k, x in a.segs):
            if not a.segs:
                return SColl(b.lean())
            return SColl("([%s] ++ %s)" % (", ".join(str_lean(x) for _, x in a.segs), b.lean()))
        if isinstance(op, ast.Add):
            if isinstance(a, (str, SStr)) or isinstance(b, (str, SStr)):
                if isinstance(a, SOpt) or isinstance(b, SOpt):
                    a, b = self.resolve_opt(a), self.resolve_opt(b)
                    if a is None or b is None:
                        raise PyRaise(TypeError)
                if not (isinstance(a, (str, SStr)) and isinstance(b, (str, SStr))):
                    raise PyRaise(TypeError)
                return str_cat(a, b)
            return self.arith("add", a, b)
        if isinstance(op, ast.Sub):
            return self.arith("sub", a, b)
        if isinstance(op, ast.Mod):
            if isinstance(a, str):
                if isinstance(b, ListObj):
                    self.normalize_list(b)
                    items = [e for _, e in b.segs]
                else:
                    items = [b]
                if "__str__" in self.rec_hooks:
                    items = [self.rec_hooks["__str__"](self, x, [], {}) if isinstance(x, Obj) else x for x in items]
                pieces = a.split("%s")
                if "%" not in a.replace("%s", "") and len(pieces) == len(items) + 1 and \
                        all(isinstance(x, (str, SStr)) for x in items):
                    out = pieces[0]
                    for x, lit in zip(items, pieces[1:]):
                        out = str_cat(str_cat(out, x), lit)
                    return out
                return Fmt(a, items)
            raise Untranslatable("% on non strings")
        raise Untranslatable("operator %s" % type(op).__name__)
    def eval(self, e, frame):
        if isinstance(e, ast.Constant):
            if isinstance(e.value, float):
                raise Untranslatable("float constant")
            return e.value
        if isinstance(e, ast.Name):
            if e.id in frame.locals:
                return frame.locals[e.id]
            if e.id in frame.globals:
                return self.wrap(frame.globals[e.id])
            code = frame.fn.__code__
            if e.id in code.co_freevars and frame.fn.__closure__:
                return self.wrap(frame.fn.__closure__[code.co_freevars.index(e.id)].cell_contents)
            import builtins
            if hasattr(builtins, e.id):
                return getattr(builtins, e.id)
            raise Untranslatable("unknown name %s" % e.id)
        if isinstance(e, ast.Attribute):
            return self.getattr_(self.eval(e.value, frame), e.attr, frame)
        if isinstance(e, ast.Subscript):
            o = self.eval(e.value, frame)
            if isinstance(e.slice, ast.Slice):
                lo = self.eval(e.slice.lower, frame) if e.slice.lower else None
                hi = self.eval(e.slice.upper, frame) if e.slice.upper else None
                if e.slice.step is not None:
                    raise Untranslatable("slice with a step")
                if isinstance(o, (str, SStr)) and lo == 1 and hi == -1 and not isinstance(lo, bool):
                    if isinstance(o, str):
                        return o[1:-1]
                    return SStr.var("((%s).drop 1).dropLast" % o.lean())
                if isinstance(o, SPath):
                    if lo is None and hi == -1:
                        return SPath("(%s).dropLast" % o.lean())
                    raise Untranslatable("slice of a path other than [:-1]")
                if isinstance(o, ListObj) and hi == -1 and (lo is None or (isinstance(lo, int) and lo >= 0)):
                    # `xs[k:-1]`: the last element is made concrete first (fork on the end of a lazy segment), then the
                    # first k
                    self.last_lazy(o)
                    if not o.segs:
                        return ListObj([])
                    body = ListObj(list(o.segs[:-1]))
                    last = o.segs[-1]
                    k = 0
                    guard = 0
                    while k < (lo or 0):
                        guard += 1
                        if guard > 10000:
                            raise Untranslatable("slicing does not terminate")
                        self.normalize_list(body)
                        if k >= len(body.segs):
                            o.segs = body.segs + [last]
                            return ListObj([])
                        kind, x = body.segs[k]
                        if kind == "elem":
                            k += 1
                        else:
                            self.list_case(x if kind == "sym" else x.src)
                    self.normalize_list(body)
                    o.segs = body.segs + [last]
                    return ListObj(list(body.segs[(lo or 0):]))
                if isinstance(o, ListObj) and hi is None and isinstance(lo, int) and lo >= 0:
                    # `xs[k:]`: the first k elements must be concrete: forks on the shape of a lazy head segment; the
                    # original list is normalised in place, so the slice shares its (lazy) segments
                    k = 0
                    guard = 0
                    while True:
                        guard += 1
                        if guard > 10000:
                            raise Untranslatable("slicing does not terminate")
                        self.normalize_list(o)
                        if k >= len(o.segs):
                            return ListObj([])
                        if k == lo:
                            return ListObj(list(o.segs[k:]))
                        kind, x = o.segs[k]
                        if kind == "elem":
                            k += 1
                        else:
                            self.list_case(x if kind == "sym" else x.src)
                if not isinstance(o, list):
                    raise Untranslatable("slice")
                return o[lo:hi]
            i = self.eval(e.slice, frame)
            if isinstance(o, list):
                if not isinstance(i, int):
                    raise Untranslatable("symbolic index")
                if i >= len(o) or i < -len(o):
                    raise PyRaise(IndexError)
                return o[i]
            if isinstance(o, dict):
                if isinstance(i, (bool, int, str)):
                    if i not in o:
                        raise PyRaise(KeyError)
                    return self.wrap(o[i])
                if isinstance(i, SBool) and set(o.keys()) == {True, False} and \
                        all(isinstance(x, str) for x in o.values()):
                    return SStr.var("(if %s = true then %s else %s)" % (i.lean(), lean_strlit(o[True]),
                                                                          lean_strlit(o[False])))
                raise Untranslatable("symbolic dict key")
            if isinstance(o, ListObj) and i == -1:
                self.last_lazy(o)
                if not o.segs:
                    raise PyRaise(IndexError)
                return o.segs[-1][1]
            if isinstance(o, ListObj):
                if not isinstance(i, int) or i < 0:
                    raise Untranslatable("list index %r" % (i,))
                k = 0
                guard = 0
                while True:
                    self.normalize_list(o)
                    if k >= len(o.segs):
                        raise PyRaise(IndexError)
                    kind, x = o.segs[k]
                    if kind == "elem":
                        if k == i:
                            return x
                        k += 1
                    else:
                        self.list_case(x.src if kind == "lmap" else x)   # forks; normalize_list then expands / drops it
                    guard += 1
                    if guard > 10000:
                        raise Untranslatable("list indexing does not terminate")
            raise Untranslatable("subscript of %r" % (o,))
        if isinstance(e, ast.Call):
            f = self.eval(e.func, frame)
            args = []
            for a in e.args:
                if isinstance(a, ast.Starred):
                    v = self.eval(a.value, frame)
                    if isinstance(v, list):
                        args.extend(v)
                    elif isinstance(v, ListObj):
                        args.append(("starred", v))
                    else:
                        raise Untranslatable("starred %r" % (v,))
                else:
                    args.append(self.eval(a, frame))
            kwargs = {}
            for k in e.keywords:
                v = self.eval(k.value, frame)
                if k.arg is None:
                    if not isinstance(v, dict):
                        raise Untranslatable("** of a non dict")
                    kwargs.update(v)
                else:
                    kwargs[k.arg] = v
            return self.call(f, args, kwargs, frame)
        if isinstance(e, ast.BinOp):
            return self.binop(e.op, self.eval(e.left, frame), self.eval(e.right, frame))
        if isinstance(e, ast.BoolOp):
            vals = e.values
            v = self.eval(vals[0], frame)
            for nxt in vals[1:]:
                if isinstance(e.op, ast.Or):
                    # `x or 0` / `x or ""` : the identity on values of that type, None mapped to the zero
                    if isinstance(nxt, ast.Constant) and nxt.value == 0 and not isinstance(nxt.value, bool) \
                            and isinstance(v, SOpt) and v.ty == "int":
                        v = SInt("getD", v.lean(), 0)
                        continue
                    if isinstance(nxt, ast.Constant) and nxt.value == 0 and isinstance(v, (SInt, int)) \
                            and not isinstance(v, bool):
                        continue
                    if isinstance(nxt, ast.Constant) and nxt.value == "" and isinstance(v, (SStr, str)):
                        continue
                    if self.truth(v):
                        return v
                    v = self.eval(nxt, frame)
                else:
                    if not self.truth(v):
                        return v
                    v = self.eval(nxt, frame)
            return v
        if isinstance(e, ast.UnaryOp) and isinstance(e.op, ast.USub):
            v = self.eval(e.operand, frame)
            if isinstance(v, int) and not isinstance(v, bool):
                return -v
            raise Untranslatable("unary minus on %r" % (v,))
        if isinstance(e, ast.UnaryOp) and isinstance(e.op, ast.Not):
            v = self.eval(e.operand, frame)
            if isinstance(v, SBool):
                return SBool("(!%s)" % v.lean())
            if getattr(self, "merge_mode", 0):
                c = self.cond_lean(v)
                return (not c) if isinstance(c, bool) else ("notcond", "(¬ %s)" % c)
            return not self.truth(v)
        if isinstance(e, ast.Compare):
            if len(e.ops) != 1:
                raise Untranslatable("chained comparison")
            a = self.eval(e.left, frame)
            b = self.eval(e.comparators[0], frame)
            return self.compare(e.ops[0], a, b)
        if isinstance(e, (ast.GeneratorExp, ast.ListComp)):
            if len(e.generators) != 1 or e.generators[0].ifs or e.generators[0].is_async:
                raise Untranslatable("comprehension")
            g = e.generators[0]
            it = self.eval(g.iter, frame)
            if isinstance(it, str):
                it = list(it)
            if isinstance(it, ListObj):
                self.normalize_list(it)
                if not all(k == "elem" for k, _ in it.segs):
                    # a map over a list of unknown length: the body is evaluated once on a fresh element and must
                    # neither branch on it nor have an effect
                    parts = []
                    for k, x in it.segs:
                        if k == "elem":
                            self.assign(g.target, x, frame)
                            parts.append(("elem", self.eval(e.elt, frame)))
                        else:
                            var = self.fresh("o")
                            n0 = len(self.o.trace)
                            self.assign(g.target, Obj(None, lean=var, lay="%s.lay" % var), frame)
                            body = self.eval(e.elt, frame)
                            if len(self.o.trace) != n0:
                                raise Untranslatable("branching inside a comprehension over a list of unknown length")
                            parts.append(("map", x, var, body))
                    return MapList(parts)
                it = [x for _, x in it.segs]
            if not isinstance(it, list):
                raise Untranslatable("comprehension over %r" % (it,))
            out = []
            for x in it:
                self.assign(g.target, x, frame)
                out.append(self.eval(e.elt, frame))
            return out
        if isinstance(e, ast.Dict):
            d = {}
            for k, v in zip(e.keys, e.values):
                if k is None:
                    raise Untranslatable("** in a dict display")
                kk = self.eval(k, frame)
                if not isinstance(kk, (str, int, bool)):
                    raise Untranslatable("symbolic dict key")
                d[kk] = self.eval(v, frame)
            return d
        if isinstance(e, ast.List) or isinstance(e, ast.Tuple):
            return ListObj([("elem", self.eval(x, frame)) for x in e.elts])
        if isinstance(e, ast.Yield):
            if frame.yields is None:
                raise Untranslatable("yield outside a generator")
            frame.yields.segs.append(("elem", self.eval(e.value, frame) if e.value is not None else None))
            return None
        if isinstance(e, ast.YieldFrom):
            if frame.yields is None:
                raise Untranslatable("yield from outside a generator")
            v = self.eval(e.value, frame)
            if isinstance(v, list):
                v = ListObj([("elem", x) for x in v])
            if not isinstance(v, ListObj):
                raise Untranslatable("yield from %r" % (v,))
            frame.yields.segs.extend(v.segs)
            return None
        if isinstance(e, ast.JoinedStr):
            out = ""
            for part in e.values:
                if isinstance(part, ast.Constant) and isinstance(part.value, str):
                    out = str_cat(out, part.value)
                    continue
                if isinstance(part, ast.FormattedValue) and part.conversion == -1 and part.format_spec is None:
                    v = self.eval(part.value, frame)
                    if isinstance(v, (str, SStr)):
                        out = str_cat(out, v)
                        continue
                # (otherwise only ever used to build exception messages here: kept opaque)
                return "<formatted message>"
            return out
        if isinstance(e, ast.IfExp):
            return self.eval(e.body if self.truth(self.eval(e.test, frame)) else e.orelse, frame)
        raise Untranslatable("expression %s" % type(e).__name__)
    def compare(self, op, a, b):
        if isinstance(op, (ast.Is, ast.IsNot)) and (isinstance(a, SOptColl) or isinstance(b, SOptColl)):
            r = a if isinstance(a, SOptColl) else b
            o2 = b if isinstance(a, SOptColl) else a
            if o2 is not None:
                raise Untranslatable("identity test of an optional collection")
            key = ("optcoll", r.lean_name)
            if key not in self.known:
                x = self.fresh("xs")
                c = self.o.choose(("issome", r.lean_name, x), 2)
                self.known[key] = (c, x)
            isnone = self.known[key][0] == 1
            return isnone if isinstance(op, ast.Is) else not isnone
        if isinstance(op, (ast.Is, ast.IsNot)) and (isinstance(a, ReRes) or isinstance(b, ReRes)):
            r = a if isinstance(a, ReRes) else b
            o2 = b if isinstance(a, ReRes) else a
            if o2 is not None:
                raise Untranslatable("identity test of a match object")
            return SBool("(!%s)" % r.lean_text) if isinstance(op, ast.Is) else SBool(r.lean_text)
        if isinstance(op, (ast.Is, ast.IsNot)):
            if b is None or a is None:
                other = a if b is None else b
                if isinstance(other, SOpt):
                    other = self.resolve_opt(other)
                r = other is None
            else:
                r = a is b
            return r if isinstance(op, ast.Is) else not r
        if isinstance(op, (ast.Gt, ast.Lt, ast.GtE, ast.LtE)) and isinstance(a, (int, SInt)) and \
                isinstance(b, (int, SInt)) and not isinstance(a, bool) and not isinstance(b, bool):
            if isinstance(a, int) and isinstance(b, int):
                return {ast.Gt: a > b, ast.Lt: a < b, ast.GtE: a >= b, ast.LtE: a <= b}[type(op)]
            sym = {ast.Gt: ">", ast.Lt: "<", ast.GtE: "≥", ast.LtE: "≤"}[type(op)]
            return SBool("(decide (%s %s %s))" % (int_lean(a), sym, int_lean(b)))
        if isinstance(op, ast.Lt) and isinstance(a, tuple) and a and a[0] == "signof" and b == 0 and \
                not isinstance(b, bool):
            return SBool("(PyPrim.signNegative %s)" % a[1].lean_name)
        if isinstance(op, (ast.Eq, ast.NotEq)):
            neg = isinstance(op, ast.NotEq)
            if all(isinstance(x, (bool, int, str)) or x is None for x in (a, b)):
                r = a == b
                return (not r) if neg else r
            if isinstance(a, (str, SStr)) and isinstance(b, (str, SStr)):
                t = "(%s == %s)" % (str_lean(a), str_lean(b))
            elif isinstance(a, SOpt) and a.ty == "str" and isinstance(b, (str, SStr)):
                t = "(%s == some %s)" % (a.lean(), str_lean(b))
            elif isinstance(b, SOpt) and b.ty == "str" and isinstance(a, (str, SStr)):
                t = "(%s == some %s)" % (b.lean(), str_lean(a))
            elif isinstance(a, SInt) and a.op == "nonzero" and b == 0 and not isinstance(b, bool):
                return neg
            elif isinstance(a, (int, SInt)) and isinstance(b, (int, SInt)):
                t = "(%s == %s)" % (int_lean(a), int_lean(b))
            else:
                raise Untranslatable("== on %r, %r" % (a, b))
            return SBool("(!%s)" % t) if neg else SBool(t)
        if isinstance(op, (ast.In, ast.NotIn)):
            neg = isinstance(op, ast.NotIn)
            if isinstance(b, SOpt):
                b = self.resolve_opt(b)
                if b is None:
                    raise PyRaise(TypeError)
            if isinstance(a, str) and isinstance(b, str):
                r = a in b
                return (not r) if neg else r
            if isinstance(b, SOptColl):
                key = ("optcoll", b.lean_name)
                if key not in self.known:
                    x = self.fresh("xs")
                    c = self.o.choose(("issome", b.lean_name, x), 2)
                    self.known[key] = (c, x)
                if self.known[key][0] == 1:
                    raise PyRaise(TypeError)
                b = SColl(self.known[key][1])
            if isinstance(b, SPathSet) and isinstance(a, SPath):
                t = "((%s).contains %s)" % (b.lean(), a.lean())
                return SBool("(!%s)" % t) if neg else SBool(t)
            if isinstance(b, SColl) and isinstance(a, (str, SStr)):
                t = "((%s).contains %s)" % (b.lean(), str_lean(a))
                return SBool("(!%s)" % t) if neg else SBool(t)
            if isinstance(b, dict) and isinstance(a, (str, int, bool)):
                r = a in b
                return (not r) if neg else r
            if isinstance(b, (frozenset, set)) and (a is None or isinstance(a, (str, int, bool, type))):
                r = a in b
                return (not r) if neg else r
            if isinstance(a, str) and len(a) == 1 and isinstance(b, SStr):
                t = "((%s).contains %s)" % (b.lean(), lean_char(a))
                return SBool("(!%s)" % t) if neg else SBool(t)
            raise Untranslatable("in on %r, %r" % (a, b))
        raise Untranslatable("comparison %s" % type(op).__name__)

# ---------------------------------------------------------------------------------------------
# emission
# ---------------------------------------------------------------------------------------------
def opt_int_lean(v):
    if v is None:
        return "none"
    if isinstance(v, SOpt):
        return v.lean()
    return "(some %s)" % int_lean(v)

def lay_dirty(o):
    if o.lay is None:
        return True
    for a in LAY_ATTRS:
        if a in o.written:
            return True
    return False

def deep_dirty(interp, o):
    if not isinstance(o, Obj):
        return False
    if o.lean is None or lay_dirty(o):
        return True
    for k, v in o.attrs.items():
        if k in LAY_ATTRS:
            continue
        if k in o.written:
            return True
        if isinstance(v, Obj) and deep_dirty(interp, v):
            return True
        if isinstance(v, ListObj):
            interp.normalize_list(v)
            if any(kind == "elem" and deep_dirty(interp, x) for kind, x in v.segs):
                return True
            if any(kind == "lmap" for kind, x in v.segs):
                return True
            if v.segs != [("sym", o.pattern_vars[0][0])] if o.pattern_vars else False:
                # an operand list whose shape was explored: rebuild it
                if any(kind == "elem" for kind, _ in v.segs) and len(v.segs) != 1:
                    pass
    return False

def emit_lay(interp, o):
    def attr(name):
        if name in o.attrs:
            return o.attrs[name]
        return None if o.lay is None else "@same"
    parts = []
    for name in LAY_ATTRS:
        v = attr(name)
        if v == "@same" or (o.lay is not None and name not in o.written):
            if o.lay is None:
                raise Untranslatable("layout attribute %s never set" % name)
            continue
        if name in ("head", "tail"):
            parts.append("%s := %s" % (name, str_lean(v)))
        else:
            parts.append("%s := %s" % (name, opt_int_lean(v)))
    if o.lay is None:
        return "{ " + ", ".join(parts) + " }"
    if not parts:
        return o.lay
    return "{ %s with %s }" % (o.lay, ", ".join(parts))

def emit_list(interp, lst):
    interp.normalize_list(lst)
    chunks = []
    cur = []
    for kind, x in lst.segs:
        if kind == "elem":
            cur.append(emit_any(interp, x))
        else:
            if cur:
                chunks.append("[" + ", ".join(cur) + "]")
                cur = []
            if kind == "lmap":
                var = interp.fresh("c")
                n0 = len(interp.o.trace)
                val = x.build(interp, Obj(None, lean=var, lay="%s.lay" % var))
                if len(interp.o.trace) != n0:
                    raise Untranslatable("branching while building the element of a mapped list")
                if isinstance(val, ListObj):
                    chunks.append("(%s.flatMap fun %s => %s)" % (x.src, var, emit_list(interp, val)))
                else:
                    chunks.append("(%s.map fun %s => %s)" % (x.src, var, emit_any(interp, val)))
            else:
                chunks.append(x)
    if cur or not chunks:
        chunks.append("[" + ", ".join(cur) + "]")
    return chunks[0] if len(chunks) == 1 else "(" + " ++ ".join(chunks) + ")"

def emit_any(interp, v):
    """an element of a list: an item or a string"""
    if isinstance(v, (str, SStr)):
        return str_lean(v)
    return emit_value(interp, v, "tree")


def emit_value(interp, v, kind):
    if kind == "tree":
        if not isinstance(v, Obj):
            raise Untranslatable("a child that is not an item: %r" % (v,))
        return emit_obj(interp, v)
    if kind == "trees":
        if not isinstance(v, ListObj):
            raise Untranslatable("operands that are not a list")
        return emit_list(interp, v)
    if kind == "str":
        return str_lean(v)
    if kind == "bool":
        return bool_lean(v)
    raise Untranslatable("kind %s" % kind)

def emit_obj(interp, o):
    if o.lean is not None and not deep_dirty(interp, o):
        return o.lean
    if o.cls is None:
        # an input item of unknown class: only its layout can have changed
        w = {a for a in LAY_ATTRS if a in o.written}
        if w == {"head"}:
            return "(%s.setHead %s)" % (o.lean, str_lean(o.attrs["head"]))
        if w == {"tail"}:
            return "(%s.setTail %s)" % (o.lean, str_lean(o.attrs["tail"]))
        if w == {"head", "tail"}:
            return "((%s.setHead %s).setTail %s)" % (o.lean, str_lean(o.attrs["head"]), str_lean(o.attrs["tail"]))
        return "(%s.setLay %s)" % (o.lean, emit_lay(interp, o))
    name = o.cls.__name__
    if name not in CLASS_TABLE or o.cls.__module__ != "luqum.tree":
        raise Untranslatable("result of class %s" % name)
    prefix, fields = CLASS_TABLE[name]
    args = []
    for f in fields:
        if f == "@num":
            n = o.attrs.get("@num")
            if isinstance(n, tuple) and n[0] == "@num":
                args.append(n[1])
                continue
            attr, impl, _ = NUM_ATTRS[name]
            nv, iv = o.attrs.get(attr), o.attrs.get(impl)
            if not isinstance(nv, NumVal) or not isinstance(iv, (bool, SBool)):
                raise Untranslatable("number of %s" % name)
            args.append("(PyPrim.mkNum %s %s)" % (nv.lean_name, bool_lean(iv)))
            continue
        if f not in o.attrs:
            raise Untranslatable("%s.%s never set" % (name, f))
        args.append(emit_value(interp, o.attrs[f], ATTR_KIND[f]))
    return "(%s %s %s)" % (prefix, " ".join(args), emit_lay(interp, o))

def emit_fmt_arg(v):
    if v is None:
        return "PyArg.ostr none"
    if isinstance(v, SOpt):
        return "PyArg.%s %s" % ("oint" if v.ty == "int" else "ostr", v.lean())
    if isinstance(v, (str, SStr)):
        return "PyArg.ostr (some %s)" % str_lean(v)
    if isinstance(v, (int, SInt)) and not isinstance(v, bool):
        return "PyArg.oint (some %s)" % int_lean(v)
    raise Untranslatable("format argument %r" % (v,))

def emit_raise(e):
    cls = e.cls.__name__
    payload = e.payload or []
    if len(payload) == 1 and isinstance(payload[0], Fmt):
        f = payload[0]
        return "Except.error (PyErr.fmt %s %s [%s])" % (lean_string(cls), lean_string(f.fmt),
                                                        ", ".join(emit_fmt_arg(a) for a in f.args))
    if len(payload) == 1 and isinstance(payload[0], str):
        return "Except.error (PyErr.fmt %s %s [])" % (lean_string(cls), lean_string(payload[0]))
    if len(payload) == 1 and isinstance(payload[0], SStr):
        return "Except.error (PyErr.msg %s %s)" % (lean_string(cls), payload[0].lean())
    return "Except.error (PyErr.exc %s)" % lean_string(cls)

PATTERN_FIELD_COUNT = {k: len(v[1]) for k, v in CLASS_TABLE.items()}

def build_tree(paths, depth, indent):
    """decision tree of the explored paths as a Lean term"""
    pad = "  " * indent
    if len(paths) == 1 and len(paths[0][0]) == depth:
        return paths[0][1]
    desc, n, _ = paths[0][0][depth]
    groups = []
    for c in range(n):
        sub = [p for p in paths if p[0][depth][2] == c]
        if not sub:
            raise Untranslatable("unexplored alternative")
        groups.append(build_tree(sub, depth + 1, indent + 1))
    if all(g == groups[0] for g in groups) and desc[0] in ("nonempty", "bool"):
        return groups[0]
    kind = desc[0]
    if kind == "issome":
        if groups[0] == groups[1] and desc[2] not in groups[0]:
            return groups[0]
        return "(match %s with\n%s  | some %s => %s\n%s  | none => %s)" % (desc[1], pad, desc[2], groups[0], pad, groups[1])
    if kind == "nonempty":
        return "(if %s = [] then %s\n%s  else %s)" % (desc[1], groups[1], pad, groups[0])
    if kind == "bool":
        return "(if %s = true then %s\n%s  else %s)" % (desc[1], groups[0], pad, groups[1])
    if kind == "listback":
        return "(match (%s).getLast? with\n%s  | some %s => %s\n%s  | none => %s)" % (desc[1], pad, desc[2], groups[0], pad, groups[1])
    if kind == "listcase":
        return "(match %s with\n%s  | %s :: %s => %s\n%s  | [] => %s)" % (desc[1], pad, desc[2], desc[3], groups[0], pad, groups[1])
    if kind == "isinstance":
        prefix, _ = CLASS_TABLE[desc[2]]
        pat = "%s %s %s" % (prefix, " ".join(desc[3]), desc[4])
        return "(match %s with\n%s  | %s => %s\n%s  | _ => %s)" % (desc[1], pad, pat, groups[0], pad, groups[1])
    if kind == "prim":
        return "(match %s %s with\n%s  | some %s => %s\n%s  | none => %s)" % (desc[1], desc[2], pad, desc[3], groups[0], pad, groups[1])
    raise Untranslatable("decision %r" % (desc,))

# ---------------------------------------------------------------------------------------------
# the parser's semantic actions
# ---------------------------------------------------------------------------------------------
SAMPLES = {"TERM": "a", "PHRASE": '"a"', "REGEX": "/a/", "APPROX": "~2", "BOOST": "^2", "PLUS": "+", "MINUS": "-",
           "COLUMN": ":", "LPAREN": "(", "RPAREN": ")", "LBRACKET": "[", "RBRACKET": "]", "LESSTHAN": "<",
           "GREATERTHAN": ">", "TO": "TO", "AND_OP": "AND", "OR_OP": "OR", "NOT": "NOT"}
BARE = {"APPROX": "~", "BOOST": "^"}

def token_value_kinds(P):
    """what the lexer puts on the parse stack for each terminal: class of `tok.value`, and whether `.value` of a
    TokenValue can be None -- read from the live lexer on one sample lexeme per terminal"""
    kinds = {}
    for term, text in SAMPLES.items():
        lx = P.lexer.clone()
        lx.input(text)
        tok = lx.token()
        if tok is None or tok.type != term:
            raise Untranslatable("sample %r does not lex as %s" % (text, term))
        cls = type(tok.value).__name__
        optional = False
        if term in BARE:
            lx2 = P.lexer.clone()
            lx2.input(BARE[term])
            t2 = lx2.token()
            optional = t2 is not None and getattr(t2.value, "value", "") is None
        kinds[term] = (cls, optional)
    return kinds

def prod_rhs(prod):
    rhs = prod.str.split("->", 1)[1].split()
    return [] if rhs == ["<empty>"] else rhs

def production_inputs(P, prod, kinds, T):
    """symbolic right-hand side values + the parameter list of the generated function"""
    params = []
    vals = [None]
    import luqum.head_tail as HT
    for i, sym in enumerate(prod_rhs(prod), start=1):
        if sym in kinds:
            cls, optional = kinds[sym]
            v, l = "p%dv" % i, "p%dl" % i
            if cls == "TokenValue":
                o = Obj(HT.TokenValue, lean=None, lay=l)
                o.lean = "@tok%d" % i
                o.attrs["value"] = SOpt(v, "str") if optional else SStr.var(v)
                params.append("(%s : %s) (%s : Lay)" % (v, "Option Str" if optional else "Str", l))
            else:
                o = Obj(getattr(T, cls), lean="(%s %s %s)" % (CLASS_TABLE[cls][0], v, l), lay=l)
                o.attrs["value"] = SStr.var(v)
                params.append("(%s : Str) (%s : Lay)" % (v, l))
            vals.append(o)
        else:
            n = "p%d" % i
            vals.append(Obj(None, lean=n, lay="%s.lay" % n))
            params.append("(%s : Tree)" % n)
    return vals, params

def translate_production(P, prod, kinds, T):
    fn = getattr(P, prod.func)
    params_holder = {}
    def run(oracle):
        it = Interp(oracle)
        vals, params = production_inputs(P, prod, kinds, T)
        params_holder["p"] = params
        try:
            it.call_function(fn, [vals], {}, owner=None, self_obj=None)
        except PyRaise as e:
            return emit_raise(e)
        res = vals[0]
        if not isinstance(res, Obj):
            raise Untranslatable("%s leaves %r in p[0]" % (prod.func, res))
        if res.lean is not None and res.lean.startswith("@tok"):
            raise Untranslatable("%s returns a token value" % prod.func)
        return "Except.ok %s" % emit_obj(it, res)
    paths = explore(run)
    body = build_tree(paths, 0, 1)
    return params_holder["p"], body, len(paths)

def translate_actions(P, T):
    """[(lean name, python function, rhs, params, body | None, error | None, paths)] for every production"""
    kinds = token_value_kinds(P)
    out = []
    seen = {}
    for prod in P.parser.productions[1:]:
        base = prod.func
        k = seen.get(base, 0)
        seen[base] = k + 1
        name = base if k == 0 else "%s_%d" % (base, k + 1)
        try:
            params, body, npaths = translate_production(P, prod, kinds, T)
            out.append((name, base, prod_rhs(prod), params, body, None, npaths))
        except Untranslatable as e:
            out.append((name, base, prod_rhs(prod), None, None, str(e), 0))
    return out, kinds


# ---------------------------------------------------------------------------------------------
# printing (`__str__`) and `Item.span`, one step per concrete class
# ---------------------------------------------------------------------------------------------

NUM_ATTRS = {"Fuzzy": ("degree", "_implicit_degree", True), "Proximity": ("degree", "_implicit_degree", False),
             "Boost": ("force", "implicit_force", True)}


def class_inputs(T, cname):
    """a symbolic instance of a concrete class of luqum.tree + the parameters of the generated function"""
    cls = getattr(T, cname)
    o = Obj(cls, lean="@self", lay="l")
    params = []
    if cname == "NoneItem":
        return o, ["(l : Lay)"]
    _, fields = CLASS_TABLE[cname]
    for f in fields:
        if f == "@num":
            attr, impl, is_dec = NUM_ATTRS[cname]
            o.attrs[attr] = NumVal("n", is_dec)
            o.attrs[impl] = SBool("n.implicit")
            params.append("(n : Num)")
            continue
        kind = ATTR_KIND[f]
        v = {"include": "incl"}.get(f, f)      # `include` is a keyword of Lean
        if kind == "tree":
            o.attrs[f] = Obj(None, lean=v, lay="%s.lay" % v)
            params.append("(%s : Tree)" % v)
        elif kind == "trees":
            o.attrs[f] = ListObj([("sym", v)])
            params.append("(%s : List Tree)" % v)
        elif kind == "str":
            o.attrs[f] = SStr.var(v)
            params.append("(%s : Str)" % v)
        else:
            o.attrs[f] = SBool(v)
            params.append("(%s : Bool)" % v)
    params.append("(l : Lay)")
    return o, params


def _rec_str(interp, obj, args, kwargs):
    if args or set(kwargs) - {"head_tail"}:
        raise Untranslatable("__str__ with unusual arguments")
    ht = kwargs.get("head_tail", False)
    return SStr.var("(rec %s %s)" % (obj.lean, bool_lean(ht)))


def translate_method(T, cname, meth, extra_params, make_args, emit_result, with_interp=False):
    holder = {}

    def run(oracle):
        it = Interp(oracle, rec_hooks={"__str__": _rec_str})
        o, params = class_inputs(T, cname)
        holder["p"] = params + extra_params
        f = it.getattr_(o, meth, None)
        try:
            res = it.call(f, *make_args(), None)
        except PyRaise as e:
            return emit_raise(e)
        return "Except.ok %s" % (emit_result(it, res) if with_interp else emit_result(res))
    paths = explore(run)
    return holder["p"], build_tree(paths, 0, 1), len(paths)


PRINT_CLASSES = ["Word", "Phrase", "Regex", "SearchField", "Group", "FieldGroup", "Range", "Fuzzy", "Proximity",
                 "Boost", "AndOperation", "OrOperation", "UnknownOperation", "BoolOperation", "Plus", "Not",
                 "Prohibit", "From", "To", "NoneItem"]


def translate_printing(T):
    """[(lean name, class, params, body | None, error | None, paths)]: `C.__str__(self, head_tail)` and
    `C.span(self, head_tail)` for every concrete class"""
    out = []
    for cname in PRINT_CLASSES:
        try:
            params, body, n = translate_method(
                T, cname, "__str__", ["(ht : Bool)"], lambda: ([], {"head_tail": SBool("ht")}),
                lambda r: str_lean(r))
            out.append(("str_%s" % cname, cname, ["(rec : Tree → Bool → Str)"] + params, "Str", body, None, n))
        except Untranslatable as e:
            out.append(("str_%s" % cname, cname, None, "Str", None, str(e), 0))

    def emit_span(r):
        if not isinstance(r, ListObj) or len(r.segs) != 2:
            raise Untranslatable("span does not return a pair")
        return "(%s, %s)" % (opt_int_lean(r.segs[0][1]), opt_int_lean(r.segs[1][1]))
    try:
        params, body, n = translate_method(
            T, "Word", "span", ["(ht : Bool)"], lambda: ([], {"head_tail": SBool("ht")}), emit_span)
        out.append(("span", "Item", params, "(Option Int × Option Int)", body, None, n))
    except Untranslatable as e:
        out.append(("span", "Item", None, "(Option Int × Option Int)", None, str(e), 0))
    return out


# ---------------------------------------------------------------------------------------------
# `HeadTailLexer.handle` (+ `handle_token`): one call, described by its effects
# ---------------------------------------------------------------------------------------------

HANDLE_VARIANTS = [
    # (lean name, separator?, lexpos == 0?, stored tracker: "absent" | "nolast" | "last")
    ("handle_sep_first", True, True, "absent"), ("handle_sep_first_stored", True, True, "last"),
    ("handle_sep_absent", True, False, "absent"), ("handle_sep_nolast", True, False, "nolast"),
    ("handle_sep_last", True, False, "last"),
    ("handle_tok_first", False, True, "absent"), ("handle_tok_first_stored", False, True, "last"),
    ("handle_tok_absent", False, False, "absent"), ("handle_tok_nolast", False, False, "nolast"),
    ("handle_tok_last", False, False, "last"),
]


def translate_handle(HT):
    """`HeadTailLexer.handle(token, orig_value)` on a symbolic token and lexer, for the ten shapes of the situation
    (separator or not, first offset or not, what the lexer object carries). The result is the list of effects:
    tracker head afterwards, what `last_elt` is afterwards, the text appended to the tail of the old `last_elt`'s
    value, the head / pos / size given to the token's value."""
    out = []
    for name, is_sep, first, stored in HANDLE_VARIANTS:
        def run(oracle, is_sep=is_sep, first=first, stored=stored):
            it = Interp(oracle)
            lexer = Obj(None, lean="@lexer")
            old_val = Obj(HT.TokenValue, lean="@oldval", lay="ol")
            old_tok = Obj(None, lean="@oldtok")
            old_tok.attrs["value"] = old_val
            tracker = None
            if stored != "absent":
                tracker = Obj(HT.HeadTailLexer, lean="@tracker")
                tracker.attrs["head"] = SOpt("th", "str")
                tracker.attrs["last_elt"] = old_tok if stored == "last" else None
                lexer.attrs[HT.HeadTailLexer.LEXER_ATTR] = tracker
            token = Obj(None, lean="@token")
            token.attrs["lexer"] = lexer
            token.attrs["type"] = "SEPARATOR" if is_sep else "TERM"
            token.attrs["lexpos"] = 0 if first else SInt("nonzero", "lexpos")
            if is_sep:
                token.attrs["value"] = SStr.var("s")
            else:
                tv = Obj(HT.TokenValue, lean="@val", lay="vl")
                token.attrs["value"] = tv
            f = it.class_attr(Obj(HT.HeadTailLexer), HT.HeadTailLexer, "handle", HT.HeadTailLexer.__mro__)
            try:
                it.call(f, [token, SStr.var("orig")], {}, None)
            except PyRaise as e:
                return emit_raise(e)
            inst = lexer.attrs.get(HT.HeadTailLexer.LEXER_ATTR)
            if not isinstance(inst, Obj):
                raise Untranslatable("no tracker on the lexer after handle")
            head = inst.attrs.get("head")
            if head is None:
                head_l = "none"
            elif isinstance(head, SOpt):
                head_l = head.lean()
            else:
                head_l = "(some %s)" % str_lean(head)
            last = inst.attrs.get("last_elt")
            if last is None:
                last_l = "LastAfter.none"
            elif last is token:
                last_l = "LastAfter.token"
            elif last is old_tok:
                last_l = "LastAfter.old"
            else:
                raise Untranslatable("last_elt is something else")
            fresh_l = "true" if inst is not tracker else "false"
            if "tail" in old_val.written:
                t = old_val.attrs["tail"]
                parts = str_parts(t)
                if not parts or parts[0] != ("var", "ol.tail"):
                    raise Untranslatable("the old tail is not extended")
                old_l = "(some %s)" % SStr(parts[1:]).lean()
            else:
                old_l = "none"
            if is_sep:
                th = tp = ts = "none"
            else:
                tv = token.attrs["value"]
                if isinstance(tv.attrs.get("head"), SOpt):
                    tv.attrs["head"] = it.resolve_opt(tv.attrs["head"])
                    if tv.attrs["head"] is None:
                        raise Untranslatable("the head of a token is set to None")
                th = "(some %s)" % str_lean(tv.attrs["head"]) if "head" in tv.written else "none"
                tp = "(some %s)" % opt_int_lean(tv.attrs["pos"]) if "pos" in tv.written else "none"
                ts = "(some %s)" % opt_int_lean(tv.attrs["size"]) if "size" in tv.written else "none"
                if "tail" in tv.written:
                    raise Untranslatable("handle writes the tail of the token")
            return ("Except.ok { freshTracker := %s, head := %s, last := %s, oldTail := %s, tokHead := %s, "
                    "tokPos := %s, tokSize := %s }" % (fresh_l, head_l, last_l, old_l, th, tp, ts))
        params = []
        if stored != "absent":
            params.append("(th : Option Str)")
        if stored == "last":
            params.append("(ol : Lay)")
        if not first:
            params.append("(lexpos : Int)")
        params.append("(s : Str)" if is_sep else "(vl : Lay)")
        params.append("(orig : Str)")
        try:
            paths = explore(run)
            out.append((name, params, build_tree(paths, 0, 1), None, len(paths)))
        except Untranslatable as e:
            out.append((name, params, None, str(e), 0))
    return out


def translate_clone(T):
    """`item.clone_item()` for every concrete class: [(lean name, class, params, body | None, error | None, paths,
    fresh)] where `fresh` says that on every path the result is a NEW heap object (identity is not expressible in
    the model's trees, so it is reported separately). The last entry is the clone of the NONE_ITEM singleton itself."""
    out = []
    for cname in PRINT_CLASSES + ["@NONE_ITEM"]:
        holder = {"fresh": True}

        def run(oracle, cname=cname):
            it = Interp(oracle)
            if cname == "@NONE_ITEM":
                o, params = it.wrap(T.NONE_ITEM), []
            else:
                o, params = class_inputs(T, cname)
            holder["p"] = params
            f = it.getattr_(o, "clone_item", None)
            try:
                res = it.call(f, [], {}, None)
            except PyRaise as e:
                return emit_raise(e)
            if not (isinstance(res, Obj) and res.lean is None):
                holder["fresh"] = False
            return "Except.ok %s" % emit_obj(it, res)
        lname = "clone_%s" % cname.replace("@", "the_")
        try:
            paths = explore(run)
            out.append((lname, cname.strip("@"), holder["p"], "Tree", build_tree(paths, 0, 1), None, len(paths),
                        holder["fresh"]))
        except Untranslatable as e:
            out.append((lname, cname.strip("@"), None, "Tree", None, str(e), 0, False))
    return out


# ---------------------------------------------------------------------------------------------
# `child_context` of the visitor classes: what a child is visited with
# ---------------------------------------------------------------------------------------------

CONTEXT_CLASSES = ["TreeVisitor", "TreeTransformer", "PathTrackingVisitor", "PathTrackingTransformer"]


def translate_child_context(V):
    """`X.child_context(node, child, context, new_node=..., position=...)` for the four visitor classes, below the
    root (`context` carries parents / new_parents / path and one foreign key) and at the root (`context` as `visit`
    makes it). Result: the three tracked entries of the child's context and whether the foreign key was kept."""
    out = []
    for cname in CONTEXT_CLASSES:
        for where in ("inner", "root"):
            cls = getattr(V, cname)
            tracking = "PathTracking" in cname
            transformer = "Transformer" in cname

            def run(oracle, cls=cls, where=where, tracking=tracking, transformer=transformer):
                it = Interp(oracle)
                me = Obj(cls, lean="@self")
                me.attrs["track_parents"] = SBool("trackParents")
                me.attrs["track_new_parents"] = SBool("trackNew")
                node = Obj(None, lean="node", lay="node.lay")
                child = Obj(None, lean="child", lay="child.lay")
                new_node = Obj(None, lean="newNode", lay="newNode.lay")
                ctx = {"other": SStr.var("other")}
                if where == "inner":
                    ctx["parents"] = ListObj([("sym", "ps")])
                    ctx["new_parents"] = ListObj([("sym", "nps")])
                    if tracking:
                        ctx["path"] = ListObj([("sym", "path")])
                elif tracking:
                    ctx["path"] = ListObj([])
                kwargs = {}
                if transformer:
                    kwargs["new_node"] = new_node
                if tracking:
                    kwargs["position"] = SInt("var", "i")
                f = it.getattr_(me, "child_context", None)
                try:
                    res = it.call(f, [node, child, ctx], kwargs, None)
                except PyRaise as e:
                    return emit_raise(e)
                if not isinstance(res, dict):
                    raise Untranslatable("child_context does not return a dict")
                if res is ctx:
                    raise Untranslatable("child_context returns the parent's context itself")

                def trees_l(v):
                    if v is None:
                        return "none"
                    if not isinstance(v, ListObj):
                        raise Untranslatable("a tracked entry is not a tuple")
                    return "(some %s)" % emit_list(it, v)

                def path_l(v):
                    if v is None:
                        return "none"
                    if not isinstance(v, ListObj):
                        raise Untranslatable("the path is not a tuple")
                    chunks, cur = [], []
                    for k, x in v.segs:
                        if k == "elem":
                            cur.append(int_lean(x))
                        else:
                            if cur:
                                chunks.append("[" + ", ".join(cur) + "]")
                                cur = []
                            chunks.append(x)
                    if cur or not chunks:
                        chunks.append("[" + ", ".join(cur) + "]")
                    return "(some %s)" % (chunks[0] if len(chunks) == 1 else "(" + " ++ ".join(chunks) + ")")
                extra = sorted(set(res) - {"parents", "new_parents", "path", "other"})
                if extra:
                    raise Untranslatable("unexpected context keys %s" % extra)
                kept = isinstance(res.get("other"), SStr) and res["other"].lean() == "other"
                return "Except.ok { parents := %s, newParents := %s, path := %s, otherKept := %s }" % (
                    trees_l(res.get("parents")), trees_l(res.get("new_parents")), path_l(res.get("path")),
                    "true" if kept else "false")
            params = ["(trackParents trackNew : Bool)", "(node child newNode : Tree)", "(other : Str)"]
            if where == "inner":
                params.append("(ps nps : List Tree)")
                if tracking:
                    params.append("(path : List Int)")
            if tracking:
                params.append("(i : Int)")
            name = "child_context_%s_%s" % (cname, where)
            try:
                paths = explore(run)
                out.append((name, params, build_tree(paths, 0, 1), None, len(paths)))
            except Untranslatable as e:
                out.append((name, params, None, str(e), 0))
    return out


# ---------------------------------------------------------------------------------------------
# `item.children` (getter) and `item.children = value` (setter)
# ---------------------------------------------------------------------------------------------

def translate_children(T):
    """for every concrete class: the list the `children` property returns, and what assigning a list of `k` items
    (k = 0..3 fixed items, or a list of unknown length) does: the new node or `ValueError`"""
    out = []
    for cname in PRINT_CLASSES:
        def run_get(oracle, cname=cname):
            it = Interp(oracle)
            o, params = class_inputs(T, cname)
            run_get.params = params
            try:
                res = it.getattr_(o, "children", None)
            except PyRaise as e:
                return emit_raise(e)
            if isinstance(res, list):
                res = ListObj([("elem", x) for x in res])
            if not isinstance(res, ListObj):
                raise Untranslatable("children is not a list")
            return "Except.ok %s" % emit_list(it, res)
        try:
            paths = explore(run_get)
            out.append(("children_%s" % cname, cname, run_get.params, "(List Tree)", build_tree(paths, 0, 1), None,
                        len(paths)))
        except Untranslatable as e:
            out.append(("children_%s" % cname, cname, None, "(List Tree)", None, str(e), 0))
        for k in (0, 1, 2, 3, "n"):
            if k == "n" and not cname.endswith("Operation"):
                continue
            def run_set(oracle, cname=cname, k=k):
                it = Interp(oracle)
                o, params = class_inputs(T, cname)
                if k == "n":
                    value = ListObj([("sym", "vs")])
                    extra = ["(vs : List Tree)"]
                else:
                    objs = [Obj(None, lean="v%d" % i, lay="v%d.lay" % i) for i in range(k)]
                    value = ListObj([("elem", x) for x in objs])
                    extra = ["(v%d : Tree)" % i for i in range(k)]
                run_set.params = params + extra
                cls = o.cls
                setter = None
                for c in cls.__mro__:
                    if "children" in c.__dict__ and isinstance(c.__dict__["children"], property):
                        setter = (c, c.__dict__["children"].fset)
                        break
                if setter is None or setter[1] is None:
                    raise Untranslatable("no children setter")
                o.lean = None          # the node is rebuilt from its attributes
                o.lay_expr = "l"
                try:
                    it.call_function(setter[1], [o, value], {}, owner=setter[0], self_obj=o)
                except PyRaise as e:
                    return emit_raise(e)
                for a in LAY_ATTRS:
                    it.getattr_(o, a, None)
                    o.written.add(a)
                return "Except.ok %s" % emit_obj(it, o)
            name = "set_children_%s_%s" % (cname, k)
            try:
                paths = explore(run_set)
                out.append((name, cname, run_set.params, "Tree", build_tree(paths, 0, 1), None, len(paths)))
            except Untranslatable as e:
                out.append((name, cname, None, "Tree", None, str(e), 0))
    return out


# ---------------------------------------------------------------------------------------------
# visitor methods: the default transformer and the resolver of implicit operations, one step per class
# ---------------------------------------------------------------------------------------------

def _rec_visit(interp, obj, args, kwargs):
    """`self.visit_iter(child, context=...)` on a child: by induction exactly one new item, `rec child`"""
    child = args[0] if args else kwargs.get("node")
    if not isinstance(child, Obj) or child.lean is None:
        raise Untranslatable("visit_iter on something that is not an input item")
    return ListObj([("elem", Obj(None, lean="(rec %s)" % child.lean, lay="(rec %s).lay" % child.lean))])


def translate_visits(T, V, U):
    """[(lean name, params, body | None, error | None, paths)]:
    * `TreeTransformer.generic_visit(node, {})` for every concrete class (the default copy);
    * `UnknownOperationResolver(resolve_to=K, add_head=h)`: `visit_unknown_operation`, `visit_and_operation`,
      `visit_or_operation` for the three explicit targets.
    The visit of a child (`visit_iter`) is the parameter `rec`; the result is the list of yielded items."""
    out = []

    def emit_items(it, res):
        if isinstance(res, list):
            res = ListObj([("elem", x) for x in res])
        if not isinstance(res, ListObj):
            raise Untranslatable("a visit method that does not yield items")
        return emit_list(it, res)

    def add(name, params, run):
        try:
            paths = explore(run)
            out.append((name, ["(rec : Tree → Tree)"] + params(), build_tree(paths, 0, 1), None, len(paths)))
        except Untranslatable as e:
            out.append((name, None, None, str(e), 0))
    for cname in PRINT_CLASSES:
        holder = {}

        def run(oracle, cname=cname, holder=holder):
            it = Interp(oracle)
            node, params = class_inputs(T, cname)
            holder["p"] = params
            me = Obj(V.TreeTransformer, lean="@self")
            me.attrs["track_parents"] = False
            me.attrs["track_new_parents"] = False
            me.attrs["visit_iter"] = ("rechook", "visit_iter", me)
            it.rec_hooks["visit_iter"] = _rec_visit
            f = it.getattr_(me, "generic_visit", None)
            try:
                res = it.call(f, [node, {}], {}, None)
            except PyRaise as e:
                return emit_raise(e)
            return "Except.ok %s" % emit_items(it, res)
        add("copy_%s" % cname, lambda holder=holder: holder["p"], run)
    targets = [("and", "AndOperation"), ("or", "OrOperation"), ("bool", "BoolOperation")]
    for tname, tcls in targets:
        for meth, cname in (("visit_unknown_operation", "UnknownOperation"), ("visit_and_operation", "AndOperation"),
                            ("visit_or_operation", "OrOperation")):
            holder = {}

            def run(oracle, tcls=tcls, meth=meth, cname=cname, holder=holder):
                it = Interp(oracle)
                node, params = class_inputs(T, cname)
                holder["p"] = params + ["(addHead : Str)"]
                me = Obj(U.UnknownOperationResolver, lean="@self")
                init = U.UnknownOperationResolver.__dict__["__init__"]
                it.call_function(init, [me], {"resolve_to": getattr(T, tcls), "add_head": SStr.var("addHead")},
                                 owner=U.UnknownOperationResolver, self_obj=me)
                me.attrs["visit_iter"] = ("rechook", "visit_iter", me)
                it.rec_hooks["visit_iter"] = _rec_visit
                f = it.getattr_(me, meth, None)
                try:
                    res = it.call(f, [node, {"parents": ListObj([("sym", "ps")])}], {}, None)
                except PyRaise as e:
                    return emit_raise(e)
                return "Except.ok %s" % emit_items(it, res)
            add("resolve_%s_%s" % (tname, cname), lambda holder=holder: holder["p"], run)
    # AutoHeadTail: blanks around operands, after NOT, around TO
    import luqum.auto_head_tail as A
    for meth, cnames in (("visit_base_operation", ["AndOperation", "OrOperation", "BoolOperation"]),
                         ("visit_unknown_operation", ["UnknownOperation"]), ("visit_not", ["Not"]),
                         ("visit_range", ["Range"])):
        for cname in cnames:
            holder = {}

            def run(oracle, meth=meth, cname=cname, holder=holder):
                it = Interp(oracle)
                node, params = class_inputs(T, cname)
                holder["p"] = params
                me = Obj(A.AutoHeadTail, lean="@self")
                me.attrs["track_parents"] = False
                me.attrs["track_new_parents"] = False
                me.attrs["visit_iter"] = ("rechook", "visit_iter", me)
                it.rec_hooks["visit_iter"] = _rec_visit
                f = it.getattr_(me, meth, None)
                try:
                    res = it.call(f, [node, {}], {}, None)
                except PyRaise as e:
                    return emit_raise(e)
                return "Except.ok %s" % emit_items(it, res)
            add("aht_%s" % cname, lambda holder=holder: holder["p"], run)
    # OpenRangeTransformer without merging: comparisons become ranges, AND nodes are copied
    for meth, cname in (("visit_from", "From"), ("visit_to", "To"), ("visit_and_operation", "AndOperation")):
        holder = {}

        def run(oracle, meth=meth, cname=cname, holder=holder):
            it = Interp(oracle)
            node, params = class_inputs(T, cname)
            holder["p"] = params + ["(addHead : Str)"]
            me = Obj(U.OpenRangeTransformer, lean="@self")
            init = U.OpenRangeTransformer.__dict__["__init__"]
            it.call_function(init, [me], {"merge_ranges": False, "add_head": SStr.var("addHead")},
                             owner=U.OpenRangeTransformer, self_obj=me)
            me.attrs["visit_iter"] = ("rechook", "visit_iter", me)
            it.rec_hooks["visit_iter"] = _rec_visit
            f = it.getattr_(me, meth, None)
            try:
                res = it.call(f, [node, {"parents": ListObj([("sym", "ps")])}], {}, None)
            except PyRaise as e:
                return emit_raise(e)
            return "Except.ok %s" % emit_items(it, res)
        add("openrange_%s" % cname, lambda holder=holder: holder["p"], run)
    return out


# ---------------------------------------------------------------------------------------------
# LuceneCheck.check, one step per class
# ---------------------------------------------------------------------------------------------

def _item_term(cname, o):
    """the Lean term of a symbolic instance made by class_inputs"""
    if cname == "NoneItem":
        return "(Tree.none l)"
    prefix, fields = CLASS_TABLE[cname]
    args = []
    for f in fields:
        if f == "@num":
            args.append("n")
        else:
            v = o.attrs[f]
            args.append(v.lean if isinstance(v, Obj) else v.segs[0][1] if isinstance(v, ListObj) else
                        v.lean() if hasattr(v, "lean") else str(v))
    return "(%s %s l)" % (prefix, " ".join(args))


def translate_check(T, C):
    """`LuceneCheck(zeal).check(item, parents)` for an instance of every concrete class under an arbitrary list of
    ancestors: the list of messages. `self.check(child, parents + [item])` is the parameter `recCheck`, `str(x)` the
    parameter `recStr`; `zealOn` is `bool(zeal)`."""
    out = []
    for cname in PRINT_CLASSES:
        holder = {}

        def run(oracle, cname=cname, holder=holder):
            it = Interp(oracle)
            item, params = class_inputs(T, cname)
            item.lean = _item_term(cname, item)
            holder["p"] = ["(recCheck : Tree → List Tree → List Str)", "(recStr : Tree → Str)", "(zealOn : Bool)",
                           "(ps : List Tree)"] + params
            me = Obj(C.LuceneCheck, lean="@self")
            me.attrs["zeal"] = SBool("zealOn")

            def rec_check(interp, obj, args, kwargs):
                child, parents = args[0], (args[1] if len(args) > 1 else kwargs.get("parents"))
                if not isinstance(child, Obj) or child.lean is None or not isinstance(parents, ListObj):
                    raise Untranslatable("check on something that is not an input item")
                return ListObj([("sym", "(recCheck %s %s)" % (child.lean, emit_list(interp, parents)))])

            def rec_str(interp, obj, args, kwargs):
                if obj.lean is None:
                    raise Untranslatable("str of a new item")
                return SStr.var("(recStr %s)" % obj.lean)
            it.rec_hooks["check"] = rec_check
            it.rec_hooks["__str__"] = rec_str
            me.attrs["check"] = ("rechook", "check", me)
            try:
                res = it.call_function(C.LuceneCheck.__dict__["check"], [me, item, ListObj([("sym", "ps")])], {},
                                       owner=C.LuceneCheck, self_obj=me)
            except PyRaise as e:
                return emit_raise(e)
            if not isinstance(res, ListObj):
                raise Untranslatable("check does not yield messages")
            return "Except.ok %s" % emit_list(it, res)
        try:
            paths = explore(run)
            out.append(("check_%s" % cname, holder["p"], build_tree(paths, 0, 1), None, len(paths)))
        except Untranslatable as e:
            out.append(("check_%s" % cname, None, None, str(e), 0))
    return out


# ---------------------------------------------------------------------------------------------
# CheckNestedFields: the decision on a term, and the prefix a search field hands down
# ---------------------------------------------------------------------------------------------

def translate_nesting(C):
    """`CheckNestedFields._check_final_operation(node, {"prefix": px})` with the checker's five collections as
    variables, and the prefix `visit_search_field` computes for the expression of a field."""
    out = []

    def checker(it):
        me = Obj(C.CheckNestedFields, lean="@self")
        me.attrs["nested_prefixes"] = SColl("nestedPrefixes")
        me.attrs["object_prefixes"] = SColl("objectPrefixes")
        me.attrs["nested_fields"] = SColl("nestedFields")
        me.attrs["sub_fields"] = SOptColl("subFields")
        me.attrs["object_fields"] = SOptColl("objectFields")
        me.attrs["track_parents"] = True
        return me
    params = ["(nestedPrefixes objectPrefixes nestedFields : List Str)", "(subFields objectFields : Option (List Str))",
              "(px : List Str)", "(nodeStr : Str)"]

    def run_final(oracle):
        it = Interp(oracle)
        me = checker(it)
        it.rec_hooks["__str__"] = lambda interp, obj, args, kwargs: SStr.var("nodeStr")
        node = Obj(None, lean="node", lay="node.lay")
        f = it.getattr_(me, "_check_final_operation", None)
        try:
            res = it.call(f, [node, {"prefix": SColl("px")}], {}, None)
        except PyRaise as e:
            return emit_raise(e)
        if res is not None:
            raise Untranslatable("_check_final_operation returns something")
        return "Except.ok ()"
    try:
        paths = explore(run_final)
        out.append(("check_final_operation", params, "Unit", build_tree(paths, 0, 1), None, len(paths)))
    except Untranslatable as e:
        out.append(("check_final_operation", None, "Unit", None, str(e), 0))

    def run_prefix(oracle):
        it = Interp(oracle)
        me = checker(it)
        node = Obj(None, lean="node", lay="node.lay")
        node.attrs["name"] = SStr.var("name")
        captured = {}

        def rec_generic(interp, obj, args, kwargs):
            captured["ctx"] = args[1] if len(args) > 1 else kwargs.get("context")
            return ListObj([])
        it.rec_hooks["generic_visit"] = rec_generic
        me.attrs["generic_visit"] = ("rechook", "generic_visit", me)
        f = it.getattr_(me, "visit_search_field", None)
        try:
            it.call(f, [node, {"prefix": SColl("px"), "other": SStr.var("other")}], {}, None)
        except PyRaise as e:
            return emit_raise(e)
        ctx = captured.get("ctx")
        if not isinstance(ctx, dict) or not isinstance(ctx.get("prefix"), SColl):
            raise Untranslatable("visit_search_field does not hand a prefix down")
        kept = isinstance(ctx.get("other"), SStr) and ctx["other"].lean() == "other"
        return "Except.ok (%s, %s)" % (ctx["prefix"].lean(), "true" if kept else "false")
    try:
        paths = explore(run_prefix)
        out.append(("search_field_prefix", ["(px : List Str)", "(name other : Str)"], "(List Str × Bool)",
                    build_tree(paths, 0, 1), None, len(paths)))
    except Untranslatable as e:
        out.append(("search_field_prefix", None, "(List Str × Bool)", None, str(e), 0))
    return out


# ---------------------------------------------------------------------------------------------
# HTMLMarker.mark_node (naming.py): the class of a node, the nearest classified ancestor (a while loop), the tags
# ---------------------------------------------------------------------------------------------

MARK_LOOPS = [[("parent_class", "optstr"), ("parent_path", "path")]]


def translate_marker(N):
    """[(lean name, params, result type, body | None, error | None, paths)]:
    * `mark_node`: `HTMLMarker.mark_node(node, path, paths_ok, paths_ko, parcimonious)` -> the layout of the node it
      returns (it must return the node it was given); the effect of its `while` loop on (parent_class, parent_path) is
      the parameter `loop0`;
    * `mark_node_loop0`: ONE iteration of that loop from any state: `none` when the test fails, `some state'` after
      the body."""
    out = []

    def marker(it):
        me = Obj(N.HTMLMarker, lean="@self")
        me.attrs["ok_class"] = SStr.var("okClass")
        me.attrs["ko_class"] = SStr.var("koClass")
        me.attrs["element"] = SStr.var("element")
        return me

    def call(it, node):
        me = marker(it)
        f = it.getattr_(me, "mark_node", None)
        return it.call(f, [node, SPath("path"), SPathSet("ok"), SPathSet("ko"), SBool("parci")], {}, None)

    base = ["(okClass koClass element : Str)", "(ok ko : List (List Nat))"]

    def run_main(oracle):
        it = Interp(oracle)
        it.loops = MARK_LOOPS
        node = Obj(None, lean="node", lay="l")
        try:
            res = call(it, node)
        except PyRaise as e:
            return emit_raise(e)
        if res is not node:
            raise Untranslatable("mark_node does not return the node it was given")
        extra = sorted(node.written - set(LAY_ATTRS))
        if extra:
            raise Untranslatable("mark_node writes %s" % extra)
        return "Except.ok %s" % emit_lay(it, node)
    try:
        paths = explore(run_main)
        out.append(("mark_node", ["(loop0 : Option Str × List Nat → Option Str × List Nat)"] + base +
                    ["(path : List Nat)", "(parci : Bool)", "(l : Lay)"], "Lay", build_tree(paths, 0, 1), None, len(paths)))
    except Untranslatable as e:
        out.append(("mark_node", None, "Lay", None, str(e), 0))

    def run_loop(oracle):
        it = Interp(oracle)
        it.loops = MARK_LOOPS
        it.loop_body = 0
        node = Obj(None, lean="node", lay="l")
        try:
            call(it, node)
        except _LoopExit as e:
            return ("loop", "Except.ok (some %s)" % e.values if e.again else "Except.ok none")
        except PyRaise as e:
            if getattr(oracle, "cut", None) is None:
                return ("before", None)
            return ("loop", emit_raise(e))
        return ("before", None)
    try:
        raw = explore(run_loop)
        seen = {}
        for trace, res in raw:
            # explore() keeps the oracle's trace only; the cut position is the number of decisions before the loop:
            # recompute it by re-running (cheap) -- instead the runs record it in the result
            pass
        paths = []
        for trace, res in raw:
            if res[0] != "loop":
                continue
            paths.append((trace, res[1]))
        # the decisions taken before the loop are dropped: find, per path, where the loop started
        cut_paths = {}
        for trace, res in paths:
            cut = next((i for i, (d, _, _) in enumerate(trace) if d[0] == "loopstart"), None)
            if cut is None:
                raise Untranslatable("loop start not recorded")
            key = tuple((d, n, c) for d, n, c in trace[cut + 1:])
            if key in cut_paths and cut_paths[key] != res:
                raise Untranslatable("one iteration of the loop depends on what was computed before the loop")
            cut_paths[key] = res
        paths = [(list(k), v) for k, v in cut_paths.items()]
        if not paths:
            raise Untranslatable("mark_node has no while loop any more")
        out.append(("mark_node_loop0", base + ["(parent_class : Option Str)", "(parent_path : List Nat)"],
                    "(Option (Option Str × List Nat))", build_tree(paths, 0, 1), None, len(paths)))
    except Untranslatable as e:
        out.append(("mark_node_loop0", None, "(Option (Option Str × List Nat))", None, str(e), 0))
    return out


# ---------------------------------------------------------------------------------------------
# MatchingPropagator._propagate and _status_from_parent (naming.py)
# ---------------------------------------------------------------------------------------------

PROPAGATE_FOLDS = [[("paths_ok", "pathlist"), ("paths_ko", "pathlist"), ("children_status", "boollist")]]


def translate_propagate(N, T):
    """[(lean name, params, result type, body | None, error | None, paths)], for both default operations `D`:
    * `sfp`: `_status_from_parent(path, matching, other)`; its recursive call is the parameter `sfp`;
    * `propagate_<D>_<Class>`: `_propagate(node, matching, other, path)` on an instance of each concrete class; the
      recursive calls are the parameter `rec`, `_status_from_parent` the parameter `sfp`, and for the operations the
      effect of the loop over the operands (a list of unknown length) the parameter `for0`;
    * `propagate_<D>_for0`: ONE iteration of that loop, from any state, for any index and operand."""
    out = []
    RES = "(Bool × List (List Nat) × List (List Nat))"

    def propagator(it, default_or):
        me = Obj(N.MatchingPropagator, lean="@self")
        init = N.MatchingPropagator.__dict__["__init__"]
        it.call_function(init, [me], {"default_operation": T.OrOperation if default_or else T.AndOperation},
                         owner=N.MatchingPropagator, self_obj=me)

        def rec_propagate(interp, obj, args, kwargs):
            if kwargs or len(args) != 4:
                raise Untranslatable("_propagate called with unusual arguments")
            child, m, o, p = args
            if not (isinstance(m, SPathSet) and m.lean() == "m" and isinstance(o, SPathSet) and o.lean() == "o"):
                raise Untranslatable("_propagate does not hand matching / other down unchanged")
            if not isinstance(child, Obj) or child.lean is None or not isinstance(p, SPath):
                raise Untranslatable("_propagate on something that is not a child at a path")
            r = "(rec %s %s)" % (p.lean(), child.lean)
            return ListObj([("elem", SBool(r + ".1")), ("elem", SPathList(r + ".2.1")), ("elem", SPathList(r + ".2.2"))])

        def rec_sfp(interp, obj, args, kwargs):
            if kwargs or len(args) != 3:
                raise Untranslatable("_status_from_parent called with unusual arguments")
            p, m, o = args
            if not (isinstance(m, SPathSet) and m.lean() == "m" and isinstance(o, SPathSet) and o.lean() == "o"):
                raise Untranslatable("_status_from_parent does not get matching / other unchanged")
            if not isinstance(p, SPath):
                raise Untranslatable("_status_from_parent on something that is not a path")
            return SBool("(sfp %s)" % p.lean())
        it.rec_hooks["_propagate"] = rec_propagate
        it.rec_hooks["_status_from_parent"] = rec_sfp
        it.sets_are_paths = True
        it.list_truth_decision = True
        it.folds = PROPAGATE_FOLDS
        return me

    # ---- _status_from_parent, one level
    def run_sfp(oracle):
        it = Interp(oracle)
        me = propagator(it, True)
        fn = N.MatchingPropagator.__dict__["_status_from_parent"]
        me.attrs["_status_from_parent"] = ("rechook", "_status_from_parent", me)
        try:
            res = it.call_function(fn, [me, SPath("path"), SPathSet("m"), SPathSet("o")], {},
                                   owner=N.MatchingPropagator, self_obj=me)
        except PyRaise as e:
            return emit_raise(e)
        if not isinstance(res, (bool, SBool)):
            raise Untranslatable("_status_from_parent does not return a boolean")
        return "Except.ok %s" % bool_lean(res)
    try:
        paths = explore(run_sfp)
        out.append(("sfp", ["(sfp : List Nat → Bool)", "(m o : List (List Nat))", "(path : List Nat)"], "Bool",
                    build_tree(paths, 0, 1), None, len(paths)))
    except Untranslatable as e:
        out.append(("sfp", None, "Bool", None, str(e), 0))

    def result_lean(res):
        if not isinstance(res, ListObj) or len(res.segs) != 3:
            raise Untranslatable("_propagate does not return a triple")
        b, ok, ko = (x for _, x in res.segs)
        if not isinstance(b, (bool, SBool)) or not isinstance(ok, SPathList) or not isinstance(ko, SPathList):
            raise Untranslatable("_propagate returns %r" % ((b, ok, ko),))
        return "(%s, %s, %s)" % (bool_lean(b), ok.text, ko.text)
    base = ["(rec : List Nat → Tree → %s)" % RES, "(sfp : List Nat → Bool)", "(m o : List (List Nat))",
            "(path : List Nat)"]
    STATE = "(List (List Nat) × List (List Nat) × List Bool)"
    for default_or, dname in ((True, "or"), (False, "and")):
        for cname in PRINT_CLASSES:
            holder = {}
            is_op = cname.endswith("Operation")

            def run(oracle, cname=cname, default_or=default_or, holder=holder):
                it = Interp(oracle)
                me = propagator(it, default_or)
                me.attrs["_propagate"] = ("rechook", "_propagate", me)
                me.attrs["_status_from_parent"] = ("rechook", "_status_from_parent", me)
                node, params = class_inputs(T, cname)
                holder["p"] = params
                fn = N.MatchingPropagator.__dict__["_propagate"]
                try:
                    res = it.call_function(fn, [me, node, SPathSet("m"), SPathSet("o"), SPath("path")], {},
                                           owner=N.MatchingPropagator, self_obj=me)
                except PyRaise as e:
                    return emit_raise(e)
                return "Except.ok %s" % result_lean(res)
            name = "propagate_%s_%s" % (dname, cname)
            try:
                paths = explore(run)
                params = base + holder["p"]
                if is_op:
                    params = ["(for0 : %s → List Tree → %s)" % (STATE, STATE)] + params
                out.append((name, params, RES, build_tree(paths, 0, 1), None, len(paths)))
            except Untranslatable as e:
                out.append((name, None, RES, None, str(e), 0))

        # one iteration of the loop over the operands (the class of the operation does not matter: checked)
        bodies = {}
        for cname in [c for c in PRINT_CLASSES if c.endswith("Operation")]:
            def run_body(oracle, cname=cname, default_or=default_or):
                it = Interp(oracle)
                me = propagator(it, default_or)
                it.fold_body = 0
                me.attrs["_propagate"] = ("rechook", "_propagate", me)
                me.attrs["_status_from_parent"] = ("rechook", "_status_from_parent", me)
                node, params = class_inputs(T, cname)
                fn = N.MatchingPropagator.__dict__["_propagate"]
                try:
                    it.call_function(fn, [me, node, SPathSet("m"), SPathSet("o"), SPath("path")], {},
                                     owner=N.MatchingPropagator, self_obj=me)
                except _LoopExit as e:
                    return ("loop", "Except.ok %s" % e.values)
                except PyRaise as e:
                    return ("loop", emit_raise(e)) if any(d[0] == "loopstart" for d, _, _ in oracle.trace) \
                        else ("before", None)
                return ("before", None)
            try:
                raw = explore(run_body)
                cut_paths = {}
                for trace, res in raw:
                    if res[0] != "loop":
                        continue
                    cut = next(i for i, (d, _, _) in enumerate(trace) if d[0] == "loopstart")
                    key = tuple(trace[cut + 1:])
                    if key in cut_paths and cut_paths[key] != res[1]:
                        raise Untranslatable("one iteration of the loop depends on what was computed before the loop")
                    cut_paths[key] = res[1]
                if not cut_paths:
                    raise Untranslatable("no loop over the operands any more")
                bodies[cname] = build_tree([(list(k), v) for k, v in cut_paths.items()], 0, 1)
            except Untranslatable as e:
                bodies[cname] = ("error", str(e))
        name = "propagate_%s_for0" % dname
        vals = list(bodies.values())
        params = ["(rec : List Nat → Tree → %s)" % RES, "(m o : List (List Nat))", "(path : List Nat)",
                  "(paths_ok paths_ko : List (List Nat))", "(children_status : List Bool)", "(i : Nat)", "(child : Tree)"]
        if any(isinstance(v, tuple) for v in vals):
            out.append((name, None, STATE, None, next(v[1] for v in vals if isinstance(v, tuple)), 0))
        elif any(v != vals[0] for v in vals):
            out.append((name, None, STATE, None, "the loop over the operands differs between the operation classes", 0))
        else:
            out.append((name, params, STATE, vals[0], None, 1))
    return out


# ---------------------------------------------------------------------------------------------
# ElasticsearchQueryBuilder: the decisions of the leaves and of the AND / OR mix (elasticsearch/visitor.py)
# ---------------------------------------------------------------------------------------------

def translate_es(V, T):
    """(tables, defs):
    * tables: for every concrete class and both default operators, `_is_must` / `_is_should`; for every pair
      (parent class, child class) and both default operators, whether `_yield_nested_children` refuses the child;
      which kind of operation `visit_unknown_operation` builds;
    * defs [(lean name, params, type, body | None, error | None, paths)]: `visit_word` and `visit_phrase` on a symbolic
      node under a symbolic context (analysed marker absent / present, field prefix absent / present, a name handed
      down or not) for a builder with symbolic `default_field`, `_not_analyzed_fields`, `match_word_as_phrase`:
      the keyword arguments handed to `es_item_factory.build`; `visit_proximity`: which attribute receives the
      degree."""
    B = V.ElasticsearchQueryBuilder
    classes = list(PRINT_CLASSES)

    def builder(it, default_operator):
        me = Obj(B, lean="@self")
        me.attrs["default_operator"] = default_operator
        me.attrs["default_field"] = SStr.var("dflt")
        me.attrs["_not_analyzed_fields"] = SColl("na")
        me.attrs["match_word_as_phrase"] = SBool("asPhrase")
        return me

    def concrete(fn_name, default_operator, make_args):
        res = {}

        def run(oracle):
            it = Interp(oracle)
            me = builder(it, default_operator)
            args = make_args(it, me)
            f = it.getattr_(me, fn_name, None)
            try:
                r = it.call(f, args, {}, None)
            except PyRaise as e:
                return ("raise", e.cls.__name__)
            if isinstance(r, ListObj):
                it.normalize_list(r)
                return ("yield", len(r.segs))
            return ("value", r)
        paths = explore(run)
        if len(paths) != 1:
            raise Untranslatable("%s depends on more than the classes and the default operator" % fn_name)
        return paths[0][1]

    tables = {"is_must": [], "is_should": [], "mix": [], "unknown": []}
    for cname in classes:
        row_m, row_s = [], []
        for dop in (B.MUST, B.SHOULD):
            for name, row in (("_is_must", row_m), ("_is_should", row_s)):
                kind, val = concrete(name, dop, lambda it, me, cname=cname: [class_inputs(T, cname)[0]])
                if kind != "value" or not isinstance(val, bool):
                    raise Untranslatable("%s does not return a boolean" % name)
                row.append(val)
        tables["is_must"].append((cname, row_m[0], row_m[1]))
        tables["is_should"].append((cname, row_s[0], row_s[1]))
    for pc in classes:
        for cc in classes:
            row = []
            for dop in (B.MUST, B.SHOULD):
                def args(it, me, pc=pc, cc=cc):
                    me.attrs["_get_operator_extract"] = ("rechook", "_get_operator_extract", me)
                    it.rec_hooks["_get_operator_extract"] = lambda interp, obj, a, k: SStr.var("extract")
                    parent = class_inputs(T, pc)[0]
                    child = class_inputs(T, cc)[0]
                    return [parent, ListObj([("elem", child)])]
                kind, val = concrete("_yield_nested_children", dop, args)
                if kind == "raise":
                    if val != "OrAndAndOnSameLevel":
                        raise Untranslatable("_yield_nested_children raises %s" % val)
                    row.append(True)
                elif kind == "yield" and val == 1:
                    row.append(False)
                else:
                    raise Untranslatable("_yield_nested_children neither yields the child nor raises")
            if row[0] or row[1]:
                tables["mix"].append((pc, cc, row[0], row[1]))
    for dop in (B.MUST, B.SHOULD):
        def args(it, me):
            for nm in ("_should_operation", "_must_operation"):
                me.attrs[nm] = ("rechook", nm, me)
            it.rec_hooks["_should_operation"] = lambda interp, obj, a, k: ListObj([("elem", "should")])
            it.rec_hooks["_must_operation"] = lambda interp, obj, a, k: ListObj([("elem", "must")])
            return [class_inputs(T, "UnknownOperation")[0], {}]

        def run(oracle, dop=dop):
            it = Interp(oracle)
            me = builder(it, dop)
            a = args(it, me)
            r = it.call(it.getattr_(me, "visit_unknown_operation", None), a, {}, None)
            if isinstance(r, list):
                r = ListObj([("elem", x) for x in r])
            it.normalize_list(r)
            return r.segs[0][1]
        paths = explore(run)
        if len(paths) != 1 or paths[0][1] not in ("must", "should"):
            raise Untranslatable("visit_unknown_operation")
        tables["unknown"].append((dop, paths[0][1]))

    # ---- the leaves
    defs = []

    def opt_str_lean(v):
        if v is None:
            return "none"
        if isinstance(v, SOpt):
            return v.lean()
        if isinstance(v, (str, SStr)):
            return "(some %s)" % str_lean(v)
        raise Untranslatable("not an optional string: %r" % (v,))

    def fields_lean(v):
        if isinstance(v, SColl):
            return v.lean()
        if isinstance(v, ListObj) and all(k == "elem" and isinstance(x, (str, SStr)) for k, x in v.segs):
            return "[" + ", ".join(str_lean(x) for _, x in v.segs) + "]"
        raise Untranslatable("not a list of field names: %r" % (v,))

    def leaf_run(meth, cname, marker, prefix):
        def run(oracle):
            it = Interp(oracle)
            me = builder(it, B.SHOULD)
            captured = {}

            def rec_build(interp, obj, a, k):
                captured["cls"] = a[0].__name__ if a and isinstance(a[0], type) else None
                captured["kw"] = k
                return Obj(None, lean="@eitem")
            fac = Obj(None, lean="@factory")
            fac.attrs["build"] = ("rechook", "build", fac)
            it.rec_hooks["build"] = rec_build
            me.attrs["es_item_factory"] = fac
            node, params = class_inputs(T, cname)
            node.attrs["_luqum_name"] = SOpt("nodeName", "str")
            ctx = {"name": SOpt("ctxName", "str")}
            if marker:
                ctx[B.CONTEXT_ANALYZE_MARKER] = SBool("marker")
            if prefix:
                ctx[B.CONTEXT_FIELD_PREFIX] = SColl("pfx")
            try:
                r = it.call(it.getattr_(me, meth, None), [node, ctx], {}, None)
            except PyRaise as e:
                return emit_raise(e)
            if isinstance(r, list):
                r = ListObj([("elem", x) for x in r])
            it.normalize_list(r)
            if len(r.segs) != 1 or not isinstance(r.segs[0][1], Obj) or r.segs[0][1].lean != "@eitem":
                raise Untranslatable("%s does not yield exactly the built item" % meth)
            kw = dict(captured["kw"])
            q = kw.pop("q", kw.pop("phrase", None))
            method = kw.pop("method", None)
            fields = kw.pop("fields", None)
            name = kw.pop("_name", None)
            if kw:
                raise Untranslatable("unexpected arguments %s" % sorted(kw))
            return "Except.ok { cls := %s, q := %s, method := %s, fields := %s, name := %s }" % (
                lean_string(captured["cls"] or "?"), str_lean(q), opt_str_lean(method), fields_lean(fields),
                opt_str_lean(name))
        return run
    for meth, cname in (("visit_word", "Word"), ("visit_phrase", "Phrase")):
        for marker in (False, True):
            for prefix in (False, True):
                name = "%s_%s_%s" % (meth, "marker" if marker else "nomarker", "prefix" if prefix else "noprefix")
                params = ["(dflt : Str)", "(na : List Str)", "(asPhrase : Bool)", "(value : Str)",
                          "(nodeName ctxName : Option Str)"]
                if marker:
                    params.append("(marker : Bool)")
                if prefix:
                    params.append("(pfx : List Str)")
                try:
                    paths = explore(leaf_run(meth, cname, marker, prefix))
                    defs.append((name, params, "LeafArgs", build_tree(paths, 0, 1), None, len(paths)))
                except Untranslatable as e:
                    defs.append((name, None, "LeafArgs", None, str(e), 0))
    # ---- the modifiers: which attribute of the built item receives the number
    def mod_run(meth, cname, marker):
        def run(oracle):
            it = Interp(oracle)
            me = builder(it, B.SHOULD)
            eitem = Obj(None, lean="@eitem")

            def rec_generic(interp, obj, a, k):
                return ListObj([("elem", eitem)])
            me.attrs["generic_visit"] = ("rechook", "generic_visit", me)
            it.rec_hooks["generic_visit"] = rec_generic
            node, params = class_inputs(T, cname)
            ctx = {"name": SOpt("ctxName", "str")}
            if marker:
                ctx[B.CONTEXT_ANALYZE_MARKER] = SBool("marker")
            try:
                r = it.call(it.getattr_(me, meth, None), [node, ctx], {}, None)
            except PyRaise as e:
                return emit_raise(e)
            if isinstance(r, list):
                r = ListObj([("elem", x) for x in r])
            it.normalize_list(r)
            if len(r.segs) != 1 or r.segs[0][1] is not eitem:
                raise Untranslatable("%s does not yield exactly the item built for its operand" % meth)
            written = sorted(eitem.written)
            if len(written) != 1:
                raise Untranslatable("%s sets %s" % (meth, written))
            v = eitem.attrs[written[0]]
            if not (isinstance(v, tuple) and v and v[0] == "float" and isinstance(v[1], NumVal) and v[1].lean_name == "n"):
                raise Untranslatable("%s stores %r" % (meth, v))
            return "Except.ok %s" % lean_string(written[0])
        return run
    for meth, cname in (("visit_boost", "Boost"), ("visit_fuzzy", "Fuzzy"), ("visit_proximity", "Proximity")):
        for marker in (False, True):
            name = "%s_%s" % (meth, "marker" if marker else "nomarker")
            params = ["(dflt : Str)", "(na : List Str)"] + (["(marker : Bool)"] if marker else [])
            try:
                paths = explore(mod_run(meth, cname, marker))
                defs.append((name, params, "String", build_tree(paths, 0, 1), None, len(paths)))
            except Untranslatable as e:
                defs.append((name, None, "String", None, str(e), 0))
    # ---- visit_search_field: the context handed down to the expression of a field (analysed marker, field prefix)
    class _Captured(Exception):
        def __init__(self, ctx):
            self.ctx = ctx

    def field_run(prefix):
        def run(oracle):
            it = Interp(oracle)
            me = builder(it, B.SHOULD)

            def rec_visit_iter(interp, obj, a, k):
                raise _Captured(a[1] if len(a) > 1 else k.get("context"))
            me.attrs["visit_iter"] = ("rechook", "visit_iter", me)
            it.rec_hooks["visit_iter"] = rec_visit_iter
            node, params = class_inputs(T, "SearchField")
            node.attrs["_luqum_name"] = SOpt("nodeName", "str")
            ctx = {"name": SOpt("ctxName", "str"), "other": SStr.var("other")}
            if prefix:
                ctx[B.CONTEXT_FIELD_PREFIX] = SColl("pfx")
            try:
                it.call(it.getattr_(me, "visit_search_field", None), [node, ctx], {}, None)
            except _Captured as c:
                cc = c.ctx
                if not isinstance(cc, dict) or cc is ctx:
                    raise Untranslatable("visit_search_field hands its own context down")
                mk, pf = cc.get(B.CONTEXT_ANALYZE_MARKER), cc.get(B.CONTEXT_FIELD_PREFIX)
                if not isinstance(mk, (bool, SBool)) or not isinstance(pf, SColl):
                    raise Untranslatable("visit_search_field hands down marker %r, prefix %r" % (mk, pf))
                kept = isinstance(cc.get("other"), SStr) and cc["other"].lean() == "other"
                return "Except.ok (%s, %s, %s)" % (bool_lean(mk), pf.lean(), "true" if kept else "false")
            except PyRaise as e:
                return emit_raise(e)
            raise Untranslatable("visit_search_field does not visit the expression of the field")
        return run
    for prefix in (False, True):
        name = "visit_search_field_context_%s" % ("prefix" if prefix else "noprefix")
        params = ["(na : List Str)", "(name other : Str)", "(nodeName ctxName : Option Str)"] + (["(pfx : List Str)"] if prefix else [])
        try:
            paths = explore(field_run(prefix))
            defs.append((name, params, "FieldCtx", build_tree(paths, 0, 1), None, len(paths)))
        except Untranslatable as e:
            defs.append((name, None, "FieldCtx", None, str(e), 0))
    return tables, defs
