"""rewrites the section of DESIGN.md between the markers <!-- SEEDED:BEGIN --> / <!-- SEEDED:END --> from
seeded/*/meta.json"""
import glob
import json
import os

VERIF = os.path.dirname(os.path.dirname(os.path.abspath(__file__)))
rows = []
for f in sorted(glob.glob(os.path.join(VERIF, "seeded", "*", "meta.json"))):
    m = json.load(open(f))
    rows.append("| %s | %s | %s | %s | %s |" % (m["id"], m["breaks_property"], m["what_it_breaks"].replace("|", "/"),
                                               m["needs_to_manifest"].replace("|", "/"), m["caught_by"].replace("|", "/")))
table = ("| id | property | change | needs, to manifest | caught by |\n|----|----------|--------|--------------------|-----------|\n"
         + "\n".join(rows) + "\n")
p = os.path.join(VERIF, "DESIGN.md")
s = open(p).read()
b, e = "<!-- SEEDED:BEGIN -->", "<!-- SEEDED:END -->"
if b not in s:
    s += "\n\n## 9. Seeded changes: which checks catch which\n\n" + SECTION_INTRO if False else ""
    s += ("\n\n---------------------------------------------------------------------------------------------\n\n"
          "## 9. Seeded changes: which checks catch which\n\n"
          "Each change below was written by a fresh sub-agent that was given only the text of one property and its own\n"
          "scratch worktree of /repo (nothing from /verif), asked for a realistic change that breaks the property, keeps\n"
          "the pinned suite green and needs something specific to manifest. Each was confirmed with `tools/seedtest.py`\n"
          "(suite 363 passed with the patch in a scratch worktree; demo exits 0 without and 1 with it), then applied to\n"
          "/repo, the checks run, and /repo restored. `seeded/<id>/` holds patch.diff, demo.py and meta.json. Where a check\n"
          "missed a change at first, the generator / oracle / harness was strengthened (never the property) and the\n"
          "column says so.\n\n" + b + "\n" + e + "\n")
i, j = s.index(b) + len(b), s.index(e)
s = s[:i] + "\n" + table + s[j:]
open(p, "w").write(s)
print("DESIGN.md: %d seeded changes" % len(rows))
