"""Completeness certificate for the LALR tables of `luqum.parser` (property C03, direction
grammar => parser: every token sequence that spells a canonical tree is accepted, with that tree).

`certificate(parser)` computes the least certificate (RU, G) closed under the sub-goals that the
productions of `unary_expression` generate, starting from the goal "an expression in state 0 followed
by $end"; `emit_lean(parser)` renders it as `Luqum/Generated/Compl.lean`.  The certificate is
re-checked in Lean by `Luqum.Compl.complOK` (Luqum/Lemmas/ComplDefs.lean), whose soundness is proved
for arbitrary tables and certificates (Luqum/Lemmas/ComplMain.lean, `Props.C03c.run_complete`);
nothing here is trusted.

RU: pairs (state, look-ahead terminal).  (s, a) in RU means: from any configuration whose top state
    is `s`, reading the tokens of any canonical non-operation tree `t` followed by a token of kind
    `a` (or the end of the input for `$end`) -- with a != BOOST when `t` is a prefix operation or a
    field -- the driver reaches, without consuming the token after `t`, the configuration with
    `goto[s][unary_expression]` and the item for `t` pushed on the same stack.
G:  states (entered on LPAREN) from which any canonical expression followed by RPAREN is handled up
    to `goto[s][expression]`.

The methods `chk_*` mirror the functions `Luqum.Compl.chk*` of Luqum/Lemmas/ComplDefs.lean literally
(`None` plays the part of `Option.any` on `none`).
"""

N_U, N_E, N_PT, N_PPNT = ("unary_expression", "expression", "phrase_or_term",
                          "phrase_or_possibly_negative_term")
UNIT_ACTS = ["p_expression_unary", "p_possibly_negative_term", "p_phrase_or_possibly_negative_term",
             "p_quoting", "p_terms", "p_regex", "p_phrase_or_term"]      # `Luqum.unitActs`
FIRST = ["TERM", "PHRASE", "REGEX", "TO", "PLUS", "MINUS", "NOT", "LPAREN", "LBRACKET", "LESSTHAN",
         "GREATERTHAN"]                                                  # `Luqum.Compl.firstNames`
CHAIN_FUEL = 4                                                           # `Luqum.Compl.chainFuel`


class Chk:
    """the checker, parametrised by the membership tests of RU and G"""

    def __init__(self, parser, in_ru, in_g):
        self.act, self.goto, self.prods = parser.action, parser.goto, parser.productions
        self.in_ru, self.in_g = in_ru, in_g

    # ---- table access (`shiftTo`, `redBy`, `gotoN`, `redTo`, `chainTo`, `chkLeaf`) --------------
    def shift_to(self, s, name):
        if s is None:
            return None
        v = self.act.get(s, {}).get(name)
        return v if v is not None and v > 0 else None

    def red_by(self, s, name):
        if s is None:
            return None
        v = self.act.get(s, {}).get(name)
        if v is None or v >= 0:
            return None
        p = self.prods[-v]
        return (p.name, p.len, p.func)

    def goto_n(self, s, nt):
        if s is None:
            return None
        return self.goto.get(s, {}).get(nt)

    def red_to(self, s0, cur, a, f, n):
        p = self.red_by(cur, a)
        if p is None or p[2] != f or p[1] != n:
            return None
        return self.goto_n(s0, p[0])

    def chain_to(self, s0, a, target, fuel, cur):
        if cur is None:
            return False
        if self.goto_n(s0, target) == cur:
            return True
        if fuel == 0:
            return False
        p = self.red_by(cur, a)
        if p is None or p[1] != 1 or p[2] not in UNIT_ACTS:
            return False
        g = self.goto_n(s0, p[0])
        return g is not None and self.chain_to(s0, a, target, fuel - 1, g)

    def chk_leaf(self, s, tok, a, target):
        return self.chain_to(s, a, target, CHAIN_FUEL, self.shift_to(s, tok))

    # ---- phrase_or_term, range bounds -----------------------------------------------------------
    def chk_pt(self, s, a):
        return (s is not None and self.chk_leaf(s, "TERM", a, N_PT) and
                self.chk_leaf(s, "PHRASE", a, N_PT))

    def chk_neg(self, s, a):
        s3 = self.shift_to(s, "MINUS")
        g = self.red_to(s, self.goto_n(s3, N_PT), a, "p_possibly_negative_term", 2)
        return self.chk_pt(s3, a) and self.chain_to(s, a, N_PPNT, CHAIN_FUEL, g)

    def chk_bound(self, s, a):
        return (s is not None and self.chk_leaf(s, "TERM", a, N_PPNT) and
                self.chk_leaf(s, "PHRASE", a, N_PPNT) and self.chk_neg(s, a))

    # ---- expression levels ----------------------------------------------------------------------
    def chk_ue(self, s, a):
        return (s is not None and a != "BOOST" and self.in_ru(s, a) and
                self.chain_to(s, a, N_E, CHAIN_FUEL, self.goto_n(s, N_U)))

    def chk_level(self, sub, op, f, s, a):
        if s is None:
            return False
        e = self.goto_n(s, N_E)
        so = self.shift_to(e, op)
        eo = self.goto_n(so, N_E)
        return (sub(s, a) and sub(s, op) and e is not None and eo is not None and
                sub(so, op) and sub(so, a) and
                self.red_to(s, eo, op, f, 3) == e and self.red_to(s, eo, a, f, 3) == e)

    def chk_and(self, s, a):
        return self.chk_level(self.chk_ue, "AND_OP", "p_expression_and", s, a)

    def chk_or(self, s, a):
        return self.chk_level(self.chk_and, "OR_OP", "p_expression_or", s, a)

    def chk_expr(self, s, a):
        if s is None:
            return False
        e = self.goto_n(s, N_E)
        ei = self.goto_n(e, N_E)
        return (self.chk_or(s, a) and e is not None and ei is not None and self.chk_or(e, a) and
                self.red_to(s, ei, a, "p_expression_implicit", 2) == e and
                all(self.chk_or(s, f) and self.chk_or(e, f) and
                    self.red_to(s, ei, f, "p_expression_implicit", 2) == e for f in FIRST))

    # ---- unary_expression -----------------------------------------------------------------------
    def chk_to(self, s, a, u):
        return self.red_to(s, self.shift_to(s, "TO"), a, "p_to_as_term", 1) == u

    def chk_approx(self, s, tok, f, a, u):
        return self.red_to(s, self.shift_to(self.shift_to(s, tok), "APPROX"), a, f, 2) == u

    def chk_group(self, s, a, u):
        s1 = self.shift_to(s, "LPAREN")
        s2 = self.shift_to(self.goto_n(s1, N_E), "RPAREN")
        return s1 is not None and self.in_g(s1) and self.red_to(s, s2, a, "p_grouping", 3) == u

    def chk_range(self, s, a, u):
        s1 = self.shift_to(s, "LBRACKET")
        s2 = self.shift_to(self.goto_n(s1, N_PPNT), "TO")
        s3 = self.shift_to(self.goto_n(s2, N_PPNT), "RBRACKET")
        return (self.chk_bound(s1, "TO") and self.chk_bound(s2, "RBRACKET") and
                self.red_to(s, s3, a, "p_range", 5) == u)

    def chk_orange(self, s, tok, f, a, u):
        s1 = self.shift_to(s, tok)
        return self.chk_pt(s1, a) and self.red_to(s, self.goto_n(s1, N_PT), a, f, 2) == u

    def chk_boost(self, s, a, u):
        return (self.in_ru(s, "BOOST") and
                self.red_to(s, self.shift_to(u, "BOOST"), a, "p_boosting", 2) == u)

    def chk_prefix(self, s, tok, f, a, u):
        s1 = self.shift_to(s, tok)
        return (s1 is not None and self.in_ru(s1, a) and
                self.red_to(s, self.goto_n(s1, N_U), a, f, 2) == u)

    def chk_field(self, s, a, u):
        s2 = self.shift_to(self.shift_to(s, "TERM"), "COLUMN")
        return (s2 is not None and self.in_ru(s2, a) and
                self.red_to(s, self.goto_n(s2, N_U), a, "p_field_search", 3) == u)

    def chk_pre(self, s, a, u):
        return (self.chk_prefix(s, "PLUS", "p_expression_plus", a, u) and
                self.chk_prefix(s, "MINUS", "p_expression_minus", a, u) and
                self.chk_prefix(s, "NOT", "p_expression_not", a, u) and
                self.chk_field(s, a, u))

    def chk_u(self, s, a):
        u = self.goto_n(s, N_U)
        return (u is not None and
                self.chk_leaf(s, "TERM", a, N_U) and self.chk_leaf(s, "PHRASE", a, N_U) and
                self.chk_leaf(s, "REGEX", a, N_U) and self.chk_to(s, a, u) and
                self.chk_approx(s, "TERM", "p_fuzzy", a, u) and
                self.chk_approx(s, "PHRASE", "p_proximity", a, u) and
                self.chk_group(s, a, u) and self.chk_range(s, a, u) and
                self.chk_orange(s, "LESSTHAN", "p_lessthan", a, u) and
                self.chk_orange(s, "GREATERTHAN", "p_greaterthan", a, u) and
                self.chk_boost(s, a, u) and
                (a == "BOOST" or self.chk_pre(s, a, u)))

    def chk_accept(self):
        e = self.goto_n(0, N_E)
        return e is not None and self.act.get(e, {}).get("$end") == 0

    def compl_ok(self, ru, g):
        return (all(self.chk_u(s, a) for (s, a) in ru) and all(self.chk_expr(s, "RPAREN") for s in g) and
                self.chk_expr(0, "$end") and self.chk_accept())


def certificate(parser):
    """least (RU, G): every membership the checker asks for is granted, until nothing new is asked"""
    ru, g = set(), set()
    while True:
        asked_ru, asked_g = set(), set()

        def in_ru(s, a):
            asked_ru.add((s, a))
            return True

        def in_g(s):
            asked_g.add(s)
            return True

        Chk(parser, in_ru, in_g).compl_ok(sorted(ru), sorted(g))
        if asked_ru <= ru and asked_g <= g:
            return sorted(ru), sorted(g)
        ru |= asked_ru
        g |= asked_g


def check(parser, ru, g):
    """python replica of `Luqum.Compl.complOK`; returns the list of failing items"""
    rset, gset = set(ru), set(g)
    c = Chk(parser, lambda s, a: (s, a) in rset, lambda s: s in gset)
    bad = [(s, a) for (s, a) in ru if not c.chk_u(s, a)]
    bad += [("group", s) for s in g if not c.chk_expr(s, "RPAREN")]
    if not c.chk_expr(0, "$end"):
        bad.append("start")
    if not c.chk_accept():
        bad.append("accept")
    return bad


HEADER = "-- GENERATED by tools/complcert.py from the live PLY tables of /repo's working tree. Do not edit.\n"


def emit_lean(parser):
    """text of Luqum/Generated/Compl.lean (deterministic)"""
    ru, g = certificate(parser)
    rows = ",\n".join("  (%d, \"%s\")" % p for p in ru)
    return HEADER + """namespace Luqum.Generated

/-- completeness certificate: the pairs (state, look-ahead terminal) for which a canonical
`unary_expression` subtree is claimed to be parsed up to `goto[state][unary_expression]` -/
def complRU : List (Nat × String) := [
%s
]
/-- completeness certificate: the states (entered on `LPAREN`) from which a canonical expression
followed by `RPAREN` is claimed to be parsed up to `goto[state][expression]` -/
def complG : List Nat := [%s]

end Luqum.Generated
""" % (rows, ", ".join(str(s) for s in g))


if __name__ == "__main__":
    import sys
    import luqum.parser as P
    ru, g = certificate(P.parser)
    print("pairs", len(ru), "group states", g, "failing", check(P.parser, ru, g), file=sys.stderr)
    if len(sys.argv) > 1:
        with open(sys.argv[1], "w", encoding="utf-8") as f:
            f.write(emit_lean(P.parser))
    else:
        sys.stdout.write(emit_lean(P.parser))
