#!/bin/sh
# run every check (quick) for the given seeds; print only the summary lines and any VIOLATION
cd "$(dirname "$0")/.." || exit 2
seeds="${1:-0}"
for s in $(echo "$seeds" | tr ',' ' '); do
  for i in 01 02 03 04 05 06 07 08 09 10 11 12 13 14 15 16 17 18 19 20; do
    VERIF_SEED=$s ./check C$i --tier "${2:-quick}" 2>&1 | grep -E "^(VIOLATION|C$i )|Traceback|Error" | cut -c1-300
  done
done
