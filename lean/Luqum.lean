import Luqum.Model.Basic
