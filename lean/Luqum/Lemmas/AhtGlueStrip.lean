/-
  Luqum.Lemmas.AhtGlueStrip — the conditions of the print-and-reparse theorem that do not look at the
  layout: `strip` erases every layout attribute; the canonical form (`CanonAt`), `WordsOK`, `numsOK`
  and `validTexts` of a tree are those of its stripped form.  Two trees related by `layRel` (the input
  and the result of `auto_head_tail`) have the same stripped form; a blank layout is kept.
-/
import Luqum.Lemmas.AhtGlueDefs

namespace Luqum.Lemmas.AhtGlue
open Luqum Luqum.Lemmas.Aht

mutual
/-- the tree without any layout attribute -/
def strip : Tree → Tree
  | .term k v _ => .term k v {}
  | .field n e _ => .field n (strip e) {}
  | .group k e _ => .group k (strip e) {}
  | .range a b il ih _ => .range (strip a) (strip b) il ih {}
  | .approx k t n _ => .approx k (strip t) n {}
  | .boost e n _ => .boost (strip e) n {}
  | .op k xs _ => .op k (strips xs) {}
  | .unary k a _ => .unary k (strip a) {}
  | .orange k a i _ => .orange k (strip a) i {}
  | .none _ => .none {}
def strips : List Tree → List Tree
  | [] => []
  | x :: r => strip x :: strips r
end

mutual
theorem layRel_strip : ∀ (t' t : Tree), layRel t' t → strip t' = strip t
  | .term .., t, h => by cases t <;> simp_all [layRel, strip]
  | .none .., t, h => by cases t <;> simp_all [layRel, strip]
  | .field _ e' _, t, h => by
    cases t <;> simp [layRel] at h
    simp [strip, h, layRel_strip e' _ h.2.1]
  | .group _ e' _, t, h => by
    cases t <;> simp [layRel] at h
    simp [strip, h, layRel_strip e' _ h.2.1]
  | .approx _ e' _ _, t, h => by
    cases t <;> simp [layRel] at h
    simp [strip, h, layRel_strip e' _ h.2.2.1]
  | .boost e' _ _, t, h => by
    cases t <;> simp [layRel] at h
    simp [strip, h, layRel_strip e' _ h.2.1]
  | .unary _ e' _, t, h => by
    cases t <;> simp [layRel] at h
    simp [strip, h, layRel_strip e' _ h.2.1]
  | .orange _ e' _ _, t, h => by
    cases t <;> simp [layRel] at h
    simp [strip, h, layRel_strip e' _ h.2.2.1]
  | .range a' b' _ _ _, t, h => by
    cases t <;> simp [layRel] at h
    simp [strip, h, layRel_strip a' _ h.2.2.1, layRel_strip b' _ h.2.2.2.1]
  | .op _ xs' _, t, h => by
    cases t <;> simp [layRel] at h
    simp [strip, h, layRels_strips xs' _ h.2.1]
theorem layRels_strips : ∀ (xs' xs : List Tree), layRels xs' xs → strips xs' = strips xs
  | [], xs, h => by cases xs <;> simp_all [layRels, strips]
  | x' :: r', xs, h => by
    cases xs <;> simp [layRels] at h
    simp [strips, layRel_strip x' _ h.1, layRels_strips r' _ h.2]
end

/-! ### shape predicates -/

@[simp] theorem isOp'_strip (t : Tree) : isOp' (strip t) = isOp' t := by
  cases t <;> simp [strip, isOp']
@[simp] theorem isOpK_strip (k : OpK) (t : Tree) : isOpK k (strip t) = isOpK k t := by
  cases t <;> simp [strip, isOpK]
@[simp] theorem isUnary_strip (t : Tree) : isUnary (strip t) = isUnary t := by
  cases t <;> simp [strip, isUnary]
@[simp] theorem isField_strip (t : Tree) : isField (strip t) = isField t := by
  cases t <;> simp [strip, isField]
@[simp] theorem isWord_strip (t : Tree) : isWord (strip t) = isWord t := by
  cases t with
  | term k v l => cases k <;> simp [strip, isWord]
  | _ => simp [strip, isWord]
@[simp] theorem isPhrase_strip (t : Tree) : isPhrase (strip t) = isPhrase t := by
  cases t with
  | term k v l => cases k <;> simp [strip, isPhrase]
  | _ => simp [strip, isPhrase]
@[simp] theorem isWP_strip (t : Tree) : isWP (strip t) = isWP t := by
  cases t with
  | term k v l => cases k <;> simp [strip, isWP]
  | _ => simp [strip, isWP]
@[simp] theorem isBound_strip (t : Tree) : isBound (strip t) = isBound t := by
  cases t with
  | term k v l => cases k <;> simp [strip, isBound]
  | unary k e l => cases k <;> simp [strip, isBound]
  | _ => simp [strip, isBound]
@[simp] theorem operandOK_strip (k : OpK) (t : Tree) : operandOK k (strip t) = operandOK k t := by
  cases k <;> simp [operandOK]
@[simp] theorem wordTerm_strip (t : Tree) : Compl.wordTerm (strip t) = Compl.wordTerm t := by
  cases t with
  | term k v l => cases k <;> simp [strip, Compl.wordTerm]
  | _ => simp [strip, Compl.wordTerm]
@[simp] theorem boundText_strip (t : Tree) : Compl.boundText (strip t) = Compl.boundText t := by
  cases t with
  | term k v l => cases k <;> simp [strip, Compl.boundText, Compl.wordTerm]
  | unary k e l =>
    cases k
    · simp [strip, Compl.boundText, Compl.wordTerm]
    · simp [strip, Compl.boundText, Compl.wordTerm]
    · simp only [strip, Compl.boundText]; exact wordTerm_strip e
  | _ => simp [strip, Compl.boundText, Compl.wordTerm]

theorem strips_length : ∀ xs : List Tree, (strips xs).length = xs.length
  | [] => rfl
  | x :: r => by simp [strips, strips_length r]

theorem strips_all_operandOK (k : OpK) : ∀ xs : List Tree,
    (strips xs).all (operandOK k) = xs.all (operandOK k)
  | [] => rfl
  | x :: r => by simp [strips, strips_all_operandOK k r]

/-! ### the conditions do not look at the layout -/

mutual
theorem canonAt_strip : ∀ (uf : Bool) (t : Tree), CanonAt uf (strip t) = CanonAt uf t
  | _, .term .. => by simp [strip, CanonAt]
  | _, .none _ => by simp [strip, CanonAt]
  | _, .op k xs _ => by
    simp only [strip, CanonAt, strips_length, canonsAt_strips xs, strips_all_operandOK]
  | _, .unary _ e _ => by simp [strip, CanonAt, canonAt_strip false e]
  | _, .field _ e _ => by simp [strip, CanonAt, canonAt_strip true e]
  | uf, .group k e _ => by simp [strip, CanonAt, canonAt_strip false e]
  | _, .boost e _ _ => by simp [strip, CanonAt, canonAt_strip false e]
  | _, .approx k e _ _ => by cases k <;> simp [strip, CanonAt]
  | _, .range lo hi _ _ _ => by simp [strip, CanonAt]
  | _, .orange _ e _ _ => by simp [strip, CanonAt]
theorem canonsAt_strips : ∀ xs : List Tree, CanonsAt (strips xs) = CanonsAt xs
  | [] => by simp [strips]
  | x :: r => by simp [strips, CanonsAt, canonAt_strip false x, canonsAt_strips r]
end

mutual
theorem wordsOK_strip : ∀ t : Tree, WordsOK (strip t) = WordsOK t
  | .term k v l => by cases k <;> simp [strip, WordsOK]
  | .none _ => by simp [strip, WordsOK]
  | .op k xs _ => by simp only [strip, WordsOK, wordssOK_strips xs]
  | .unary _ e _ => by simp [strip, WordsOK, wordsOK_strip e]
  | .field _ e _ => by simp [strip, WordsOK, wordsOK_strip e]
  | .group k e _ => by simp [strip, WordsOK, wordsOK_strip e]
  | .boost e _ _ => by simp [strip, WordsOK, wordsOK_strip e]
  | .approx k e _ _ => by cases k <;> simp [strip, WordsOK]
  | .range lo hi _ _ _ => by simp [strip, WordsOK]
  | .orange _ e _ _ => by simp [strip, WordsOK]
theorem wordssOK_strips : ∀ xs : List Tree, WordssOK (strips xs) = WordssOK xs
  | [] => by simp [strips]
  | x :: r => by simp [strips, WordssOK, wordsOK_strip x, wordssOK_strips r]
end

mutual
theorem numsOK_strip : ∀ t : Tree, numsOK (strip t) = numsOK t
  | .term k v l => by simp [strip, numsOK]
  | .none _ => by simp [strip, numsOK]
  | .op k xs _ => by simp only [strip, numsOK, numssOK_strips xs]
  | .unary _ e _ => by simp [strip, numsOK, numsOK_strip e]
  | .field _ e _ => by simp [strip, numsOK, numsOK_strip e]
  | .group k e _ => by simp [strip, numsOK, numsOK_strip e]
  | .boost e _ _ => by simp [strip, numsOK, numsOK_strip e]
  | .approx k e _ _ => by cases k <;> simp [strip, numsOK, numsOK_strip e]
  | .range lo hi _ _ _ => by simp [strip, numsOK, numsOK_strip lo, numsOK_strip hi]
  | .orange _ e _ _ => by simp [strip, numsOK, numsOK_strip e]
theorem numssOK_strips : ∀ xs : List Tree, numssOK (strips xs) = numssOK xs
  | [] => by simp [strips]
  | x :: r => by simp [strips, numssOK, numsOK_strip x, numssOK_strips r]
end

mutual
theorem validTexts_strip : ∀ t : Tree, validTexts (strip t) = validTexts t
  | .term k v l => by cases k <;> simp [strip, validTexts]
  | .none _ => by simp [strip, validTexts]
  | .op k xs _ => by simp only [strip, validTexts, validTextss_strips xs]
  | .unary _ e _ => by simp [strip, validTexts, validTexts_strip e]
  | .field _ e _ => by simp [strip, validTexts, validTexts_strip e]
  | .group k e _ => by simp [strip, validTexts, validTexts_strip e]
  | .boost e _ _ => by simp [strip, validTexts, validTexts_strip e]
  | .approx k e _ _ => by simp [strip, validTexts, validTexts_strip e]
  | .range lo hi _ _ _ => by simp [strip, validTexts, validTexts_strip lo, validTexts_strip hi]
  | .orange _ e _ _ => by simp [strip, validTexts, validTexts_strip e]
theorem validTextss_strips : ∀ xs : List Tree, validTextss (strips xs) = validTextss xs
  | [] => by simp [strips]
  | x :: r => by simp [strips, validTextss, validTexts_strip x, validTextss_strips r]
end

/-- two trees with the same stripped form are expressible together -/
theorem expressible_of_strip {t' t : Tree} (h : strip t' = strip t) :
    CanonAt false t' = CanonAt false t ∧ WordsOK t' = WordsOK t ∧ numsOK t' = numsOK t ∧
    validTexts t' = validTexts t := by
  refine ⟨?_, ?_, ?_, ?_⟩
  · rw [← canonAt_strip false t', h, canonAt_strip]
  · rw [← wordsOK_strip t', h, wordsOK_strip]
  · rw [← numsOK_strip t', h, numsOK_strip]
  · rw [← validTexts_strip t', h, validTexts_strip]

/-! ### a blank layout is kept -/

theorem strOk_blank {new old : Str} (h : StrOk new old) (hb : isBlank old = true) :
    isBlank new = true := by
  rcases h with h | ⟨_, h⟩
  · rw [h]; exact hb
  · rw [h]; decide +kernel

mutual
theorem layRel_blank : ∀ (t' t : Tree), layRel t' t → t.blankLayout = true → t'.blankLayout = true
  | .term .., t, h, hb => by
    cases t <;> simp [layRel] at h
    simp only [Tree.blankLayout, Bool.and_eq_true] at hb ⊢
    exact ⟨strOk_blank h.2.2.head hb.1, strOk_blank h.2.2.tail hb.2⟩
  | .none .., t, h, hb => rfl
  | .field _ e' _, t, h, hb => by
    cases t <;> simp [layRel] at h
    simp only [Tree.blankLayout, Bool.and_eq_true] at hb ⊢
    exact ⟨⟨strOk_blank h.2.2.head hb.1.1, strOk_blank h.2.2.tail hb.1.2⟩, layRel_blank e' _ h.2.1 hb.2⟩
  | .group _ e' _, t, h, hb => by
    cases t <;> simp [layRel] at h
    simp only [Tree.blankLayout, Bool.and_eq_true] at hb ⊢
    exact ⟨⟨strOk_blank h.2.2.head hb.1.1, strOk_blank h.2.2.tail hb.1.2⟩, layRel_blank e' _ h.2.1 hb.2⟩
  | .approx _ e' _ _, t, h, hb => by
    cases t <;> simp [layRel] at h
    simp only [Tree.blankLayout, Bool.and_eq_true] at hb ⊢
    exact ⟨⟨strOk_blank h.2.2.2.head hb.1.1, strOk_blank h.2.2.2.tail hb.1.2⟩, layRel_blank e' _ h.2.2.1 hb.2⟩
  | .boost e' _ _, t, h, hb => by
    cases t <;> simp [layRel] at h
    simp only [Tree.blankLayout, Bool.and_eq_true] at hb ⊢
    exact ⟨⟨strOk_blank h.2.2.head hb.1.1, strOk_blank h.2.2.tail hb.1.2⟩, layRel_blank e' _ h.2.1 hb.2⟩
  | .unary _ e' _, t, h, hb => by
    cases t <;> simp [layRel] at h
    simp only [Tree.blankLayout, Bool.and_eq_true] at hb ⊢
    exact ⟨⟨strOk_blank h.2.2.head hb.1.1, strOk_blank h.2.2.tail hb.1.2⟩, layRel_blank e' _ h.2.1 hb.2⟩
  | .orange _ e' _ _, t, h, hb => by
    cases t <;> simp [layRel] at h
    simp only [Tree.blankLayout, Bool.and_eq_true] at hb ⊢
    exact ⟨⟨strOk_blank h.2.2.2.head hb.1.1, strOk_blank h.2.2.2.tail hb.1.2⟩, layRel_blank e' _ h.2.2.1 hb.2⟩
  | .range a' b' _ _ _, t, h, hb => by
    cases t <;> simp [layRel] at h
    simp only [Tree.blankLayout, Bool.and_eq_true] at hb ⊢
    exact ⟨⟨⟨strOk_blank h.2.2.2.2.head hb.1.1.1, strOk_blank h.2.2.2.2.tail hb.1.1.2⟩,
      layRel_blank a' _ h.2.2.1 hb.1.2⟩, layRel_blank b' _ h.2.2.2.1 hb.2⟩
  | .op _ xs' _, t, h, hb => by
    cases t <;> simp [layRel] at h
    simp only [Tree.blankLayout, Bool.and_eq_true] at hb ⊢
    exact ⟨⟨strOk_blank h.2.2.head hb.1.1, strOk_blank h.2.2.tail hb.1.2⟩, layRels_blank xs' _ h.2.1 hb.2⟩
theorem layRels_blank : ∀ (xs' xs : List Tree), layRels xs' xs → Tree.blankLayouts xs = true →
    Tree.blankLayouts xs' = true
  | [], xs, h, hb => rfl
  | x' :: r', xs, h, hb => by
    cases xs <;> simp [layRels] at h
    simp only [Tree.blankLayouts, Bool.and_eq_true] at hb ⊢
    exact ⟨layRel_blank x' _ h.1 hb.1, layRels_blank r' _ h.2 hb.2⟩
end

/-! ### canonical trees -/

mutual
/-- a canonical tree has no `NoneItem` -/
theorem canon_noNone : ∀ (uf : Bool) (t : Tree), CanonAt uf t = true → noNone t = true
  | _, .term .., _ => rfl
  | _, .none _, h => by simp [CanonAt] at h
  | _, .op k xs _, h => by
    simp only [CanonAt, Bool.and_eq_true] at h
    exact canons_noNones xs h.1.2
  | _, .unary _ e _, h => by
    simp only [CanonAt, Bool.and_eq_true] at h
    exact canon_noNone false e h.1
  | _, .field _ e _, h => by
    simp only [CanonAt, Bool.and_eq_true] at h
    exact canon_noNone true e h.1
  | uf, .group k e _, h => by
    simp only [CanonAt, Bool.and_eq_true] at h
    exact canon_noNone false e h.2
  | _, .boost e _ _, h => by
    simp only [CanonAt, Bool.and_eq_true] at h
    exact canon_noNone false e h.1.1.1
  | _, .approx k e _ _, h => by
    cases k <;> simp only [CanonAt] at h <;> cases e <;> simp_all [isWord, isPhrase, noNone]
  | _, .range lo hi _ _ _, h => by
    simp only [CanonAt, Bool.and_eq_true] at h
    have : ∀ x : Tree, isBound x = true → noNone x = true := by
      intro x hx
      cases x with
      | unary k e l => cases k <;> cases e <;> simp_all [isBound, isWP, noNone]
      | _ => simp_all [isBound, noNone]
    simp [noNone, this lo h.1, this hi h.2]
  | _, .orange _ e _ _, h => by
    simp only [CanonAt] at h
    cases e <;> simp_all [isWP, noNone]
theorem canons_noNones : ∀ xs : List Tree, CanonsAt xs = true → noNones xs = true
  | [], _ => rfl
  | x :: r, h => by
    simp only [CanonsAt, Bool.and_eq_true] at h
    simp [noNones, canon_noNone false x h.1, canons_noNones r h.2]
end

end Luqum.Lemmas.AhtGlue
