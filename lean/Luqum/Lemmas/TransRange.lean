/-
  Luqum.Lemmas.TransRange — `OpenRangeTransformer` (model: `openRange merge h`) and the hypotheses
  of the print-and-reparse theorem: blank layout, canonical form (up to one-operand AND operations
  when ranges are merged), words, numerals, token texts.
-/
import Luqum.Lemmas.TransNormKeep
import Luqum.Lemmas.Merge

namespace Luqum
open Luqum.Compl (wordTerm boundText)

@[simp] theorem noName_head' (l : Lay) : l.noName.head = l.head := rfl
@[simp] theorem noName_tail' (l : Lay) : l.noName.tail = l.tail := rfl

/-! ### the merge loop -/

theorem mergeStep_out_le (st : MergeSt) (c : Tree) : st.out.length ≤ (mergeStep st c).out.length := by
  cases mergeStep_cases st c with
  | plain _ e => rw [e]; simp
  | push _ _ _ e => rw [e]; simp
  | join _ _ _ _ _ _ e => rw [e]; simp

theorem foldl_mergeStep_out_le : ∀ (xs : List Tree) (st : MergeSt),
    st.out.length ≤ (xs.foldl mergeStep st).out.length
  | [], _ => Nat.le_refl _
  | c :: r, st => Nat.le_trans (mergeStep_out_le st c) (foldl_mergeStep_out_le r _)

/-- the merge loop never removes the first operand -/
theorem mergeOps_length_pos (x : Tree) (r : List Tree) : 1 ≤ (mergeOps (x :: r)).length := by
  have h1 : (mergeStep {} x).out.length = 1 := by
    cases mergeStep_cases {} x with
    | plain _ e => rw [e]; rfl
    | push _ _ _ e => rw [e]; rfl
    | join _ _ _ _ hp _ _ => cases hp
  have := foldl_mergeStep_out_le r (mergeStep {} x)
  unfold mergeOps
  rw [List.foldl_cons]
  omega

theorem mergeOps_all_bool (P : Tree → Bool)
    (hP : ∀ a c cs, P a = true → P c = true → P (joinRange a c cs) = true) (xs : List Tree)
    (h : xs.all P = true) : (mergeOps xs).all P = true := by
  rw [List.all_eq_true] at h ⊢
  exact mergeOps_all (fun t => P t = true) hP xs h

theorem blankLayouts_eq_all : ∀ xs : List Tree, Tree.blankLayouts xs = xs.all Tree.blankLayout
  | [] => rfl
  | x :: r => by simp [Tree.blankLayouts, blankLayouts_eq_all r]

theorem joinRange_blank (a c : Tree) (cs : Side) (ha : a.blankLayout = true) (hc : c.blankLayout = true) :
    (joinRange a c cs).blankLayout = true := by
  cases a <;> try exact ha
  cases c <;> try exact ha
  cases cs <;> simp_all [joinRange, Tree.blankLayout]

theorem joinRange_wordsOK (a c : Tree) (cs : Side) (ha : WordsOK a = true) (hc : WordsOK c = true) :
    WordsOK (joinRange a c cs) = true := by
  cases a <;> try exact ha
  cases c <;> try exact ha
  cases cs <;> simp_all [joinRange, WordsOK]

theorem joinRange_numsOK (a c : Tree) (cs : Side) (ha : numsOK a = true) (hc : numsOK c = true) :
    numsOK (joinRange a c cs) = true := by
  cases a <;> try exact ha
  cases c <;> try exact ha
  cases cs <;> simp_all [joinRange, numsOK]

theorem joinRange_validTexts (a c : Tree) (cs : Side) (ha : validTexts a = true)
    (hc : validTexts c = true) : validTexts (joinRange a c cs) = true := by
  cases a <;> try exact ha
  cases c <;> try exact ha
  cases cs <;> simp_all [joinRange, validTexts]

/-- an operand, canonical up to normalisation, that is not an operation -/
def plainOperand (x : Tree) : Bool := PreCanonAt false x && !isOp' x

theorem joinRange_plain (a c : Tree) (cs : Side) (ha : plainOperand a = true)
    (hc : plainOperand c = true) : plainOperand (joinRange a c cs) = true := by
  cases a <;> try exact ha
  cases c <;> try exact ha
  cases cs <;> simp_all [joinRange, plainOperand, PreCanonAt, isOp']

/-! ### the root of the result -/

theorem openRange_shape (m : Bool) (h : Str) (t : Tree) :
    isOp' (openRange m h t) = isOp' t ∧ isUnary (openRange m h t) = isUnary t ∧
      isField (openRange m h t) = isField t ∧ isWord (openRange m h t) = isWord t ∧
      isPhrase (openRange m h t) = isPhrase t ∧ isWP (openRange m h t) = isWP t ∧
      (∀ k, isOpK k (openRange m h t) = isOpK k t) ∧ wordTerm (openRange m h t) = wordTerm t := by
  cases t with
  | term k v l => cases k <;> simp [openRange, isOp', isUnary, isField, isWord, isPhrase, isWP, isOpK, wordTerm]
  | orange k e i l =>
    cases k <;> simp [openRange, isOp', isUnary, isField, isWord, isPhrase, isWP, isOpK, wordTerm]
  | op k xs l =>
    simp only [openRange]
    split
    · rename_i hc
      simp only [Bool.and_eq_true, beq_iff_eq] at hc
      obtain ⟨_, rfl⟩ := hc
      simp [isOp', isUnary, isField, isWord, isPhrase, isWP, isOpK, wordTerm]
    · simp [isOp', isUnary, isField, isWord, isPhrase, isWP, isOpK, wordTerm]
  | _ => simp [openRange, isOp', isUnary, isField, isWord, isPhrase, isWP, isOpK, wordTerm]

theorem openRange_isBound (m : Bool) (h : Str) (t : Tree) :
    isBound (openRange m h t) = isBound t ∧ boundText (openRange m h t) = boundText t := by
  cases t with
  | term k v l => cases k <;> simp [openRange, isBound, boundText, wordTerm]
  | unary k e l =>
    have := openRange_shape m h e
    cases k
    · simp [openRange, isBound, boundText, wordTerm]
    · simp [openRange, isBound, boundText, wordTerm]
    · simp only [openRange, isBound, boundText]; exact ⟨this.2.2.2.2.2.1, this.2.2.2.2.2.2.2⟩
  | orange k e i l => cases k <;> simp [openRange, isBound, boundText, wordTerm]
  | op k xs l =>
    simp only [openRange]
    split <;> simp [isBound, boundText, wordTerm]
  | _ => simp [openRange, isBound, boundText, wordTerm]

theorem openRange_operandOK (m : Bool) (h : Str) (t : Tree) (k : OpK) :
    operandOK k (openRange m h t) = operandOK k t := by
  have := openRange_shape m h t
  cases k <;> simp [operandOK, this.1, this.2.2.2.2.2.2.1]

theorem openRangeList_eq_map (m : Bool) (h : Str) : ∀ xs, openRangeList m h xs = xs.map (openRange m h)
  | [] => rfl
  | x :: r => by simp [openRangeList, openRangeList_eq_map m h r]

theorem isBound_of_isWP {e : Tree} (h : isWP e = true) : isBound e = true := by
  cases e with
  | term k v l => cases k <;> simp_all [isWP, isBound]
  | _ => simp [isWP] at h

theorem boundText_of_wordTerm {e : Tree} (hwp : isWP e = true) (h : wordTerm e = true) :
    boundText e = true := by
  cases e with
  | term k v l => cases k <;> simp_all [isWP, boundText]
  | _ => simp [isWP] at hwp

/-! ### blank layout -/

theorem blank_star_head (h : Str) (hh : isBlank h = true) : (wildcardWord.setHead h).blankLayout = true := by
  simp [wildcardWord, Tree.setHead, Tree.setLay, Tree.lay, Tree.blankLayout, hh, isBlank_nil]

theorem blank_star_tail (h : Str) (hh : isBlank h = true) : (wildcardWord.setTail h).blankLayout = true := by
  simp [wildcardWord, Tree.setTail, Tree.setLay, Tree.lay, Tree.blankLayout, hh, isBlank_nil]

mutual
theorem blank_openRange (m : Bool) (h : Str) (hh : isBlank h = true) : ∀ t : Tree,
    t.blankLayout = true → (openRange m h t).blankLayout = true
  | .term .., hb => hb
  | .none _, hb => hb
  | .field n e l, hb => by
    simp only [Tree.blankLayout, Bool.and_eq_true] at hb
    simp [openRange, Tree.blankLayout, hb.1, blank_openRange m h hh e hb.2]
  | .group k e l, hb => by
    simp only [Tree.blankLayout, Bool.and_eq_true] at hb
    simp [openRange, Tree.blankLayout, hb.1, blank_openRange m h hh e hb.2]
  | .approx k e n l, hb => by
    simp only [Tree.blankLayout, Bool.and_eq_true] at hb
    simp [openRange, Tree.blankLayout, hb.1, blank_openRange m h hh e hb.2]
  | .boost e n l, hb => by
    simp only [Tree.blankLayout, Bool.and_eq_true] at hb
    simp [openRange, Tree.blankLayout, hb.1, blank_openRange m h hh e hb.2]
  | .unary k e l, hb => by
    simp only [Tree.blankLayout, Bool.and_eq_true] at hb
    simp [openRange, Tree.blankLayout, hb.1, blank_openRange m h hh e hb.2]
  | .range a b il ih l, hb => by
    simp only [Tree.blankLayout, Bool.and_eq_true] at hb
    simp [openRange, Tree.blankLayout, hb.1.1, blank_openRange m h hh a hb.1.2,
      blank_openRange m h hh b hb.2]
  | .orange .from e inc l, hb => by
    simp only [Tree.blankLayout, Bool.and_eq_true] at hb
    simp [openRange, Tree.blankLayout, hb.1, blank_star_head h hh,
      blank_setTail_post _ h (blank_openRange m h hh e hb.2) hh]
  | .orange .to e inc l, hb => by
    simp only [Tree.blankLayout, Bool.and_eq_true] at hb
    simp [openRange, Tree.blankLayout, hb.1, blank_star_tail h hh,
      blank_setHead_post _ h (blank_openRange m h hh e hb.2) hh]
  | .op k xs l, hb => by
    simp only [Tree.blankLayout, Bool.and_eq_true] at hb
    have ih := blanks_openRange m h hh xs hb.2
    simp only [openRange]
    split
    · simp only [Tree.blankLayout, noName_head', noName_tail', hb.1.1, hb.1.2, Bool.true_and]
      rw [blankLayouts_eq_all] at ih ⊢
      exact mergeOps_all_bool _ joinRange_blank _ ih
    · simp [Tree.blankLayout, hb.1, ih]
theorem blanks_openRange (m : Bool) (h : Str) (hh : isBlank h = true) : ∀ xs : List Tree,
    Tree.blankLayouts xs = true → Tree.blankLayouts (openRangeList m h xs) = true
  | [], _ => rfl
  | x :: r, hb => by
    simp only [Tree.blankLayouts, Bool.and_eq_true] at hb
    simp [openRangeList, Tree.blankLayouts, blank_openRange m h hh x hb.1, blanks_openRange m h hh r hb.2]
end

/-! ### numerals, token texts -/

mutual
theorem numsOK_openRange (m : Bool) (h : Str) : ∀ t : Tree, numsOK t = true → numsOK (openRange m h t) = true
  | .term .., hb => hb
  | .none _, hb => hb
  | .field n e l, hb => by simpa [openRange, numsOK] using numsOK_openRange m h e (by simpa [numsOK] using hb)
  | .group k e l, hb => by simpa [openRange, numsOK] using numsOK_openRange m h e (by simpa [numsOK] using hb)
  | .approx k e n l, hb => by
    cases k <;> simp only [numsOK, Bool.and_eq_true] at hb <;>
      simp [openRange, numsOK, hb.1, numsOK_openRange m h e hb.2]
  | .boost e n l, hb => by
    simp only [numsOK, Bool.and_eq_true] at hb
    simp [openRange, numsOK, hb.1, numsOK_openRange m h e hb.2]
  | .unary k e l, hb => by simpa [openRange, numsOK] using numsOK_openRange m h e (by simpa [numsOK] using hb)
  | .range a b il ih l, hb => by
    simp only [numsOK, Bool.and_eq_true] at hb
    simp [openRange, numsOK, numsOK_openRange m h a hb.1, numsOK_openRange m h b hb.2]
  | .orange .from e inc l, hb => by
    simp [openRange, numsOK, wildcardWord, numsOK_openRange m h e (by simpa [numsOK] using hb)]
  | .orange .to e inc l, hb => by
    simp [openRange, numsOK, wildcardWord, numsOK_openRange m h e (by simpa [numsOK] using hb)]
  | .op k xs l, hb => by
    have ih := numssOK_openRange m h xs (by simpa [numsOK] using hb)
    simp only [openRange]
    split
    · simp only [numsOK]
      rw [numssOK_eq_all] at ih ⊢
      exact mergeOps_all_bool _ joinRange_numsOK _ ih
    · simpa [numsOK] using ih
theorem numssOK_openRange (m : Bool) (h : Str) : ∀ xs : List Tree, numssOK xs = true →
    numssOK (openRangeList m h xs) = true
  | [], _ => rfl
  | x :: r, hb => by
    simp only [numssOK, Bool.and_eq_true] at hb
    simp [openRangeList, numssOK, numsOK_openRange m h x hb.1, numssOK_openRange m h r hb.2]
end

theorem validTexts_star : validTok (reservedKind ['*']) ['*'] = true := by decide +kernel

mutual
theorem validTexts_openRange (m : Bool) (h : Str) : ∀ t : Tree, validTexts t = true →
    validTexts (openRange m h t) = true
  | .term k v l, hb => by cases k <;> exact hb
  | .none _, hb => hb
  | .field n e l, hb => by
    simp only [validTexts, Bool.and_eq_true] at hb
    simp [openRange, validTexts, hb.1, validTexts_openRange m h e hb.2]
  | .group k e l, hb => by
    simpa [openRange, validTexts] using validTexts_openRange m h e (by simpa [validTexts] using hb)
  | .approx k e n l, hb => by
    simpa [openRange, validTexts] using validTexts_openRange m h e (by simpa [validTexts] using hb)
  | .boost e n l, hb => by
    simpa [openRange, validTexts] using validTexts_openRange m h e (by simpa [validTexts] using hb)
  | .unary k e l, hb => by
    simpa [openRange, validTexts] using validTexts_openRange m h e (by simpa [validTexts] using hb)
  | .range a b il ih l, hb => by
    simp only [validTexts, Bool.and_eq_true] at hb
    simp [openRange, validTexts, validTexts_openRange m h a hb.1, validTexts_openRange m h b hb.2]
  | .orange .from e inc l, hb => by
    have := validTexts_openRange m h e (by simpa [validTexts] using hb)
    simp [openRange, validTexts, wildcardWord, Tree.setTail, Tree.setHead, validTexts_setLay,
      this, validTexts_star]
  | .orange .to e inc l, hb => by
    have := validTexts_openRange m h e (by simpa [validTexts] using hb)
    simp [openRange, validTexts, wildcardWord, Tree.setTail, Tree.setHead, validTexts_setLay,
      this, validTexts_star]
  | .op k xs l, hb => by
    have ih := validTextss_openRange m h xs (by simpa [validTexts] using hb)
    simp only [openRange]
    split
    · simp only [validTexts]
      rw [validTextss_eq_all] at ih ⊢
      exact mergeOps_all_bool _ joinRange_validTexts _ ih
    · simpa [validTexts] using ih
theorem validTextss_openRange (m : Bool) (h : Str) : ∀ xs : List Tree, validTextss xs = true →
    validTextss (openRangeList m h xs) = true
  | [], _ => rfl
  | x :: r, hb => by
    simp only [validTextss, Bool.and_eq_true] at hb
    simp [openRangeList, validTextss, validTexts_openRange m h x hb.1, validTextss_openRange m h r hb.2]
end

end Luqum
