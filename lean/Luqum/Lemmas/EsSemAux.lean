/-
  Luqum.Lemmas.EsSemAux — auxiliary facts for C05: the nested paths occurring in the builder's result
  extend the field prefix (so `excludeNested` finds nothing to exclude, and skip-nesting applies),
  leaf-like expressions are those whose E-node is an item, which E-nodes `EBoolOperation.json`
  merges, non-emptiness of results.
-/
import Luqum.Lemmas.EsBuild
import Luqum.Lemmas.EsSemDoc
import Luqum.Lemmas.EsSemJson

namespace Luqum.Lemmas.Es
open Luqum

/-! ### simple facts about the meaning of E-trees -/

theorem setZeroTerms_isEmpty (v : Str) : ∀ es : List ETree, (setZeroTerms v es).isEmpty = es.isEmpty
  | [] => rfl
  | .item _ :: _ => rfl
  | .op _ _ :: _ => rfl
  | .nested _ _ _ :: _ => rfl

/-! ### contexts -/

@[simp] theorem propagateName_analyzed (t : Tree) (x : EsCtx) : (propagateName t x).analyzed = x.analyzed := by
  unfold propagateName; split
  · split <;> rfl
  · rfl

@[simp] theorem propagateName_fieldPrefix (t : Tree) (x : EsCtx) :
    (propagateName t x).fieldPrefix = x.fieldPrefix := by
  unfold propagateName; split
  · split <;> rfl
  · rfl

@[simp] theorem fieldCtx_analyzed (c : EsCfg) (x : EsCtx) (n : Str) (e : Tree) (l : Lay) :
    (fieldCtx c x n e l).analyzed = fieldAn c x.fieldPrefix n := by
  simp only [fieldCtx, propagateName_analyzed, fieldAn]

@[simp] theorem fieldCtx_fieldPrefix (c : EsCfg) (x : EsCtx) (n : Str) (e : Tree) (l : Lay) :
    (fieldCtx c x n e l).fieldPrefix = fieldFp x.fieldPrefix n := by
  simp only [fieldCtx, propagateName_fieldPrefix, fieldFp]

/-- the names of the field prefix contain no dot (they come from splitting field names) -/
def CtxOK (x : EsCtx) : Prop := ∀ s ∈ x.fieldPrefix.getD [], '.' ∉ s

theorem ctxOK_default : CtxOK {} := by intro s hs; simp at hs

theorem ctxOK_propagateName {t : Tree} {x : EsCtx} (h : CtxOK x) : CtxOK (propagateName t x) := by
  unfold CtxOK; rw [propagateName_fieldPrefix]; exact h

theorem ctxOK_fieldCtx {c : EsCfg} {x : EsCtx} {n : Str} {e : Tree} {l : Lay} (h : CtxOK x) :
    CtxOK (fieldCtx c x n e l) := by
  unfold CtxOK
  rw [fieldCtx_fieldPrefix]
  intro s hs
  simp only [fieldFp, Option.getD_some, List.mem_append] at hs
  rcases hs with hs | hs
  · exact h s hs
  · exact splitOnChar_nodot n s hs

/-! ### the nested container reached by a field -/

theorem fieldWrap_eq (c : EsCfg) (x : EsCtx) (n : Str) (e : Tree) (l : Lay) (en : ETree) :
    fieldWrap c x n e l en =
      match nestedCand c x.fieldPrefix n, en with
      | some _, .nested p i nm => [.nested p i nm]
      | some path, en => [.nested path (excludeNested path en) (ctxName (.field n e l) x)]
      | none, en => [en] := rfl

theorem nestedCand_some {c : EsCfg} {fp : Option (List Str)} {n p : Str} (h : nestedCand c fp n = some p) :
    p ∈ c.nestedPrefixes ∧ ∃ k, 1 ≤ k ∧ k ≤ (splitOnChar '.' n).length ∧
      p = joinDot (fp.getD [] ++ (splitOnChar '.' n).take k) := by
  unfold nestedCand at h
  dsimp only at h
  have h1 := List.find?_some h
  have h2 := List.mem_of_find?_eq_some h
  simp only [List.mem_map, List.mem_range] at h2
  obtain ⟨i, hi, rfl⟩ := h2
  exact ⟨List.contains_iff_mem.1 h1, (splitOnChar '.' n).length - i, by omega, by omega, rfl⟩

/-- the names of the container reached: the prefix followed by at least one of the names -/
theorem nestedCand_split {c : EsCfg} {x : EsCtx} {n p : Str} (hx : CtxOK x)
    (h : nestedCand c x.fieldPrefix n = some p) :
    p ∈ c.nestedPrefixes ∧ ∃ q, q ≠ [] ∧ q.isPrefixOf (splitOnChar '.' n) = true ∧
      splitOnChar '.' p = x.fieldPrefix.getD [] ++ q := by
  obtain ⟨hp, k, hk1, hk2, rfl⟩ := nestedCand_some h
  refine ⟨hp, (splitOnChar '.' n).take k, ?_, ?_, ?_⟩
  · intro h0
    have := congrArg List.length h0
    simp only [List.length_take, List.length_nil] at this
    omega
  · exact List.isPrefixOf_iff_prefix.2 (List.take_prefix _ _)
  · apply splitOnChar_joinDot
    · intro h0
      have := congrArg List.length h0
      simp only [List.length_append, List.length_take, List.length_nil] at this
      omega
    · intro s hs
      rcases List.mem_append.1 hs with hs | hs
      · exact hx s hs
      · exact splitOnChar_nodot n s (List.mem_of_mem_take hs)

/-! ### the nested paths of an E-tree -/

mutual
def nestedPaths : ETree → List Str
  | .item _ => []
  | .op _ items => nestedPathsL items
  | .nested p inner _ => p :: nestedPaths inner
def nestedPathsL : List ETree → List Str
  | [] => []
  | x :: r => nestedPaths x ++ nestedPathsL r
end

theorem nestedPathsL_append (xs ys : List ETree) :
    nestedPathsL (xs ++ ys) = nestedPathsL xs ++ nestedPathsL ys := by
  induction xs with
  | nil => rfl
  | cons x r ih => simp [nestedPathsL, ih]

theorem nestedPaths_setBoost (d : Dec) (e : ETree) : nestedPaths (setBoost d e) = nestedPaths e := by
  cases e <;> rfl
theorem nestedPaths_setFuzzy (d : Dec) (e : ETree) : nestedPaths (setFuzzy d e) = nestedPaths e := by
  cases e <;> rfl
theorem nestedPaths_setSlop (d : Dec) (e : ETree) : nestedPaths (setSlop d e) = nestedPaths e := by
  cases e with
  | item i => simp only [setSlop]; split <;> rfl
  | _ => rfl

theorem nestedPathsL_setZeroTerms (v : Str) : ∀ es : List ETree,
    nestedPathsL (setZeroTerms v es) = nestedPathsL es
  | [] => rfl
  | .item i :: r => by simp only [setZeroTerms, nestedPathsL, nestedPaths, nestedPathsL_setZeroTerms v r]
  | .op k items :: r => by simp only [setZeroTerms, nestedPathsL, nestedPathsL_setZeroTerms v r]
  | .nested p i n :: r => by simp only [setZeroTerms, nestedPathsL, nestedPathsL_setZeroTerms v r]

theorem nestedPaths_buildOp (k : EOpK) (es : List ETree) : nestedPaths (buildOp k es) = nestedPathsL es := by
  cases k <;> simp only [buildOp, nestedPaths, nestedPathsL_setZeroTerms]

mutual
theorem excludeNested_eq_self (p : Str) : ∀ e : ETree, p ∉ nestedPaths e → excludeNested p e = e
  | .item _, _ => rfl
  | .op k items, h => by
      simp only [excludeNested, excludeNestedList_eq_self p items (by simpa [nestedPaths] using h)]
  | .nested p' inner nm, h => by
      simp only [nestedPaths, List.mem_cons, not_or] at h
      have : (p' == p) = false := by
        simp only [beq_eq_false_iff_ne, ne_eq]; exact fun h' => h.1 h'.symm
      simp only [excludeNested, this, Bool.false_eq_true, if_false]
theorem excludeNestedList_eq_self (p : Str) : ∀ es : List ETree, p ∉ nestedPathsL es →
    excludeNestedList p es = es
  | [], _ => rfl
  | x :: r, h => by
      simp only [nestedPathsL, List.mem_append, not_or] at h
      simp only [excludeNestedList, excludeNested_eq_self p x h.1, excludeNestedList_eq_self p r h.2]
end

mutual
theorem nestedPaths_excludeNested (p : Str) : ∀ (e : ETree) (q : Str),
    q ∈ nestedPaths (excludeNested p e) → q ∈ nestedPaths e
  | .item _, q, h => h
  | .op k items, q, h => by
      simp only [excludeNested, nestedPaths] at h ⊢; exact nestedPathsL_excludeNested p items q h
  | .nested p' inner nm, q, h => by
      simp only [excludeNested] at h
      split at h
      · simp only [nestedPaths, List.mem_cons]; exact .inr (nestedPaths_excludeNested p inner q h)
      · exact h
theorem nestedPathsL_excludeNested (p : Str) : ∀ (es : List ETree) (q : Str),
    q ∈ nestedPathsL (excludeNestedList p es) → q ∈ nestedPathsL es
  | [], q, h => h
  | x :: r, q, h => by
      simp only [excludeNestedList, nestedPathsL, List.mem_append] at h ⊢
      rcases h with h | h
      · exact .inl (nestedPaths_excludeNested p x q h)
      · exact .inr (nestedPathsL_excludeNested p r q h)
end

/-- every nested path of the E-nodes properly extends `base` -/
def Ext (base : List Str) (es : List ETree) : Prop :=
  ∀ p ∈ nestedPathsL es, properPrefix base (splitOnChar '.' p) = true

theorem properPrefix_append_left {a b c : List Str} (h : properPrefix (a ++ b) c = true) :
    properPrefix a c = true := by
  obtain ⟨q, hq, rfl⟩ := (properPrefix_iff _ _).1 h
  exact (properPrefix_iff _ _).2 ⟨b ++ q, by simp [hq], by simp⟩

theorem properPrefix_append {a q : List Str} (hq : q ≠ []) : properPrefix a (a ++ q) = true :=
  (properPrefix_iff _ _).2 ⟨q, hq, rfl⟩

theorem Ext.weaken {base names : List Str} {es : List ETree} (h : Ext (base ++ names) es) : Ext base es :=
  fun p hp => properPrefix_append_left (h p hp)


theorem Ext.append {base : List Str} {xs ys : List ETree} (h1 : Ext base xs) (h2 : Ext base ys) :
    Ext base (xs ++ ys) := by
  intro p hp
  rw [nestedPathsL_append] at hp
  rcases List.mem_append.1 hp with hp | hp
  · exact h1 p hp
  · exact h2 p hp

theorem Ext.single {base : List Str} {e : ETree} :
    Ext base [e] ↔ ∀ p ∈ nestedPaths e, properPrefix base (splitOnChar '.' p) = true := by
  simp [Ext, nestedPathsL]

section ExtThm
variable (c : EsCfg)

mutual
/-- every nested path in the result of a visit properly extends the field prefix of the context -/
theorem visitS_ext : ∀ (t : Tree) (x : EsCtx) (par : Option Tree) (es : List ETree), CtxOK x →
    visitS c x par t = .ok es → Ext (x.fieldPrefix.getD []) es
  | .term .word v l, x, par, es, _, h => by simp only [visitS] at h; cases h; intro p hp; cases hp
  | .term .phrase v l, x, par, es, _, h => by
      simp only [visitS] at h; split at h <;> cases h <;> (intro p hp; cases hp)
  | .term .regex v l, x, par, es, _, h => by simp only [visitS] at h; cases h; intro p hp; cases hp
  | .none _, x, par, es, _, h => by simp only [visitS] at h; cases h; intro p hp; cases hp
  | .range a b il ih l, x, par, es, _, h => by
      simp only [visitS] at h; split at h <;> cases h; intro p hp; cases hp
  | .field n e l, x, par, es, hx, h => by
      simp only [visitS] at h
      obtain ⟨en, h1, rfl⟩ := map_ok h
      have ih := visitS_ext e _ none _ (ctxOK_fieldCtx hx) (exactlyOne_ok h1)
      rw [fieldCtx_fieldPrefix, fieldFp, Option.getD_some] at ih
      rw [fieldWrap_eq]
      cases hc : nestedCand c x.fieldPrefix n with
      | none => exact ih.weaken
      | some path =>
        have hwrap : Ext (x.fieldPrefix.getD [])
            [.nested path (excludeNested path en) (ctxName (.field n e l) x)] := by
          obtain ⟨_, q, hq, _, hsp⟩ := nestedCand_split hx hc
          rw [Ext.single]
          intro p hp
          simp only [nestedPaths, List.mem_cons] at hp
          rcases hp with rfl | hp
          · rw [hsp]; exact properPrefix_append hq
          · exact (Ext.single.1 ih.weaken) p (nestedPaths_excludeNested _ _ _ hp)
        cases en with
        | nested p' i nm => exact ih.weaken
        | item i => exact hwrap
        | op k items => exact hwrap
  | .group k e l, x, par, es, hx, h => by
      simp only [visitS] at h
      simpa using visitS_ext e _ none es (ctxOK_propagateName hx) h
  | .orange k e i l, x, par, es, hx, h => by
      simp only [visitS] at h
      simpa using visitS_ext e _ none es (ctxOK_propagateName hx) h
  | .boost e n l, x, par, es, hx, h => by
      simp only [visitS] at h
      obtain ⟨en, h1, rfl⟩ := map_ok h
      have ih := visitS_ext e _ none _ (ctxOK_propagateName hx) (exactlyOne_ok h1)
      rw [propagateName_fieldPrefix] at ih
      rw [Ext.single] at ih ⊢
      rw [nestedPaths_setBoost]; exact ih
  | .approx .fuzzy e n l, x, par, es, hx, h => by
      simp only [visitS] at h
      obtain ⟨en, h1, rfl⟩ := map_ok h
      have ih := visitS_ext e _ none _ (ctxOK_propagateName hx) (exactlyOne_ok h1)
      rw [propagateName_fieldPrefix] at ih
      rw [Ext.single] at ih ⊢
      rw [nestedPaths_setFuzzy]; exact ih
  | .approx .proximity e n l, x, par, es, hx, h => by
      simp only [visitS] at h
      obtain ⟨en, h1, rfl⟩ := map_ok h
      have ih := visitS_ext e _ none _ (ctxOK_propagateName hx) (exactlyOne_ok h1)
      rw [propagateName_fieldPrefix] at ih
      rw [Ext.single] at ih ⊢
      split
      · rw [nestedPaths_setSlop]; exact ih
      · rw [nestedPaths_setFuzzy]; exact ih
  | .unary k e l, x, par, es, hx, h => by
      simp only [visitS] at h
      split at h
      · exact visitS_ext e x par es hx h
      · obtain ⟨items, h1, rfl⟩ := map_ok h
        have ih := visitS_ext e _ _ _ (ctxOK_propagateName hx) h1
        rw [propagateName_fieldPrefix] at ih
        rw [Ext.single, nestedPaths_buildOp]; exact ih
  | .op k xs l, x, par, es, hx, h => by
      simp only [visitS] at h
      have hfin : ∀ x', CtxOK x' → x'.fieldPrefix = x.fieldPrefix →
          (visitsS c x' (.op k xs l) xs).map (fun items => [buildOp (opEK c k) items]) = .ok es →
          Ext (x.fieldPrefix.getD []) es := by
        intro x' hx' hfp h
        obtain ⟨items, h1, rfl⟩ := map_ok h
        have ih := visitsS_ext xs _ _ _ hx' h1
        rw [hfp] at ih
        rw [Ext.single, nestedPaths_buildOp]; exact ih
      split at h
      · split at h
        · exact visitsS_ext xs _ _ _ hx h
        · split at h
          · unfold mixError at h; split at h <;> cases h
          · exact hfin _ (ctxOK_propagateName hx) (propagateName_fieldPrefix _ _) h
      · exact hfin _ (ctxOK_propagateName hx) (propagateName_fieldPrefix _ _) h
theorem visitsS_ext : ∀ (xs : List Tree) (x : EsCtx) (parent : Tree) (es : List ETree), CtxOK x →
    visitsS c x parent xs = .ok es → Ext (x.fieldPrefix.getD []) es
  | [], x, parent, es, _, h => by simp only [visitsS] at h; cases h; intro p hp; cases hp
  | t :: r, x, parent, es, hx, h => by
      simp only [visitsS] at h
      split at h
      · cases h
      · rename_i items h1
        split at h
        · cases h
        · rename_i rest h2
          cases h
          exact (visitS_ext t _ _ _ hx h1).append (visitsS_ext r _ _ _ hx h2)
end

end ExtThm

/-! ### `SupportedSem` refines `Supported` -/

mutual
theorem supported_of_sem (c : EsCfg) : ∀ t : Tree, SupportedSem c t = true → Supported t = true
  | .term .word _ _, _ => rfl
  | .term .phrase _ _, _ => rfl
  | .term .regex _ _, h => by simp [SupportedSem] at h
  | .range .., h => by simpa [SupportedSem, Supported] using h
  | .approx _ e _ _, h => by
      simp only [SupportedSem] at h; simp only [Supported]; exact supported_of_sem c e h
  | .boost e _ _, h => by
      simp only [SupportedSem] at h; simp only [Supported]; exact supported_of_sem c e h
  | .group _ e _, h => by
      simp only [SupportedSem] at h; simp only [Supported]; exact supported_of_sem c e h
  | .field _ e _, h => by
      simp only [SupportedSem] at h; simp only [Supported]; exact supported_of_sem c e h
  | .unary _ e _, h => by
      simp only [SupportedSem] at h; simp only [Supported]; exact supported_of_sem c e h
  | .op k xs _, h => by
      simp only [SupportedSem, Bool.and_eq_true] at h
      simp only [Supported, Bool.and_eq_true]
      exact ⟨h.1.1, supportedL_of_sem c xs h.1.2⟩
  | .orange .., h => by simp [SupportedSem] at h
  | .none _, h => by simp [SupportedSem] at h
theorem supportedL_of_sem (c : EsCfg) : ∀ xs : List Tree, SupportedSemL c xs = true → SupportedL xs = true
  | [], _ => rfl
  | x :: r, h => by
      simp only [SupportedSemL, Bool.and_eq_true] at h
      simp only [SupportedL, Bool.and_eq_true]
      exact ⟨supported_of_sem c x h.1, supportedL_of_sem c r h.2⟩
end

/-! ### results are singletons / non-empty -/

theorem visitS_single (c : EsCfg) (t : Tree) (x : EsCtx) (es : List ETree) (hs : Supported t = true)
    (h : visitS c x none t = .ok es) : ∃ e, es = [e] := by
  have := visit_spec c t x none .none hs
  rw [h] at this
  have := this.2 rfl
  match es, this with
  | [e], _ => exact ⟨e, rfl⟩

section NonEmpty
variable (c : EsCfg)

mutual
theorem visitS_ne_nil : ∀ (t : Tree) (x : EsCtx) (par : Option Tree) (es : List ETree),
    Supported t = true → visitS c x par t = .ok es → es ≠ []
  | .term .word v l, x, par, es, _, h => by simp only [visitS] at h; cases h; exact List.cons_ne_nil _ _
  | .term .phrase v l, x, par, es, _, h => by simp only [visitS] at h; split at h <;> cases h <;> exact List.cons_ne_nil _ _
  | .term .regex v l, x, par, es, hs, _ => by simp [Supported] at hs
  | .none _, x, par, es, hs, _ => by simp [Supported] at hs
  | .orange .., x, par, es, hs, _ => by simp [Supported] at hs
  | .range a b il ih l, x, par, es, _, h => by
      simp only [visitS] at h; split at h <;> cases h; exact List.cons_ne_nil _ _
  | .field n e l, x, par, es, _, h => by
      simp only [visitS] at h
      obtain ⟨en, _, rfl⟩ := map_ok h
      intro h0
      have := fieldWrap_length c x n e l en
      rw [h0] at this; cases this
  | .group k e l, x, par, es, hs, h => by
      simp only [visitS] at h
      exact visitS_ne_nil e _ none es (by simpa [Supported] using hs) h
  | .boost e n l, x, par, es, _, h => by
      simp only [visitS] at h; obtain ⟨en, _, rfl⟩ := map_ok h; exact List.cons_ne_nil _ _
  | .approx .fuzzy e n l, x, par, es, _, h => by
      simp only [visitS] at h; obtain ⟨en, _, rfl⟩ := map_ok h; exact List.cons_ne_nil _ _
  | .approx .proximity e n l, x, par, es, _, h => by
      simp only [visitS] at h; obtain ⟨en, _, rfl⟩ := map_ok h; exact List.cons_ne_nil _ _
  | .unary k e l, x, par, es, hs, h => by
      simp only [visitS] at h
      split at h
      · exact visitS_ne_nil e x par es (by simpa [Supported] using hs) h
      · obtain ⟨items, _, rfl⟩ := map_ok h; exact List.cons_ne_nil _ _
  | .op k xs l, x, par, es, hs, h => by
      simp only [Supported, Bool.and_eq_true, decide_eq_true_eq] at hs
      simp only [visitS] at h
      split at h
      · split at h
        · exact visitsS_ne_nil xs _ _ _ hs.2 (by intro h0; rw [h0] at hs; simp at hs) h
        · split at h
          · unfold mixError at h; split at h <;> cases h
          · obtain ⟨items, _, rfl⟩ := map_ok h; exact List.cons_ne_nil _ _
      · obtain ⟨items, _, rfl⟩ := map_ok h; exact List.cons_ne_nil _ _
theorem visitsS_ne_nil : ∀ (xs : List Tree) (x : EsCtx) (parent : Tree) (es : List ETree),
    SupportedL xs = true → xs ≠ [] → visitsS c x parent xs = .ok es → es ≠ []
  | [], _, _, _, _, h0, _ => absurd rfl h0
  | t :: r, x, parent, es, hs, _, h => by
      simp only [SupportedL, Bool.and_eq_true] at hs
      simp only [visitsS] at h
      split at h
      · cases h
      · rename_i items h1
        split at h
        · cases h
        · cases h
          have := visitS_ne_nil t _ _ _ hs.1 h1
          intro h0
          exact this (List.append_eq_nil_iff.1 h0).1
end

end NonEmpty


/-! ### leaf-like expressions are those whose E-node is an item -/

theorem isAnalyzed_eq (c : EsCfg) (x : EsCtx) : c.isAnalyzed x = isAn c x.analyzed := by
  unfold EsCfg.isAnalyzed isAn; cases x.analyzed <;> rfl

theorem norm_boostI (d : Dec) (i : EItem) : norm (boostI d i) = boostI d (norm i) := rfl
theorem norm_fuzzyI (d : Dec) (i : EItem) : norm (fuzzyI d i) = fuzzyI d (norm i) := rfl
theorem norm_slopI (d : Dec) (i : EItem) : norm (slopI d i) = slopI d (norm i) := by
  unfold slopI; split
  · have : ((norm i).kind == EKind.phrase) = true := by assumption
    rw [if_pos this]; rfl
  · have : ¬ ((norm i).kind == EKind.phrase) = true := by assumption
    rw [if_neg this]

theorem setBoost_item (d : Dec) (i : EItem) : setBoost d (.item i) = .item (boostI d i) := rfl
theorem setFuzzy_item (d : Dec) (i : EItem) : setFuzzy d (.item i) = .item (fuzzyI d i) := rfl
theorem setSlop_item (d : Dec) (i : EItem) : setSlop d (.item i) = .item (slopI d i) := by
  simp only [setSlop, slopI]; split <;> rfl

theorem setBoost_nonitem (d : Dec) (e : ETree) (h : ∀ i, e ≠ .item i) : setBoost d e = e := by
  cases e with
  | item i => exact absurd rfl (h i)
  | _ => rfl
theorem setFuzzy_nonitem (d : Dec) (e : ETree) (h : ∀ i, e ≠ .item i) : setFuzzy d e = e := by
  cases e with
  | item i => exact absurd rfl (h i)
  | _ => rfl
theorem setSlop_nonitem (d : Dec) (e : ETree) (h : ∀ i, e ≠ .item i) : setSlop d e = e := by
  cases e with
  | item i => exact absurd rfl (h i)
  | _ => rfl

/-- the E-node `e` of an expression whose `leafItem` is `oi`: the same item up to `_name` and
`zero_terms_query`, or no item at all -/
def LeafRel (oi : Option EItem) (e : ETree) : Prop :=
  match oi with
  | some i => ∃ i', e = .item i' ∧ norm i' = norm i
  | none => ∀ i', e ≠ .item i'

theorem LeafRel.map {oi : Option EItem} {e : ETree} (f : EItem → EItem) (g : ETree → ETree)
    (hitem : ∀ i, g (.item i) = .item (f i)) (hnorm : ∀ i, norm (f i) = f (norm i))
    (hnon : ∀ e, (∀ i, e ≠ .item i) → g e = e) (h : LeafRel oi e) : LeafRel (oi.map f) (g e) := by
  cases oi with
  | some i =>
    obtain ⟨i', rfl, hn⟩ := h
    exact ⟨f i', hitem i', by rw [hnorm, hnorm, hn]⟩
  | none =>
    intro i'
    rw [hnon e h]; exact h i'

theorem visitS_leaf (c : EsCfg) : ∀ (t : Tree) (x : EsCtx) (e : ETree), visitS c x none t = .ok [e] →
    LeafRel (leafItem c x.analyzed x.fieldPrefix t) e
  | .term .word v l, x, e, h => by
      simp only [visitS, isAnalyzed_eq] at h; cases h
      exact ⟨_, rfl, rfl⟩
  | .term .phrase v l, x, e, h => by
      simp only [visitS, isAnalyzed_eq] at h
      simp only [leafItem]
      split at h <;> rename_i ha <;> cases h
      · rw [if_pos ha]; exact ⟨_, rfl, rfl⟩
      · rw [if_neg ha]; exact ⟨_, rfl, rfl⟩
  | .term .regex v l, x, e, h => by simp only [visitS] at h; cases h
  | .none _, x, e, h => by simp only [visitS] at h; cases h
  | .range a b il ih l, x, e, h => by
      simp only [visitS] at h
      simp only [leafItem]
      split at h
      · rename_i lv hv h1 h2
        cases h
        rw [h1, h2]; exact ⟨_, rfl, rfl⟩
      · cases h
  | .field n e l, x, en', h => by
      simp only [visitS] at h
      obtain ⟨en, h1, h2⟩ := map_ok h
      have ih := visitS_leaf c e _ en (exactlyOne_ok h1)
      rw [fieldCtx_analyzed, fieldCtx_fieldPrefix] at ih
      rw [fieldWrap_eq] at h2
      simp only [leafItem]
      cases hc : nestedCand c x.fieldPrefix n with
      | none =>
        rw [hc] at h2
        cases h2
        simpa using ih
      | some path =>
        rw [hc] at h2
        simp only [Option.isSome_some, if_true]
        cases en <;> cases h2 <;> (intro i' h'; cases h')
  | .group k e l, x, en, h => by
      simp only [visitS] at h
      simpa [leafItem] using visitS_leaf c e _ en h
  | .orange k e i l, x, en, h => by
      simp only [visitS] at h
      simpa [leafItem] using visitS_leaf c e _ en h
  | .boost e n l, x, en', h => by
      simp only [visitS] at h
      obtain ⟨en, h1, h2⟩ := map_ok h
      cases h2
      have ih := visitS_leaf c e _ en (exactlyOne_ok h1)
      rw [propagateName_analyzed, propagateName_fieldPrefix] at ih
      simp only [leafItem]
      exact ih.map _ _ (setBoost_item _) (norm_boostI _) (setBoost_nonitem _)
  | .approx .fuzzy e n l, x, en', h => by
      simp only [visitS] at h
      obtain ⟨en, h1, h2⟩ := map_ok h
      cases h2
      have ih := visitS_leaf c e _ en (exactlyOne_ok h1)
      rw [propagateName_analyzed, propagateName_fieldPrefix] at ih
      simp only [leafItem]
      exact ih.map _ _ (setFuzzy_item _) (norm_fuzzyI _) (setFuzzy_nonitem _)
  | .approx .proximity e n l, x, en', h => by
      simp only [visitS, isAnalyzed_eq] at h
      obtain ⟨en, h1, h2⟩ := map_ok h
      cases h2
      have ih := visitS_leaf c e _ en (exactlyOne_ok h1)
      rw [propagateName_analyzed, propagateName_fieldPrefix] at ih
      simp only [leafItem]
      split
      · exact ih.map _ _ (setSlop_item _) (norm_slopI _) (setSlop_nonitem _)
      · exact ih.map _ _ (setFuzzy_item _) (norm_fuzzyI _) (setFuzzy_nonitem _)
  | .unary k e l, x, en, h => by
      simp only [visitS, parSame, Bool.false_eq_true, if_false] at h
      obtain ⟨items, _, h2⟩ := map_ok h
      cases h2
      intro i' h'
      cases k <;> cases h'
  | .op k xs l, x, en, h => by
      simp only [visitS] at h
      obtain ⟨items, _, h2⟩ := map_ok h
      cases h2
      intro i' h'
      cases k <;> simp only [opEK] at h' <;> (try split at h') <;> cases h'

/-! ### which E-nodes `EBoolOperation.json` merges into its own lists -/

/-- an `EMust` / `EMustNot` -/
def isMerged : ETree → Bool
  | .op .must _ => true
  | .op .mustNot _ => true
  | _ => false

theorem isMerged_setBoost (d : Dec) (e : ETree) : isMerged (setBoost d e) = isMerged e := by
  cases e <;> rfl
theorem isMerged_setFuzzy (d : Dec) (e : ETree) : isMerged (setFuzzy d e) = isMerged e := by
  cases e <;> rfl
theorem isMerged_setSlop (d : Dec) (e : ETree) : isMerged (setSlop d e) = isMerged e := by
  cases e with
  | item i => simp only [setSlop]; split <;> rfl
  | _ => rfl

theorem mergedCore_group (c : EsCfg) (k e l) : mergedCore c (.group k e l) = mergedCore c e := rfl
theorem mergedCore_field (c : EsCfg) (n e l) : mergedCore c (.field n e l) = mergedCore c e := rfl
theorem mergedCore_boost (c : EsCfg) (e n l) : mergedCore c (.boost e n l) = mergedCore c e := rfl
theorem mergedCore_approx (c : EsCfg) (k e n l) : mergedCore c (.approx k e n l) = mergedCore c e := rfl

/-- an expression whose core is no conjunction and no unary operator does not yield an `EMust` /
`EMustNot` -/
theorem visitS_not_merged (c : EsCfg) : ∀ (t : Tree) (x : EsCtx) (e : ETree), Supported t = true →
    mergedCore c t = false → visitS c x none t = .ok [e] → isMerged e = false
  | .term .word v l, x, e, _, _, h => by simp only [visitS] at h; cases h; rfl
  | .term .phrase v l, x, e, _, _, h => by simp only [visitS] at h; split at h <;> cases h <;> rfl
  | .term .regex v l, x, e, _, _, h => by simp only [visitS] at h; cases h
  | .none _, x, e, _, _, h => by simp only [visitS] at h; cases h
  | .range a b il ih l, x, e, _, _, h => by simp only [visitS] at h; split at h <;> cases h; rfl
  | .field n e l, x, en', hs, hm, h => by
      simp only [visitS] at h
      obtain ⟨en, h1, h2⟩ := map_ok h
      have ih := visitS_not_merged c e _ en (by simpa [Supported] using hs) hm (exactlyOne_ok h1)
      rw [fieldWrap_eq] at h2
      cases hc : nestedCand c x.fieldPrefix n with
      | none => rw [hc] at h2; cases h2; exact ih
      | some path => rw [hc] at h2; cases en <;> cases h2 <;> rfl
  | .group k e l, x, en, hs, hm, h => by
      simp only [visitS] at h
      exact visitS_not_merged c e _ en (by simpa [Supported] using hs) hm h
  | .orange k e i l, x, en, hs, _, _ => by simp [Supported] at hs
  | .boost e n l, x, en', hs, hm, h => by
      simp only [visitS] at h
      obtain ⟨en, h1, h2⟩ := map_ok h
      cases h2
      rw [isMerged_setBoost]
      exact visitS_not_merged c e _ en (by simpa [Supported] using hs) hm (exactlyOne_ok h1)
  | .approx .fuzzy e n l, x, en', hs, hm, h => by
      simp only [visitS] at h
      obtain ⟨en, h1, h2⟩ := map_ok h
      cases h2
      rw [isMerged_setFuzzy]
      exact visitS_not_merged c e _ en (by simpa [Supported] using hs) hm (exactlyOne_ok h1)
  | .approx .proximity e n l, x, en', hs, hm, h => by
      simp only [visitS] at h
      obtain ⟨en, h1, h2⟩ := map_ok h
      cases h2
      have ih := visitS_not_merged c e _ en (by simpa [Supported] using hs) hm (exactlyOne_ok h1)
      split
      · rw [isMerged_setSlop]; exact ih
      · rw [isMerged_setFuzzy]; exact ih
  | .unary k e l, x, en, _, hm, _ => by simp [mergedCore, core] at hm
  | .op k xs l, x, en, _, hm, h => by
      simp only [visitS] at h
      obtain ⟨items, _, h2⟩ := map_ok h
      cases h2
      simp only [mergedCore, core] at hm
      cases k <;> simp only [kindAnd] at hm <;> simp only [opEK, hm] <;> first | rfl | cases hm

end Luqum.Lemmas.Es
