/-
  Luqum.Lemmas.EsSpecNorm — the normalisation of field specifications (`luqum.utils`) does not
  depend on the spelling of the specification.

  * `dedup`: membership, `Nodup`, fixed points, idempotence.
  * `normalizeNested`: the four spellings of a set of leaf names (`list`, dict with `None` / `{}` /
    `[]` values) have the same normal form; `SpecEq` ("same meaning") implies the same normal form;
    `normalizeNested` is idempotent; consequences for `EsCfg.nestedNorm/nestedFlat/nestedPrefixes`.
  * `flattenNested (normalizeNested s)` in terms of `flattenSpecs`.
  * `normalizeObject`: the dotted-list spelling equals the dict spelling.
-/
import Luqum.Model.Es

namespace Luqum.Lemmas.EsSpecNorm
open Luqum

/-! ### `dedup` -/

/-- the loop body of `dedup` -/
def dedupStep (acc : List Str) (x : Str) : List Str := if acc.contains x then acc else acc ++ [x]

theorem dedup_eq_foldl (xs : List Str) : dedup xs = xs.foldl dedupStep [] := rfl

theorem mem_foldl_dedupStep (xs : List Str) : ∀ (acc : List Str) (x : Str),
    x ∈ xs.foldl dedupStep acc ↔ x ∈ acc ∨ x ∈ xs := by
  induction xs with
  | nil => intro acc x; simp
  | cons y r ih =>
    intro acc x
    rw [List.foldl_cons, ih]
    unfold dedupStep
    by_cases h : acc.contains y = true
    · have hy : y ∈ acc := by simpa using h
      rw [if_pos h]
      simp only [List.mem_cons]
      constructor
      · rintro (h1 | h1)
        · exact .inl h1
        · exact .inr (.inr h1)
      · rintro (h1 | h1 | h1)
        · exact .inl h1
        · exact .inl (h1 ▸ hy)
        · exact .inr h1
    · rw [if_neg h]
      simp only [List.mem_append, List.mem_cons, List.not_mem_nil, or_false]
      constructor
      · rintro ((h1 | h1) | h1)
        · exact .inl h1
        · exact .inr (.inl h1)
        · exact .inr (.inr h1)
      · rintro (h1 | h1 | h1)
        · exact .inl (.inl h1)
        · exact .inl (.inr h1)
        · exact .inr h1

/-- `dedup` keeps exactly the elements of the list -/
theorem mem_dedup {x : Str} {xs : List Str} : x ∈ dedup xs ↔ x ∈ xs := by
  rw [dedup_eq_foldl, mem_foldl_dedupStep]; simp

theorem nodup_foldl_dedupStep (xs : List Str) : ∀ (acc : List Str),
    acc.Nodup → (xs.foldl dedupStep acc).Nodup := by
  induction xs with
  | nil => intro acc h; simpa using h
  | cons y r ih =>
    intro acc h
    rw [List.foldl_cons]
    apply ih
    unfold dedupStep
    by_cases hc : acc.contains y = true
    · rw [if_pos hc]; exact h
    · have hy : y ∉ acc := by simpa using hc
      rw [if_neg hc, List.nodup_append]
      refine ⟨h, by simp, ?_⟩
      intro a ha b hb
      have : b = y := by simpa using hb
      subst this
      intro e; subst e; exact hy ha

/-- the result of `dedup` has no duplicates -/
theorem nodup_dedup (xs : List Str) : (dedup xs).Nodup :=
  nodup_foldl_dedupStep xs [] List.nodup_nil

theorem foldl_dedupStep_of_nodup (xs : List Str) : ∀ (acc : List Str),
    (acc ++ xs).Nodup → xs.foldl dedupStep acc = acc ++ xs := by
  induction xs with
  | nil => intro acc _; simp
  | cons y r ih =>
    intro acc h
    rw [List.foldl_cons]
    have hy : y ∉ acc := by
      rw [List.nodup_append] at h
      intro hy
      exact h.2.2 y hy y (by simp) rfl
    have hc : acc.contains y = false := by simpa using hy
    have : dedupStep acc y = acc ++ [y] := by
      unfold dedupStep; rw [hc]; rfl
    rw [this, ih]
    · simp
    · simpa using h

/-- a duplicate-free list is a fixed point of `dedup` -/
theorem dedup_of_nodup {xs : List Str} (h : xs.Nodup) : dedup xs = xs := by
  have := foldl_dedupStep_of_nodup xs [] (by simpa using h)
  simpa [dedup_eq_foldl] using this

/-- `dedup` is idempotent -/
theorem dedup_idem (xs : List Str) : dedup (dedup xs) = dedup xs :=
  dedup_of_nodup (nodup_dedup xs)

@[simp] theorem dedup_nil : dedup [] = [] := rfl

theorem contains_dedup (xs : List Str) (x : Str) : (dedup xs).contains x = xs.contains x := by
  rw [Bool.eq_iff_iff]; simp [mem_dedup]

/-! ### `normalizeNested`: the spellings of a set of leaf names -/

theorem normalizeNestedKvs_map_leaf (xs : List Str) (v : Spec) (hv : normalizeNested v = .dict []) :
    normalizeNestedKvs (xs.map fun x => (x, v)) = xs.map fun x => (x, Spec.dict []) := by
  induction xs with
  | nil => simp [normalizeNestedKvs]
  | cons x r ih => simp [normalizeNestedKvs, hv, ih]

theorem normalizeNested_none : normalizeNested .none = .dict [] := by simp [normalizeNested]
theorem normalizeNested_list_nil : normalizeNested (.list []) = .dict [] := by
  simp [normalizeNested]
theorem normalizeNested_dict_nil : normalizeNested (.dict []) = .dict [] := by
  simp [normalizeNested, normalizeNestedKvs]

/-- the list spelling of duplicate-free leaf names -/
theorem normalizeNested_list_of_nodup {xs : List Str} (h : xs.Nodup) :
    normalizeNested (.list xs) = .dict (xs.map fun x => (x, Spec.dict [])) := by
  simp [normalizeNested, dedup_of_nodup h]

/-- `{"a": None, "b": None}` -/
theorem normalizeNested_dict_none (xs : List Str) :
    normalizeNested (.dict (xs.map fun x => (x, Spec.none))) =
      .dict (xs.map fun x => (x, Spec.dict [])) := by
  simp [normalizeNested, normalizeNestedKvs_map_leaf xs .none normalizeNested_none]

/-- `{"a": {}, "b": {}}` -/
theorem normalizeNested_dict_empty (xs : List Str) :
    normalizeNested (.dict (xs.map fun x => (x, Spec.dict []))) =
      .dict (xs.map fun x => (x, Spec.dict [])) := by
  simp [normalizeNested, normalizeNestedKvs_map_leaf xs (.dict []) normalizeNested_dict_nil]

/-- `{"a": [], "b": []}` -/
theorem normalizeNested_dict_list (xs : List Str) :
    normalizeNested (.dict (xs.map fun x => (x, Spec.list []))) =
      .dict (xs.map fun x => (x, Spec.dict [])) := by
  simp [normalizeNested, normalizeNestedKvs_map_leaf xs (.list []) normalizeNested_list_nil]

/-- **the four spellings of a set of leaf names have the same normal form** -/
theorem normalizeNested_leaf_spellings {xs : List Str} (h : xs.Nodup) :
    normalizeNested (.list xs) = normalizeNested (.dict (xs.map fun x => (x, Spec.none))) ∧
    normalizeNested (.list xs) = normalizeNested (.dict (xs.map fun x => (x, Spec.dict []))) ∧
    normalizeNested (.list xs) = normalizeNested (.dict (xs.map fun x => (x, Spec.list []))) := by
  rw [normalizeNested_list_of_nodup h, normalizeNested_dict_none, normalizeNested_dict_empty,
    normalizeNested_dict_list]
  exact ⟨rfl, rfl, rfl⟩

example : normalizeNested (.list ["a".toList, "b".toList]) =
    normalizeNested (.dict [("a".toList, .none), ("b".toList, .list [])]) := by rfl

/-! ### "same meaning" of two specifications -/

/-- two spellings of the same nested-fields specification: `None ≈ [] ≈ {}`; a list is the dict
of its (deduplicated) names with empty values; congruence under the values of a dict. -/
inductive SpecEq : Spec → Spec → Prop
  | refl (s : Spec) : SpecEq s s
  | symm {a b : Spec} : SpecEq a b → SpecEq b a
  | trans {a b c : Spec} : SpecEq a b → SpecEq b c → SpecEq a c
  | none_list : SpecEq .none (.list [])
  | none_dict : SpecEq .none (.dict [])
  | list_dict (xs : List Str) : SpecEq (.list xs) (.dict ((dedup xs).map fun x => (x, Spec.dict [])))
  | dict_cons {k : Str} {v v' : Spec} {r r' : List (Str × Spec)} :
      SpecEq v v' → SpecEq (.dict r) (.dict r') → SpecEq (.dict ((k, v) :: r)) (.dict ((k, v') :: r'))

theorem normalizeNested_dict_cons (k : Str) (v : Spec) (r : List (Str × Spec)) :
    normalizeNested (.dict ((k, v) :: r)) = .dict ((k, normalizeNested v) :: normalizeNestedKvs r) := by
  simp [normalizeNested, normalizeNestedKvs]

theorem normalizeNested_dict (r : List (Str × Spec)) :
    normalizeNested (.dict r) = .dict (normalizeNestedKvs r) := by
  simp [normalizeNested]

/-- **equivalent spellings have the same normal form** -/
theorem normalizeNested_congr {s s' : Spec} (h : SpecEq s s') :
    normalizeNested s = normalizeNested s' := by
  induction h with
  | refl => rfl
  | symm _ ih => exact ih.symm
  | trans _ _ ih1 ih2 => exact ih1.trans ih2
  | none_list => rw [normalizeNested_none, normalizeNested_list_nil]
  | none_dict => rw [normalizeNested_none, normalizeNested_dict_nil]
  | list_dict xs =>
    rw [normalizeNested_dict_empty]
    simp [normalizeNested]
  | dict_cons _ _ ih1 ih2 =>
    rw [normalizeNested_dict_cons, normalizeNested_dict_cons, ih1]
    rw [normalizeNested_dict, normalizeNested_dict] at ih2
    injection ih2 with ih2
    rw [ih2]

/-- the value under a key can be respelled -/
theorem SpecEq.dict_one {k : Str} {v v' : Spec} (h : SpecEq v v') :
    SpecEq (.dict [(k, v)]) (.dict [(k, v')]) := .dict_cons h (.refl _)

/-- one level of nesting: the normal form of `{k: inner}` does not depend on the spelling of the
leaf names `xs` in `inner` -/
theorem normalizeNested_one_level (k : Str) {xs : List Str} (h : xs.Nodup) :
    normalizeNested (.dict [(k, .list xs)]) =
      normalizeNested (.dict [(k, .dict (xs.map fun x => (x, Spec.none)))]) ∧
    normalizeNested (.dict [(k, .list xs)]) =
      normalizeNested (.dict [(k, .dict (xs.map fun x => (x, Spec.dict [])))]) ∧
    normalizeNested (.dict [(k, .list xs)]) =
      normalizeNested (.dict [(k, .dict (xs.map fun x => (x, Spec.list [])))]) := by
  obtain ⟨h1, h2, h3⟩ := normalizeNested_leaf_spellings h
  simp only [normalizeNested_dict_cons]
  rw [← h1, ← h2, ← h3]
  exact ⟨rfl, rfl, rfl⟩

mutual
/-- **`normalizeNested` is idempotent** -/
theorem normalizeNested_idem : ∀ s : Spec, normalizeNested (normalizeNested s) = normalizeNested s
  | .none => by simp [normalizeNested, normalizeNestedKvs]
  | .list xs => by
    rw [show normalizeNested (.list xs) = .dict ((dedup xs).map fun x => (x, Spec.dict [])) by
      simp [normalizeNested]]
    exact normalizeNested_dict_empty _
  | .dict kvs => by
    rw [normalizeNested_dict, normalizeNested_dict, normalizeNestedKvs_idem kvs]
theorem normalizeNestedKvs_idem : ∀ kvs : List (Str × Spec),
    normalizeNestedKvs (normalizeNestedKvs kvs) = normalizeNestedKvs kvs
  | [] => by simp [normalizeNestedKvs]
  | (k, v) :: r => by
    simp [normalizeNestedKvs, normalizeNested_idem v, normalizeNestedKvs_idem r]
end

/-- a specification means the same as its normal form -/
theorem specEq_normalize_iff {s s' : Spec} :
    normalizeNested s = normalizeNested s' ↔
      normalizeNested (normalizeNested s) = normalizeNested (normalizeNested s') := by
  rw [normalizeNested_idem, normalizeNested_idem]

/-! ### consequences for the configuration -/

theorem nestedNorm_congr {c c' : EsCfg} (h : SpecEq c.nested c'.nested) :
    c.nestedNorm = c'.nestedNorm := normalizeNested_congr h

theorem nestedFlat_congr {c c' : EsCfg} (h : SpecEq c.nested c'.nested) :
    c.nestedFlat = c'.nestedFlat := by
  unfold EsCfg.nestedFlat; rw [nestedNorm_congr h]

theorem nestedPrefixes_congr {c c' : EsCfg} (h : SpecEq c.nested c'.nested) :
    c.nestedPrefixes = c'.nestedPrefixes := by
  unfold EsCfg.nestedPrefixes; rw [nestedFlat_congr h]

/-- normalising the specification beforehand changes nothing -/
theorem nestedNorm_normalize (c : EsCfg) :
    ({ c with nested := normalizeNested c.nested } : EsCfg).nestedNorm = c.nestedNorm :=
  normalizeNested_idem _

/-! ### `flattenNested ∘ normalizeNested` -/

mutual
/-- every list inside the specification is duplicate-free -/
def ListsNodup : Spec → Prop
  | .none => True
  | .list xs => xs.Nodup
  | .dict kvs => ListsNodupKvs kvs
def ListsNodupKvs : List (Str × Spec) → Prop
  | [] => True
  | (_, v) :: r => ListsNodup v ∧ ListsNodupKvs r
end

theorem flattenKvs_map_leaf (xs : List Str) :
    flattenKvs (xs.map fun x => (x, Spec.dict [])) = xs.map fun x => [x] := by
  induction xs with
  | nil => simp [flattenKvs]
  | cons x r ih => simp [flattenKvs, flattenSpecs, ih]

theorem normalizeNestedKvs_eq_nil {kvs : List (Str × Spec)} :
    normalizeNestedKvs kvs = [] ↔ kvs = [] := by
  cases kvs with
  | nil => simp [normalizeNestedKvs]
  | cons kv r => obtain ⟨k, v⟩ := kv; simp [normalizeNestedKvs]

/-- the normal form is always a dict: `flattenNested` of it is the deduplicated dotted flattening -/
theorem flattenNested_normalizeNested (s : Spec) :
    flattenNested (normalizeNested s) = dedup ((flattenSpecs (normalizeNested s)).map joinDot) := by
  cases s <;> simp [normalizeNested, flattenNested]

mutual
/-- normalisation does not change the flattening (lists being duplicate-free) -/
theorem flattenSpecs_normalizeNested : ∀ s : Spec, ListsNodup s →
    flattenSpecs (normalizeNested s) = flattenSpecs s
  | .none, _ => by simp [normalizeNested, flattenSpecs]
  | .list xs, h => by
    have h : xs.Nodup := by simpa [ListsNodup] using h
    rw [normalizeNested_list_of_nodup h]
    cases xs with
    | nil => simp [flattenSpecs]
    | cons x r =>
      have := flattenKvs_map_leaf (x :: r)
      simp only [List.map_cons] at this
      simp [flattenSpecs, this]
  | .dict kvs, h => by
    have h : ListsNodupKvs kvs := by simpa [ListsNodup] using h
    rw [normalizeNested_dict]
    cases kvs with
    | nil => simp [normalizeNestedKvs, flattenSpecs]
    | cons kv r =>
      have := flattenKvs_normalizeNestedKvs (kv :: r) h
      obtain ⟨k, v⟩ := kv
      simp only [flattenSpecs, this]
      simp [normalizeNestedKvs]
theorem flattenKvs_normalizeNestedKvs : ∀ kvs : List (Str × Spec), ListsNodupKvs kvs →
    flattenKvs (normalizeNestedKvs kvs) = flattenKvs kvs
  | [], _ => by simp [normalizeNestedKvs]
  | (k, v) :: r, h => by
    have h : ListsNodup v ∧ ListsNodupKvs r := by simpa [ListsNodupKvs] using h
    simp [normalizeNestedKvs, flattenKvs, flattenSpecs_normalizeNested v h.1,
      flattenKvs_normalizeNestedKvs r h.2]
end

/-- **the flat nested fields are the deduplicated dotted paths of the specification** -/
theorem flattenNested_normalizeNested_eq {s : Spec} (h : ListsNodup s) :
    flattenNested (normalizeNested s) = dedup ((flattenSpecs s).map joinDot) := by
  rw [flattenNested_normalizeNested, flattenSpecs_normalizeNested s h]

example : flattenNested (normalizeNested
    (.dict [("a".toList, .list ["x".toList, "y".toList]), ("b".toList, .none)])) =
    ["a.x".toList, "a.y".toList, "b".toList] := by decide +kernel

/-- for a dict specification `flattenNested` is not changed by normalisation -/
theorem flattenNested_normalizeNested_dict {kvs : List (Str × Spec)} (h : ListsNodupKvs kvs) :
    flattenNested (normalizeNested (.dict kvs)) = flattenNested (.dict kvs) := by
  rw [flattenNested_normalizeNested_eq (by simpa [ListsNodup] using h)]
  simp [flattenNested]

/-! ### `normalizeObject` -/

/-- the dotted-list spelling of an object-fields specification equals the dict spelling -/
theorem normalizeObject_dotted_list (kvs : List (Str × Spec)) :
    normalizeObject (.list ((flattenSpecs (.dict kvs)).map joinDot)) = normalizeObject (.dict kvs) := by
  simp [normalizeObject]

/-- … also when the list is the (already deduplicated) normal form itself: `normalizeObject` is
idempotent through the list spelling -/
theorem normalizeObject_idem (s : Spec) (ys : List Str) (h : normalizeObject s = some ys) :
    normalizeObject (.list ys) = normalizeObject s := by
  cases s with
  | none => simp [normalizeObject] at h
  | list xs =>
    simp only [normalizeObject, Option.some.injEq] at h ⊢
    rw [← h, dedup_idem]
  | dict kvs =>
    simp only [normalizeObject, Option.some.injEq] at h ⊢
    rw [← h, dedup_idem]

/-- two list spellings with the same deduplication are the same specification -/
theorem normalizeObject_list_congr {xs ys : List Str} (h : dedup xs = dedup ys) :
    normalizeObject (.list xs) = normalizeObject (.list ys) := by
  simp [normalizeObject, h]

theorem objectNorm_dotted (c : EsCfg) (kvs : List (Str × Spec)) (h : c.objectFields = .dict kvs) :
    ({ c with objectFields := .list ((flattenSpecs (.dict kvs)).map joinDot) } : EsCfg).objectNorm =
      c.objectNorm := by
  simp [EsCfg.objectNorm, h, normalizeObject]

example : normalizeObject (.list ["a.x".toList, "a.y".toList, "b".toList]) =
    normalizeObject (.dict [("a".toList, .list ["x".toList, "y".toList]), ("b".toList, .none)]) := by
  decide +kernel

end Luqum.Lemmas.EsSpecNorm
