/-
  Luqum.Lemmas.PrettySpellEval — `prettifyK`, a copy of the model `prettify` written by structural
  recursion (the model's `concatenates` / `concatElts` are defined by well-founded recursion, which the
  kernel does not evaluate), and the proof that the two are equal: `prettifyK_eq`.  Only used to
  evaluate the printer inside `decide +kernel` witnesses.
-/
import Luqum.Model.Pretty

namespace Luqum.PSpell
open Luqum

/-- the end of `_concatenates`, given the rendered elements -/
def finishK (cfg : PrettyCfg) (level : Nat) (inOne oneLiner : Bool) : Option (List Elt) → Option Str
  | none => none
  | some elts =>
    match applyStick elts none false with
    | none => none
    | some strs =>
      let prefix_ : Str := if level ≠ 0 && !inOne then List.replicate cfg.indent ' ' else []
      let joinChar : Str := if oneLiner then [' '] else '\n' :: prefix_
      some (prefix_ ++ joinStr joinChar (strs.flatMap splitLines))

/-- `in_one_liner or char_counts < max_len - indent * level` -/
def oneLinerK (cfg : PrettyCfg) (n : Int) (level : Nat) (inOne : Bool) : Bool :=
  inOne || n < cfg.maxLen - (cfg.indent * level : Nat)

mutual
/-- one chain element rendered -/
def eltK (cfg : PrettyCfg) : Chain → Nat → Bool → Option Elt
  | .str s, _, _ => some (.str s)
  | .stick, _, _ => some .stick
  | .sub ys, lvl, one =>
    let n := Chain.countList ys - 1
    let oneLiner := oneLinerK cfg n lvl one
    (finishK cfg lvl one oneLiner (eltsK cfg ys (if oneLiner then lvl else lvl + 1) oneLiner)).map Elt.str
/-- `concatElts`, by structural recursion -/
def eltsK (cfg : PrettyCfg) : List Chain → Nat → Bool → Option (List Elt)
  | [], _, _ => some []
  | x :: r, lvl, one =>
    match eltK cfg x lvl one, eltsK cfg r lvl one with
    | some e, some rest => some (e :: rest)
    | _, _ => none
end

/-- `concatenates`, by structural recursion -/
def concatenatesK (cfg : PrettyCfg) (xs : List Chain) (n : Int) (level : Nat) (inOne : Bool) :
    Option Str :=
  let oneLiner := oneLinerK cfg n level inOne
  finishK cfg level inOne oneLiner (eltsK cfg xs (if oneLiner then level else level + 1) oneLiner)

/-- `prettify`, by structural recursion -/
def prettifyK (cfg : PrettyCfg) (t : Tree) : Option Str :=
  let chains := getChains cfg.inlineOps none t
  concatenatesK cfg chains (Chain.countList chains - 1) 0 false

theorem concatenates_eq_finish (cfg : PrettyCfg) (xs : List Chain) (n : Int) (level : Nat)
    (inOne : Bool) :
    concatenates cfg xs n level inOne =
      finishK cfg level inOne (oneLinerK cfg n level inOne)
        (concatElts cfg xs (if oneLinerK cfg n level inOne then level else level + 1)
          (oneLinerK cfg n level inOne)) := by
  unfold concatenates
  simp only
  split
  · next heq =>
    have h' : concatElts cfg xs (if oneLinerK cfg n level inOne then level else level + 1)
        (oneLinerK cfg n level inOne) = none := heq
    rw [h']; rfl
  · next elts heq =>
    have h' : concatElts cfg xs (if oneLinerK cfg n level inOne then level else level + 1)
        (oneLinerK cfg n level inOne) = some elts := heq
    rw [h']
    simp only [finishK]
    cases applyStick elts none false <;> rfl

theorem eltsK_eq (cfg : PrettyCfg) : ∀ (xs : List Chain) (lvl : Nat) (one : Bool),
    eltsK cfg xs lvl one = concatElts cfg xs lvl one
  | [], lvl, one => by simp [eltsK, concatElts]
  | .str s :: r, lvl, one => by
    simp only [eltsK, eltK, concatElts, eltsK_eq cfg r lvl one]
    cases concatElts cfg r lvl one <;> rfl
  | .stick :: r, lvl, one => by
    simp only [eltsK, eltK, concatElts, eltsK_eq cfg r lvl one]
    cases concatElts cfg r lvl one <;> rfl
  | .sub ys :: r, lvl, one => by
    simp only [eltsK, eltK, concatElts, eltsK_eq cfg r lvl one, concatenates_eq_finish,
      eltsK_eq cfg ys]
    cases finishK cfg lvl one _ _ <;> cases concatElts cfg r lvl one <;> rfl

theorem concatenatesK_eq (cfg : PrettyCfg) (xs : List Chain) (n : Int) (level : Nat) (inOne : Bool) :
    concatenatesK cfg xs n level inOne = concatenates cfg xs n level inOne := by
  rw [concatenates_eq_finish, concatenatesK, eltsK_eq]

/-- **the structural copy is the model** -/
theorem prettifyK_eq (cfg : PrettyCfg) (t : Tree) : prettifyK cfg t = prettify cfg t := by
  unfold prettifyK prettify
  exact concatenatesK_eq ..

end Luqum.PSpell
