/-
  Luqum.Lemmas.TransResolve — `UnknownOperationResolver` with an explicit target (`relabel k h`, see
  C10) and the hypotheses of the print-and-reparse theorem: blank layout, canonical form up to
  same-class nesting (when no resolved operation got a looser operation as direct operand, finding
  KF6), words, numerals, token texts.
-/
import Luqum.Lemmas.TransNormKeep
import Luqum.Props.C10

namespace Luqum
open Luqum.Compl (wordTerm boundText)
open Luqum.Props.C10 (relabel relabelList relabelList_eq_map)

@[simp] theorem noName_head'' (l : Lay) : l.noName.head = l.head := rfl
@[simp] theorem noName_tail'' (l : Lay) : l.noName.tail = l.tail := rfl

/-! ### the root of the result -/

theorem relabel_shape (k : OpK) (h : Str) (t : Tree) :
    isOp' (relabel k h t) = isOp' t ∧ isUnary (relabel k h t) = isUnary t ∧
      isField (relabel k h t) = isField t ∧ isWord (relabel k h t) = isWord t ∧
      isPhrase (relabel k h t) = isPhrase t ∧ isWP (relabel k h t) = isWP t ∧
      wordTerm (relabel k h t) = wordTerm t ∧ (relabel k h t).isNone = t.isNone := by
  cases t with
  | term k' v l => cases k' <;> simp [relabel, isOp', isUnary, isField, isWord, isPhrase, isWP, wordTerm, Tree.isNone]
  | op k' xs l => cases k' <;> simp [relabel, isOp', isUnary, isField, isWord, isPhrase, isWP, wordTerm, Tree.isNone]
  | _ => simp [relabel, isOp', isUnary, isField, isWord, isPhrase, isWP, wordTerm, Tree.isNone]

theorem relabel_isBound (k : OpK) (h : Str) (t : Tree) :
    isBound (relabel k h t) = isBound t ∧ boundText (relabel k h t) = boundText t := by
  cases t with
  | term k' v l => cases k' <;> simp [relabel, isBound, boundText, wordTerm]
  | unary k' e l =>
    have := relabel_shape k h e
    cases k'
    · simp [relabel, isBound, boundText, wordTerm]
    · simp [relabel, isBound, boundText, wordTerm]
    · simp only [relabel, isBound, boundText]; exact ⟨this.2.2.2.2.2.1, this.2.2.2.2.2.2.1⟩
  | op k' xs l => cases k' <;> simp [relabel, isBound, boundText, wordTerm]
  | _ => simp [relabel, isBound, boundText, wordTerm]

theorem addHeads_eq (h : Str) : ∀ xs : List Tree,
    addHeads h xs = match xs with | [] => [] | x :: r => x :: r.map (fun c => c.setHead (h ++ c.head))
  | [] => rfl
  | _ :: _ => rfl

theorem addHeads_length (h : Str) (xs : List Tree) : (addHeads h xs).length = xs.length := by
  cases xs <;> simp [addHeads]

theorem all_addHeads (P : Tree → Bool) (hP : ∀ (t : Tree) (l : Lay), P (t.setLay l) = P t) (h : Str)
    (xs : List Tree) : (addHeads h xs).all P = xs.all P := by
  cases xs with
  | nil => rfl
  | cons x r =>
    simp only [addHeads, List.all_cons, List.all_map]
    congr 1
    apply List.all_congr rfl
    intro c
    simp [Tree.setHead, hP]

/-! ### the operands of the operations of the result -/

mutual
/-- **no operation has a direct operand that binds looser than it** (finding KF6 is the failure of
this for a resolved operation): every direct operand of a `k`-operation is acceptable to it
(`operandOK`: an AND has no operation, an OR no OR and no implicit operation, an implicit operation
no implicit operation as direct operand) or is a `k`-operation itself -/
def noLooserOperand : Tree → Bool
  | .term .. => true
  | .none _ => true
  | .field _ e _ => noLooserOperand e
  | .group _ e _ => noLooserOperand e
  | .approx _ e _ _ => noLooserOperand e
  | .boost e _ _ => noLooserOperand e
  | .unary _ e _ => noLooserOperand e
  | .orange _ e _ _ => noLooserOperand e
  | .range a b _ _ _ => noLooserOperand a && noLooserOperand b
  | .op k xs _ => xs.all (preOperandOK k) && noLooserOperands xs
def noLooserOperands : List Tree → Bool
  | [] => true
  | x :: r => noLooserOperand x && noLooserOperands r
end

theorem noLooserOperands_eq_all : ∀ xs : List Tree, noLooserOperands xs = xs.all noLooserOperand
  | [] => rfl
  | x :: r => by simp [noLooserOperands, noLooserOperands_eq_all r]

theorem noLooserOperand_setLay (t : Tree) (l : Lay) : noLooserOperand (t.setLay l) = noLooserOperand t := by
  cases t <;> simp [Tree.setLay, noLooserOperand]

theorem preCanonAt_setLay (uf : Bool) (t : Tree) (l : Lay) : PreCanonAt uf (t.setLay l) = PreCanonAt uf t := by
  cases t with
  | approx k e n l' => cases k <;> simp [Tree.setLay, PreCanonAt]
  | _ => simp [Tree.setLay, PreCanonAt]

mutual
/-- **the result for a canonical tree is canonical up to same-class nesting, if no operation of the
result has a looser operation as direct operand** -/
theorem preCanon_relabel (k : OpK) (hk : k = .and ∨ k = .or) (h : Str) : ∀ (t : Tree) (uf : Bool),
    CanonAt uf t = true → noLooserOperand (relabel k h t) = true → PreCanonAt uf (relabel k h t) = true
  | .term .., _, _, _ => rfl
  | .none _, _, hc, _ => by simp [CanonAt] at hc
  | .field n e l, uf, hc, hn => by
    simp only [CanonAt, Bool.and_eq_true] at hc
    simp only [relabel, noLooserOperand] at hn
    simp [relabel, PreCanonAt, preCanon_relabel k hk h e true hc.1 hn, (relabel_shape k h e).1, hc.2]
  | .group k' e l, uf, hc, hn => by
    simp only [CanonAt, Bool.and_eq_true] at hc
    simp only [relabel, noLooserOperand] at hn
    simp only [relabel, PreCanonAt, Bool.and_eq_true]
    exact ⟨hc.1, preCanon_relabel k hk h e false hc.2 hn⟩
  | .approx .fuzzy e n l, uf, hc, _ => by
    simp only [CanonAt] at hc
    simp [relabel, PreCanonAt, (relabel_shape k h e).2.2.2.1, hc]
  | .approx .proximity e n l, uf, hc, _ => by
    simp only [CanonAt] at hc
    simp [relabel, PreCanonAt, (relabel_shape k h e).2.2.2.2.1, hc]
  | .boost e n l, uf, hc, hn => by
    simp only [CanonAt, Bool.and_eq_true] at hc
    simp only [relabel, noLooserOperand] at hn
    have := relabel_shape k h e
    simp [relabel, PreCanonAt, preCanon_relabel k hk h e false hc.1.1.1 hn, this.1, this.2.1, this.2.2.1,
      hc.1.1.2, hc.1.2, hc.2]
  | .unary k' e l, uf, hc, hn => by
    simp only [CanonAt, Bool.and_eq_true] at hc
    simp only [relabel, noLooserOperand] at hn
    simp [relabel, PreCanonAt, preCanon_relabel k hk h e false hc.1 hn, (relabel_shape k h e).1, hc.2]
  | .range a b il ih l, uf, hc, _ => by
    simp only [CanonAt, Bool.and_eq_true] at hc
    simp [relabel, PreCanonAt, (relabel_isBound k h a).1, (relabel_isBound k h b).1, hc.1, hc.2]
  | .orange k' e i l, uf, hc, _ => by
    simp only [CanonAt] at hc
    simp [relabel, PreCanonAt, (relabel_shape k h e).2.2.2.2.2.1, hc]
  | .op .unk xs l, uf, hc, hn => by
    simp only [CanonAt, Bool.and_eq_true, decide_eq_true_eq] at hc
    simp only [relabel, noLooserOperand, Bool.and_eq_true, noLooserOperands_eq_all,
      all_addHeads _ noLooserOperand_setLay] at hn
    have ih := preCanons_relabel k hk h xs hc.1.2 (by rw [noLooserOperands_eq_all]; exact hn.2)
    simp only [relabel, PreCanonAt, Bool.and_eq_true, Bool.or_eq_true, decide_eq_true_eq,
      preCanonsAt_eq_all, all_addHeads _ (preCanonAt_setLay false), addHeads_length]
    rw [preCanonsAt_eq_all] at ih
    refine ⟨⟨by rcases hk with rfl | rfl <;> decide, ih⟩, Or.inl ⟨?_, hn.1⟩⟩
    rw [relabelList_eq_map, List.length_map]; exact hc.1.1.2
  | .op .and xs l, uf, hc, hn => by
    simp only [CanonAt, Bool.and_eq_true, decide_eq_true_eq] at hc
    simp only [relabel, noLooserOperand, Bool.and_eq_true] at hn
    have ih := preCanons_relabel k hk h xs hc.1.2 hn.2
    simp only [relabel, PreCanonAt, Bool.and_eq_true, Bool.or_eq_true, decide_eq_true_eq]
    refine ⟨⟨by decide, ih⟩, Or.inl ⟨?_, hn.1⟩⟩
    rw [relabelList_eq_map, List.length_map]; exact hc.1.1.2
  | .op .or xs l, uf, hc, hn => by
    simp only [CanonAt, Bool.and_eq_true, decide_eq_true_eq] at hc
    simp only [relabel, noLooserOperand, Bool.and_eq_true] at hn
    have ih := preCanons_relabel k hk h xs hc.1.2 hn.2
    simp only [relabel, PreCanonAt, Bool.and_eq_true, Bool.or_eq_true, decide_eq_true_eq]
    refine ⟨⟨by decide, ih⟩, Or.inl ⟨?_, hn.1⟩⟩
    rw [relabelList_eq_map, List.length_map]; exact hc.1.1.2
  | .op .bool xs l, uf, hc, _ => by simp [CanonAt] at hc
theorem preCanons_relabel (k : OpK) (hk : k = .and ∨ k = .or) (h : Str) : ∀ xs : List Tree,
    CanonsAt xs = true → noLooserOperands (relabelList k h xs) = true →
    PreCanonsAt (relabelList k h xs) = true
  | [], _, _ => rfl
  | x :: r, hc, hn => by
    simp only [CanonsAt, Bool.and_eq_true] at hc
    simp only [relabelList, noLooserOperands, Bool.and_eq_true] at hn
    simp only [relabelList, PreCanonsAt, Bool.and_eq_true]
    exact ⟨preCanon_relabel k hk h x false hc.1 hn.1, preCanons_relabel k hk h r hc.2 hn.2⟩
end

/-! ### blank layout -/

theorem blankLayouts_addHeads (h : Str) (hh : isBlank h = true) (xs : List Tree)
    (hb : Tree.blankLayouts xs = true) : Tree.blankLayouts (addHeads h xs) = true := by
  cases xs with
  | nil => rfl
  | cons x r =>
    simp only [Tree.blankLayouts, Bool.and_eq_true] at hb
    simp only [addHeads, Tree.blankLayouts, Bool.and_eq_true]
    refine ⟨hb.1, ?_⟩
    have := hb.2
    clear hb
    induction r with
    | nil => rfl
    | cons y s ih =>
      simp only [Tree.blankLayouts, Bool.and_eq_true, List.map_cons] at this ⊢
      exact ⟨blank_setHead_pre y h this.1 hh, ih this.2⟩

mutual
theorem blank_relabel (k : OpK) (h : Str) (hh : isBlank h = true) : ∀ t : Tree,
    t.blankLayout = true → (relabel k h t).blankLayout = true
  | .term .., hb => hb
  | .none _, hb => hb
  | .field n e l, hb => by
    simp only [Tree.blankLayout, Bool.and_eq_true] at hb
    simp [relabel, Tree.blankLayout, hb.1, blank_relabel k h hh e hb.2]
  | .group k' e l, hb => by
    simp only [Tree.blankLayout, Bool.and_eq_true] at hb
    simp [relabel, Tree.blankLayout, hb.1, blank_relabel k h hh e hb.2]
  | .approx k' e n l, hb => by
    simp only [Tree.blankLayout, Bool.and_eq_true] at hb
    simp [relabel, Tree.blankLayout, hb.1, blank_relabel k h hh e hb.2]
  | .boost e n l, hb => by
    simp only [Tree.blankLayout, Bool.and_eq_true] at hb
    simp [relabel, Tree.blankLayout, hb.1, blank_relabel k h hh e hb.2]
  | .unary k' e l, hb => by
    simp only [Tree.blankLayout, Bool.and_eq_true] at hb
    simp [relabel, Tree.blankLayout, hb.1, blank_relabel k h hh e hb.2]
  | .orange k' e i l, hb => by
    simp only [Tree.blankLayout, Bool.and_eq_true] at hb
    simp [relabel, Tree.blankLayout, hb.1, blank_relabel k h hh e hb.2]
  | .range a b il ih l, hb => by
    simp only [Tree.blankLayout, Bool.and_eq_true] at hb
    simp [relabel, Tree.blankLayout, hb.1.1, blank_relabel k h hh a hb.1.2, blank_relabel k h hh b hb.2]
  | .op .unk xs l, hb => by
    simp only [Tree.blankLayout, Bool.and_eq_true] at hb
    simp [relabel, Tree.blankLayout, hb.1, blankLayouts_addHeads h hh _ (blanks_relabel k h hh xs hb.2)]
  | .op .and xs l, hb => by
    simp only [Tree.blankLayout, Bool.and_eq_true] at hb
    simp [relabel, Tree.blankLayout, hb.1, blanks_relabel k h hh xs hb.2]
  | .op .or xs l, hb => by
    simp only [Tree.blankLayout, Bool.and_eq_true] at hb
    simp [relabel, Tree.blankLayout, hb.1, blanks_relabel k h hh xs hb.2]
  | .op .bool xs l, hb => by
    simp only [Tree.blankLayout, Bool.and_eq_true] at hb
    simp [relabel, Tree.blankLayout, hb.1, blanks_relabel k h hh xs hb.2]
theorem blanks_relabel (k : OpK) (h : Str) (hh : isBlank h = true) : ∀ xs : List Tree,
    Tree.blankLayouts xs = true → Tree.blankLayouts (relabelList k h xs) = true
  | [], _ => rfl
  | x :: r, hb => by
    simp only [Tree.blankLayouts, Bool.and_eq_true] at hb
    simp [relabelList, Tree.blankLayouts, blank_relabel k h hh x hb.1, blanks_relabel k h hh r hb.2]
end

/-! ### words, numerals, token texts -/

mutual
theorem wordsOK_relabel (k : OpK) (h : Str) : ∀ t : Tree, WordsOK (relabel k h t) = WordsOK t
  | .term k' v l => by cases k' <;> rfl
  | .none _ => rfl
  | .field n e l => by simp [relabel, WordsOK, wordsOK_relabel k h e]
  | .group k' e l => by simp [relabel, WordsOK, wordsOK_relabel k h e]
  | .approx .fuzzy e n l => by simp [relabel, WordsOK, (relabel_shape k h e).2.2.2.2.2.2.1]
  | .approx .proximity e n l => by simp [relabel, WordsOK]
  | .boost e n l => by simp [relabel, WordsOK, wordsOK_relabel k h e]
  | .unary k' e l => by simp [relabel, WordsOK, wordsOK_relabel k h e]
  | .orange k' e i l => by simp [relabel, WordsOK, (relabel_shape k h e).2.2.2.2.2.2.1]
  | .range a b il ih l => by simp [relabel, WordsOK, (relabel_isBound k h a).2, (relabel_isBound k h b).2]
  | .op .unk xs l => by
    have ih := wordssOK_relabel k h xs
    rw [wordssOK_eq_all, wordssOK_eq_all] at ih
    simp only [relabel, WordsOK, wordssOK_eq_all, all_addHeads _ wordsOK_setLay, ih]
  | .op .and xs l => by simp [relabel, WordsOK, wordssOK_relabel k h xs]
  | .op .or xs l => by simp [relabel, WordsOK, wordssOK_relabel k h xs]
  | .op .bool xs l => by simp [relabel, WordsOK, wordssOK_relabel k h xs]
theorem wordssOK_relabel (k : OpK) (h : Str) : ∀ xs : List Tree,
    WordssOK (relabelList k h xs) = WordssOK xs
  | [] => rfl
  | x :: r => by simp [relabelList, WordssOK, wordsOK_relabel k h x, wordssOK_relabel k h r]
end

mutual
theorem numsOK_relabel (k : OpK) (h : Str) : ∀ t : Tree, numsOK (relabel k h t) = numsOK t
  | .term .. => rfl
  | .none _ => rfl
  | .field n e l => by simp [relabel, numsOK, numsOK_relabel k h e]
  | .group k' e l => by simp [relabel, numsOK, numsOK_relabel k h e]
  | .approx k' e n l => by cases k' <;> simp [relabel, numsOK, numsOK_relabel k h e]
  | .boost e n l => by simp [relabel, numsOK, numsOK_relabel k h e]
  | .unary k' e l => by simp [relabel, numsOK, numsOK_relabel k h e]
  | .orange k' e i l => by simp [relabel, numsOK, numsOK_relabel k h e]
  | .range a b il ih l => by simp [relabel, numsOK, numsOK_relabel k h a, numsOK_relabel k h b]
  | .op .unk xs l => by
    have ih := numssOK_relabel k h xs
    rw [numssOK_eq_all, numssOK_eq_all] at ih
    simp only [relabel, numsOK, numssOK_eq_all, all_addHeads _ numsOK_setLay, ih]
  | .op .and xs l => by simp [relabel, numsOK, numssOK_relabel k h xs]
  | .op .or xs l => by simp [relabel, numsOK, numssOK_relabel k h xs]
  | .op .bool xs l => by simp [relabel, numsOK, numssOK_relabel k h xs]
theorem numssOK_relabel (k : OpK) (h : Str) : ∀ xs : List Tree, numssOK (relabelList k h xs) = numssOK xs
  | [] => rfl
  | x :: r => by simp [relabelList, numssOK, numsOK_relabel k h x, numssOK_relabel k h r]
end

mutual
theorem validTexts_relabel (k : OpK) (h : Str) : ∀ t : Tree, validTexts (relabel k h t) = validTexts t
  | .term k' v l => by cases k' <;> rfl
  | .none _ => rfl
  | .field n e l => by simp [relabel, validTexts, validTexts_relabel k h e]
  | .group k' e l => by simp [relabel, validTexts, validTexts_relabel k h e]
  | .approx k' e n l => by simp [relabel, validTexts, validTexts_relabel k h e]
  | .boost e n l => by simp [relabel, validTexts, validTexts_relabel k h e]
  | .unary k' e l => by simp [relabel, validTexts, validTexts_relabel k h e]
  | .orange k' e i l => by simp [relabel, validTexts, validTexts_relabel k h e]
  | .range a b il ih l => by simp [relabel, validTexts, validTexts_relabel k h a, validTexts_relabel k h b]
  | .op .unk xs l => by
    have ih := validTextss_relabel k h xs
    rw [validTextss_eq_all, validTextss_eq_all] at ih
    simp only [relabel, validTexts, validTextss_eq_all, all_addHeads _ validTexts_setLay, ih]
  | .op .and xs l => by simp [relabel, validTexts, validTextss_relabel k h xs]
  | .op .or xs l => by simp [relabel, validTexts, validTextss_relabel k h xs]
  | .op .bool xs l => by simp [relabel, validTexts, validTextss_relabel k h xs]
theorem validTextss_relabel (k : OpK) (h : Str) : ∀ xs : List Tree,
    validTextss (relabelList k h xs) = validTextss xs
  | [] => rfl
  | x :: r => by simp [relabelList, validTextss, validTexts_relabel k h x, validTextss_relabel k h r]
end

/-! ### resolving to OR never puts a looser operation under a tighter one -/

theorem not_unk_relabel (k : OpK) (hk : k ≠ .unk) (h : Str) (t : Tree) :
    isOpK .unk (relabel k h t) = false := by
  cases t with
  | op k' xs l => cases k' <;> cases k <;> simp_all [relabel, isOpK]
  | _ => simp [relabel, isOpK]

theorem isOpK_relabel (k : OpK) (h : Str) (t : Tree) (ht : isOpK .unk t = false) (k' : OpK) :
    isOpK k' (relabel k h t) = isOpK k' t := by
  cases t with
  | op k'' xs l => cases k'' <;> simp_all [relabel, isOpK]
  | _ => simp [relabel, isOpK]

theorem preOperandOK_or_of_not_unk {z : Tree} (h : isOpK .unk z = false) : preOperandOK .or z = true := by
  cases h2 : isOpK .or z <;> simp [preOperandOK, operandOK, h, h2]

theorem preOperandOK_setLay (k : OpK) (t : Tree) (l : Lay) :
    preOperandOK k (t.setLay l) = preOperandOK k t := by
  simp [preOperandOK, isOpK_setLay]

mutual
/-- **resolving a canonical tree to OR gives no operation a looser operation as direct operand**
(OR is the loosest explicit operation): finding KF6 needs `resolve_to=AndOperation` -/
theorem noLooser_relabel_or (h : Str) : ∀ (t : Tree) (uf : Bool), CanonAt uf t = true →
    noLooserOperand (relabel .or h t) = true
  | .term .., _, _ => rfl
  | .none _, _, _ => rfl
  | .field n e l, _, hc => by
    simp only [CanonAt, Bool.and_eq_true] at hc
    simpa [relabel, noLooserOperand] using noLooser_relabel_or h e true hc.1
  | .group k' e l, _, hc => by
    simp only [CanonAt, Bool.and_eq_true] at hc
    simpa [relabel, noLooserOperand] using noLooser_relabel_or h e false hc.2
  | .approx .fuzzy e n l, _, hc => by
    simp only [CanonAt] at hc
    cases e <;> simp [isWord] at hc
    simp [relabel, noLooserOperand]
  | .approx .proximity e n l, _, hc => by
    simp only [CanonAt] at hc
    cases e <;> simp [isPhrase] at hc
    simp [relabel, noLooserOperand]
  | .boost e n l, _, hc => by
    simp only [CanonAt, Bool.and_eq_true] at hc
    simpa [relabel, noLooserOperand] using noLooser_relabel_or h e false hc.1.1.1
  | .unary k' e l, _, hc => by
    simp only [CanonAt, Bool.and_eq_true] at hc
    simpa [relabel, noLooserOperand] using noLooser_relabel_or h e false hc.1
  | .orange k' e i l, _, hc => by
    simp only [CanonAt] at hc
    cases e <;> simp [isWP] at hc
    simp [relabel, noLooserOperand]
  | .range a b il ih l, _, hc => by
    simp only [CanonAt, Bool.and_eq_true] at hc
    have ha : noLooserOperand (relabel .or h a) = true := by
      cases a with
      | term => rfl
      | unary k' e l' =>
        cases k' <;> simp [isBound] at hc
        cases e <;> simp [isWP] at hc
        simp [relabel, noLooserOperand]
      | _ => simp [isBound] at hc
    have hb : noLooserOperand (relabel .or h b) = true := by
      cases b with
      | term => rfl
      | unary k' e l' =>
        cases k' <;> simp [isBound] at hc
        cases e <;> simp [isWP] at hc
        simp [relabel, noLooserOperand]
      | _ => simp [isBound] at hc
    simp [relabel, noLooserOperand, ha, hb]
  | .op .bool xs l, _, hc => by simp [CanonAt] at hc
  | .op .unk xs l, _, hc => by
    simp only [CanonAt, Bool.and_eq_true] at hc
    have ih := noLoosers_relabel_or h xs hc.1.2
    simp only [relabel, noLooserOperand, Bool.and_eq_true, noLooserOperands_eq_all,
      all_addHeads _ noLooserOperand_setLay, all_addHeads _ (preOperandOK_setLay .or)]
    rw [noLooserOperands_eq_all] at ih
    refine ⟨?_, ih⟩
    rw [List.all_eq_true]
    intro z hz
    rw [relabelList_eq_map] at hz
    obtain ⟨x, _, rfl⟩ := List.mem_map.1 hz
    exact preOperandOK_or_of_not_unk (not_unk_relabel .or (by decide) h x)
  | .op .or xs l, _, hc => by
    simp only [CanonAt, Bool.and_eq_true] at hc
    simp only [relabel, noLooserOperand, Bool.and_eq_true]
    refine ⟨?_, noLoosers_relabel_or h xs hc.1.2⟩
    rw [List.all_eq_true]
    intro z hz
    rw [relabelList_eq_map] at hz
    obtain ⟨x, hx, rfl⟩ := List.mem_map.1 hz
    exact preOperandOK_or_of_not_unk (not_unk_relabel .or (by decide) h x)
  | .op .and xs l, _, hc => by
    simp only [CanonAt, Bool.and_eq_true] at hc
    simp only [relabel, noLooserOperand, Bool.and_eq_true]
    refine ⟨?_, noLoosers_relabel_or h xs hc.1.2⟩
    rw [List.all_eq_true]
    intro z hz
    rw [relabelList_eq_map] at hz
    obtain ⟨x, hx, rfl⟩ := List.mem_map.1 hz
    have ho := List.all_eq_true.1 hc.2 x hx
    simp only [operandOK, Bool.not_eq_true'] at ho
    simp [preOperandOK, operandOK, (relabel_shape .or h x).1, ho]
theorem noLoosers_relabel_or (h : Str) : ∀ xs : List Tree, CanonsAt xs = true →
    noLooserOperands (relabelList .or h xs) = true
  | [], _ => rfl
  | x :: r, hc => by
    simp only [CanonsAt, Bool.and_eq_true] at hc
    simp [relabelList, noLooserOperands, noLooser_relabel_or h x false hc.1, noLoosers_relabel_or h r hc.2]
end

/-! ### without explicit operations, resolving to AND is harmless too -/

theorem hasAndOr_of_mem : ∀ {xs : List Tree}, Props.C10.hasAndOrList xs = false → ∀ {x : Tree}, x ∈ xs →
    Props.C10.hasAndOr x = false
  | [], _, _, hx => by cases hx
  | y :: r, h, x, hx => by
    simp only [Props.C10.hasAndOrList, Bool.or_eq_false_iff] at h
    rcases List.mem_cons.1 hx with rfl | hx
    · exact h.1
    · exact hasAndOr_of_mem h.2 hx


theorem noLooser_relabel_of_isWP (k : OpK) (h : Str) {e : Tree} (he : isWP e = true) :
    noLooserOperand (relabel k h e) = true := by
  cases e <;> simp [isWP] at he
  rfl

theorem noLooser_relabel_of_isBound (k : OpK) (h : Str) {e : Tree} (he : isBound e = true) :
    noLooserOperand (relabel k h e) = true := by
  cases e with
  | term => rfl
  | unary k' e' l' =>
    cases k' <;> simp [isBound] at he
    simpa [relabel, noLooserOperand] using noLooser_relabel_of_isWP k h he
  | _ => simp [isBound] at he

theorem isWP_of_isWord {e : Tree} (h : isWord e = true) : isWP e = true := by
  cases e with
  | term k v l => cases k <;> simp_all [isWord, isWP]
  | _ => simp [isWord] at h

theorem isWP_of_isPhrase {e : Tree} (h : isPhrase e = true) : isWP e = true := by
  cases e with
  | term k v l => cases k <;> simp_all [isPhrase, isWP]
  | _ => simp [isPhrase] at h

open Luqum.Props.C10 (hasAndOr hasAndOrList) in
mutual
/-- in a canonical tree without explicit AND / OR operations the operands of the implicit operations
are not operations: resolving to AND gives no operation an operation as operand -/
theorem noLooser_relabel_and_noAndOr (h : Str) : ∀ (t : Tree) (uf : Bool), CanonAt uf t = true →
    hasAndOr t = false → noLooserOperand (relabel .and h t) = true
  | .term .., _, _, _ => rfl
  | .none _, _, _, _ => rfl
  | .field n e l, _, hc, hn => by
    simp only [CanonAt, Bool.and_eq_true] at hc
    simpa [relabel, noLooserOperand] using noLooser_relabel_and_noAndOr h e true hc.1 (by simpa [hasAndOr] using hn)
  | .group k' e l, _, hc, hn => by
    simp only [CanonAt, Bool.and_eq_true] at hc
    simpa [relabel, noLooserOperand] using noLooser_relabel_and_noAndOr h e false hc.2 (by simpa [hasAndOr] using hn)
  | .approx .fuzzy e n l, _, hc, _ => by
    simp only [CanonAt] at hc
    simpa [relabel, noLooserOperand] using noLooser_relabel_of_isWP .and h (isWP_of_isWord hc)
  | .approx .proximity e n l, _, hc, _ => by
    simp only [CanonAt] at hc
    simpa [relabel, noLooserOperand] using noLooser_relabel_of_isWP .and h (isWP_of_isPhrase hc)
  | .boost e n l, _, hc, hn => by
    simp only [CanonAt, Bool.and_eq_true] at hc
    simpa [relabel, noLooserOperand] using
      noLooser_relabel_and_noAndOr h e false hc.1.1.1 (by simpa [hasAndOr] using hn)
  | .unary k' e l, _, hc, hn => by
    simp only [CanonAt, Bool.and_eq_true] at hc
    simpa [relabel, noLooserOperand] using noLooser_relabel_and_noAndOr h e false hc.1 (by simpa [hasAndOr] using hn)
  | .orange k' e i l, _, hc, _ => by
    simp only [CanonAt] at hc
    simpa [relabel, noLooserOperand] using noLooser_relabel_of_isWP .and h hc
  | .range a b il ih l, _, hc, _ => by
    simp only [CanonAt, Bool.and_eq_true] at hc
    simp [relabel, noLooserOperand, noLooser_relabel_of_isBound .and h hc.1,
      noLooser_relabel_of_isBound .and h hc.2]
  | .op .bool xs l, _, hc, _ => by simp [CanonAt] at hc
  | .op .and xs l, _, _, hn => by simp [hasAndOr] at hn
  | .op .or xs l, _, _, hn => by simp [hasAndOr] at hn
  | .op .unk xs l, _, hc, hn => by
    simp only [CanonAt, Bool.and_eq_true] at hc
    have hn' : hasAndOrList xs = false := by simpa [hasAndOr] using hn
    have ih := noLoosers_relabel_and_noAndOr h xs hc.1.2 hn'
    simp only [relabel, noLooserOperand, Bool.and_eq_true, noLooserOperands_eq_all,
      all_addHeads _ noLooserOperand_setLay, all_addHeads _ (preOperandOK_setLay .and)]
    rw [noLooserOperands_eq_all] at ih
    refine ⟨?_, ih⟩
    rw [List.all_eq_true]
    intro z hz
    rw [relabelList_eq_map] at hz
    obtain ⟨x, hx, rfl⟩ := List.mem_map.1 hz
    have ho := List.all_eq_true.1 hc.2 x hx
    have hcx : CanonAt false x = true := by
      have := hc.1.2; rw [canonsAt_eq_all] at this; exact List.all_eq_true.1 this x hx
    have hnx : hasAndOr x = false := hasAndOr_of_mem hn' hx
    have hnon : isOp' x = false := by
      cases x with
      | op k' ys l' =>
        cases k'
        · simp [hasAndOr] at hnx
        · simp [hasAndOr] at hnx
        · simp [operandOK, isOpK] at ho
        · simp [CanonAt] at hcx
      | _ => rfl
    simp [preOperandOK, operandOK, (relabel_shape .and h x).1, hnon]
theorem noLoosers_relabel_and_noAndOr (h : Str) : ∀ xs : List Tree, CanonsAt xs = true →
    hasAndOrList xs = false → noLooserOperands (relabelList .and h xs) = true
  | [], _, _ => rfl
  | x :: r, hc, hn => by
    simp only [CanonsAt, Bool.and_eq_true] at hc
    simp only [hasAndOrList, Bool.or_eq_false_iff] at hn
    simp [relabelList, noLooserOperands, noLooser_relabel_and_noAndOr h x false hc.1 hn.1,
      noLoosers_relabel_and_noAndOr h r hc.2 hn.2]
end

end Luqum
