/-
  Luqum.Lemmas.EsSemJson — the meaning of the JSON of an E-tree is the meaning of the E-tree.
-/
import Luqum.Lemmas.EsSem

namespace Luqum.Lemmas.Es
open Luqum

/-! ### `evalAll` / `evalAny`: append, `setZeroTerms` -/

theorem evalAll_append (atom : Obj → EItem → Bool) (xs ys : List ETree) (o : Obj) :
    evalAll atom (xs ++ ys) o = (evalAll atom xs o && evalAll atom ys o) := by
  induction xs with
  | nil => simp only [List.nil_append, evalAll, Bool.true_and]
  | cons x r ih => simp only [List.cons_append, evalAll, ih, Bool.and_assoc]

theorem evalAny_append (atom : Obj → EItem → Bool) (xs ys : List ETree) (o : Obj) :
    evalAny atom (xs ++ ys) o = (evalAny atom xs o || evalAny atom ys o) := by
  induction xs with
  | nil => simp only [List.nil_append, evalAny, Bool.false_or]
  | cons x r ih => simp only [List.cons_append, evalAny, ih, Bool.or_assoc]

theorem norm_setZero (i : EItem) (v : Str) : norm { i with zeroTerms := v } = norm i := rfl

theorem evalAll_setZeroTerms (atom : Obj → EItem → Bool) (v : Str) (o : Obj) :
    ∀ (es : List ETree), evalAll atom (setZeroTerms v es) o = evalAll atom es o
  | [] => rfl
  | .item i :: r => by
      simp only [setZeroTerms, evalAll, evalE, norm_setZero, evalAll_setZeroTerms atom v o r]
  | .op k items :: r => by
      simp only [setZeroTerms, evalAll, evalAll_setZeroTerms atom v o r]
  | .nested p i n :: r => by
      simp only [setZeroTerms, evalAll, evalAll_setZeroTerms atom v o r]

theorem evalAny_setZeroTerms (atom : Obj → EItem → Bool) (v : Str) (o : Obj) :
    ∀ (es : List ETree), evalAny atom (setZeroTerms v es) o = evalAny atom es o
  | [] => rfl
  | .item i :: r => by
      simp only [setZeroTerms, evalAny, evalE, norm_setZero, evalAny_setZeroTerms atom v o r]
  | .op k items :: r => by
      simp only [setZeroTerms, evalAny, evalAny_setZeroTerms atom v o r]
  | .nested p i n :: r => by
      simp only [setZeroTerms, evalAny, evalAny_setZeroTerms atom v o r]

/-! ### `evalJAll` / `evalJAny`: append -/

theorem evalJAll_append (truth : Obj → JVal → Bool) (xs ys : List JVal) (o : Obj) :
    evalJAll truth (xs ++ ys) o = (evalJAll truth xs o && evalJAll truth ys o) := by
  induction xs with
  | nil => simp only [List.nil_append, evalJAll, Bool.true_and]
  | cons x r ih => simp only [List.cons_append, evalJAll, ih, Bool.and_assoc]

theorem evalJAny_append (truth : Obj → JVal → Bool) (xs ys : List JVal) (o : Obj) :
    evalJAny truth (xs ++ ys) o = (evalJAny truth xs o || evalJAny truth ys o) := by
  induction xs with
  | nil => simp only [List.nil_append, evalJAny, Bool.false_or]
  | cons x r ih => simp only [List.cons_append, evalJAny, ih, Bool.or_assoc]

/-! ### leaf clauses -/

theorem evalJ_plain (truth : Obj → JVal → Bool) (k : Str) (body : JObj) (rest : JObj) (o : Obj)
    (hk : plainKey k = true) :
    evalJ truth (.obj ((k, .obj body) :: rest)) o = truth o (.obj ((k, .obj body) :: rest)) := by
  simp only [plainKey, Bool.and_eq_true, bne_iff_ne, ne_eq] at hk
  simp only [evalJ, hk.1, hk.2, if_false]

theorem evalJ_item (c : EsCfg) (truth : Obj → JVal → Bool) (hc : cfgPlain c = true) (i : EItem)
    (hi : okItem i = true) (o : Obj) : evalJ truth (i.json c) o = truth o (i.json c) := by
  have hm := method_plain c i hc hi
  unfold EItem.json
  extract_lets field nameKv
  split
  · exact evalJ_plain truth _ _ _ o (by decide)
  · split <;> exact evalJ_plain truth _ _ _ o hm

/-! ### keys -/

theorem kPathQuery : ("path".toList = "query".toList) = False := eq_false (by decide)
theorem kMustNotMust : ("must_not".toList = "must".toList) = False := eq_false (by decide)
theorem kShouldMust : ("should".toList = "must".toList) = False := eq_false (by decide)
theorem kShouldMustNot : ("should".toList = "must_not".toList) = False := eq_false (by decide)
theorem bMustNotMust : ("must_not".toList == "must".toList) = false := by decide
theorem bShouldMust : ("should".toList == "must".toList) = false := by decide
theorem bMM : (EOpK.must == EOpK.must) = true := rfl
theorem bMN : (EOpK.must == EOpK.mustNot) = false := rfl
theorem bMS : (EOpK.must == EOpK.should) = false := rfl
theorem bNM : (EOpK.mustNot == EOpK.must) = false := rfl
theorem bNN : (EOpK.mustNot == EOpK.mustNot) = true := rfl
theorem bNS : (EOpK.mustNot == EOpK.should) = false := rfl
theorem bSM : (EOpK.should == EOpK.must) = false := rfl
theorem bSN : (EOpK.should == EOpK.mustNot) = false := rfl
theorem bSS : (EOpK.should == EOpK.should) = true := rfl

/-! ### the shape of the lists -/

theorem jsons_isEmpty (c : EsCfg) (es : List ETree) : (ETree.jsons c es).isEmpty = es.isEmpty := by
  cases es <;> simp only [ETree.jsons, List.isEmpty_nil, List.isEmpty_cons]

theorem isEmpty_append' {α} (xs ys : List α) : (xs ++ ys).isEmpty = (xs.isEmpty && ys.isEmpty) := by
  cases xs <;> simp only [List.nil_append, List.cons_append, List.isEmpty_nil, List.isEmpty_cons,
    Bool.true_and, Bool.false_and]

theorem boolPart_must_isEmpty (c : EsCfg) : ∀ (es : List ETree),
    (ETree.boolPart c .must es).isEmpty = !hasMust es
  | [] => rfl
  | .item i :: r => by
      simp only [ETree.boolPart, hasMust, bMS, Bool.false_eq_true, if_false, List.nil_append,
        boolPart_must_isEmpty c r]
  | .nested p i n :: r => by
      simp only [ETree.boolPart, hasMust, bMS, Bool.false_eq_true, if_false, List.nil_append,
        boolPart_must_isEmpty c r]
  | .op .must sub :: r => by
      simp only [ETree.boolPart, hasMust, bMM, if_true, isEmpty_append', jsons_isEmpty,
        boolPart_must_isEmpty c r, Bool.not_or, Bool.not_not]
  | .op .mustNot sub :: r => by
      simp only [ETree.boolPart, hasMust, bMN, Bool.false_eq_true, if_false, List.nil_append,
        boolPart_must_isEmpty c r]
  | .op .should sub :: r => by
      simp only [ETree.boolPart, hasMust, bMS, Bool.false_eq_true, if_false, List.nil_append,
        boolPart_must_isEmpty c r]
  | .op .boolOp sub :: r => by
      simp only [ETree.boolPart, hasMust, bMS, Bool.false_eq_true, if_false, List.nil_append,
        boolPart_must_isEmpty c r]

theorem boolPart_should_isEmpty (c : EsCfg) : ∀ (es : List ETree),
    (ETree.boolPart c .should es).isEmpty = !hasShould es
  | [] => rfl
  | .item i :: r => by
      simp only [ETree.boolPart, hasShould, bSS, if_true, List.cons_append, List.isEmpty_cons,
        Bool.not_true]
  | .nested p i n :: r => by
      simp only [ETree.boolPart, hasShould, bSS, if_true, List.cons_append, List.isEmpty_cons,
        Bool.not_true]
  | .op .must sub :: r => by
      simp only [ETree.boolPart, hasShould, bSM, Bool.false_eq_true, if_false, List.nil_append,
        boolPart_should_isEmpty c r]
  | .op .mustNot sub :: r => by
      simp only [ETree.boolPart, hasShould, bSN, Bool.false_eq_true, if_false, List.nil_append,
        boolPart_should_isEmpty c r]
  | .op .should sub :: r => by
      simp only [ETree.boolPart, hasShould, bSS, if_true, List.cons_append, List.isEmpty_cons,
        Bool.not_true]
  | .op .boolOp sub :: r => by
      simp only [ETree.boolPart, hasShould, bSS, if_true, List.cons_append, List.isEmpty_cons,
        Bool.not_true]

/-! ### `bool` bodies -/

theorem evalBoolBody_append (truth : Obj → JVal → Bool) (nm : Bool) (o : Obj) (a b : JObj) :
    evalBoolBody truth nm (a ++ b) o = (evalBoolBody truth nm a o && evalBoolBody truth nm b o) := by
  induction a with
  | nil => simp only [List.nil_append, evalBoolBody, Bool.true_and]
  | cons x r ih =>
    obtain ⟨k, v⟩ := x
    cases v <;> simp only [List.cons_append, evalBoolBody, ih, Bool.and_assoc]

theorem mustEmpty_body (must should mustNot : List JVal) :
    mustEmpty ((if must.isEmpty then [] else [("must".toList, JVal.arr must)]) ++
      (if should.isEmpty then [] else [("should".toList, JVal.arr should)]) ++
      (if mustNot.isEmpty then [] else [("must_not".toList, JVal.arr mustNot)])) = must.isEmpty := by
  cases must with
  | nil =>
    by_cases hs : should.isEmpty = true <;> by_cases hn : mustNot.isEmpty = true <;>
      simp only [hs, hn, List.isEmpty_nil, if_true, if_false, List.nil_append, List.append_nil,
        List.cons_append, mustEmpty, jget, List.find?_cons, List.find?_nil, bShouldMust, bMustNotMust,
        Option.map_none, Bool.false_eq_true]
  | cons x r =>
    simp only [List.isEmpty_cons, Bool.false_eq_true, if_false, List.cons_append, mustEmpty, jget,
      List.find?_cons, beq_self_eq_true, Option.map_some]

theorem evalBoolBody_must (truth : Obj → JVal → Bool) (nm : Bool) (o : Obj) (xs : List JVal) :
    evalBoolBody truth nm (if xs.isEmpty then [] else [("must".toList, JVal.arr xs)]) o =
      evalJAll truth xs o := by
  cases xs with
  | nil => simp only [List.isEmpty_nil, if_true, evalBoolBody, evalJAll]
  | cons x r =>
    simp only [List.isEmpty_cons, Bool.false_eq_true, if_false, evalBoolBody, if_true, Bool.and_true]

theorem evalBoolBody_mustNot (truth : Obj → JVal → Bool) (nm : Bool) (o : Obj) (xs : List JVal) :
    evalBoolBody truth nm (if xs.isEmpty then [] else [("must_not".toList, JVal.arr xs)]) o =
      !evalJAny truth xs o := by
  cases xs with
  | nil => simp only [List.isEmpty_nil, if_true, evalBoolBody, evalJAny, Bool.not_false]
  | cons x r =>
    simp only [List.isEmpty_cons, Bool.false_eq_true, if_false, evalBoolBody, kMustNotMust, if_true,
      Bool.and_true]

theorem evalBoolBody_should (truth : Obj → JVal → Bool) (nm : Bool) (o : Obj) (xs : List JVal) :
    evalBoolBody truth nm (if xs.isEmpty then [] else [("should".toList, JVal.arr xs)]) o =
      (!(nm && !xs.isEmpty) || evalJAny truth xs o) := by
  cases xs with
  | nil =>
    simp only [List.isEmpty_nil, if_true, evalBoolBody, evalJAny, Bool.not_true, Bool.and_false,
      Bool.not_false, Bool.true_or]
  | cons x r =>
    simp only [List.isEmpty_cons, Bool.false_eq_true, if_false, evalBoolBody, kShouldMust,
      kShouldMustNot, if_true, Bool.and_true]

theorem evalJ_bool (truth : Obj → JVal → Bool) (body : JObj) (o : Obj) :
    evalJ truth (.obj [("bool".toList, .obj body)]) o = evalBoolBody truth (mustEmpty body) body o := by
  simp only [evalJ, boolKey, if_true]

theorem kNestedBool' : ("nested".toList = boolKey) = False := eq_false (by decide)
theorem kNestedNested : ("nested".toList = nestedKey) = True := eq_self _

theorem evalJ_nested (truth : Obj → JVal → Bool) (p : Str) (q : JVal) (rest : JObj) (o : Obj) :
    evalJ truth (.obj [("nested".toList,
      .obj ([("path".toList, JVal.str p), ("query".toList, q)] ++ rest))]) o =
      atPath p o fun o' => evalJ truth q o' := by
  show evalJ truth (.obj [("nested".toList,
      .obj (("path".toList, JVal.str p) :: ("query".toList, q) :: rest))]) o = _
  simp only [evalJ, kNestedBool', kNestedNested, if_true, if_false, pathOf, jget, List.find?_cons,
    beq_self_eq_true, Option.map_some, evalNestedBody, kPathQuery]

theorem json_must (c : EsCfg) (items : List ETree) : ETree.json c (.op .must items) =
    .obj [("bool".toList, .obj [("must".toList, .arr (ETree.jsons c items))])] := by
  unfold ETree.json; rfl

theorem json_mustNot (c : EsCfg) (items : List ETree) : ETree.json c (.op .mustNot items) =
    .obj [("bool".toList, .obj [("must_not".toList, .arr (ETree.jsons c items))])] := by
  unfold ETree.json; rfl

theorem json_should (c : EsCfg) (items : List ETree) : ETree.json c (.op .should items) =
    .obj [("bool".toList, .obj [("should".toList, .arr (ETree.jsons c items))])] := by
  unfold ETree.json; rfl

/-! ### the theorem -/

mutual
/-- the meaning of the JSON of an E-tree is the meaning of the E-tree (atoms: the JSON of the
normalised leaf clauses) -/
theorem evalJ_json (c : EsCfg) (truth : Obj → JVal → Bool) (hc : cfgPlain c = true)
    (hI : Insens c truth) : ∀ (e : ETree) (o : Obj), allItems okItem e = true →
    evalJ truth (e.json c) o = evalE (fun o i => truth o (i.json c)) e o
  | .item i, o, h => by
      simp only [ETree.json, evalE]
      rw [evalJ_item c truth hc i h o]; exact hI o i
  | .nested p inner name, o, h => by
      simp only [allItems] at h
      have hj : ETree.json c (.nested p inner name) = .obj [("nested".toList,
          .obj ([("path".toList, JVal.str p), ("query".toList, inner.json c)] ++
            (match name with
             | some n => if n.isEmpty then [] else [("_name".toList, JVal.str n)]
             | none => [])))] := by
        cases name <;> rw [ETree.json]
      have ih : (fun o' => evalJ truth (inner.json c) o') =
          fun o' => evalE (fun o i => truth o (i.json c)) inner o' :=
        funext fun o' => evalJ_json c truth hc hI inner o' h
      rw [hj, evalJ_nested, ih]
      simp only [evalE]
  | .op .must items, o, h => by
      simp only [allItems] at h
      rw [json_must, evalJ_bool]
      simp only [evalBoolBody, if_true, Bool.and_true, evalE]
      exact evalJAll_jsons c truth hc hI items o h
  | .op .mustNot items, o, h => by
      simp only [allItems] at h
      rw [json_mustNot, evalJ_bool]
      simp only [evalBoolBody, kMustNotMust, if_true, if_false, Bool.and_true, evalE]
      rw [evalJAny_jsons c truth hc hI items o h]
  | .op .should items, o, h => by
      simp only [allItems] at h
      rw [json_should, evalJ_bool]
      simp only [mustEmpty, jget, List.find?_cons, List.find?_nil, bShouldMust, Option.map_none,
        evalBoolBody, kShouldMust, kShouldMustNot, if_true, if_false, Bool.and_true, evalE,
        Bool.true_and, Bool.not_not, jsons_isEmpty]
      rw [evalJAny_jsons c truth hc hI items o h]
  | .op .boolOp items, o, h => by
      simp only [allItems] at h
      rw [ETree.json, evalJ_bool, mustEmpty_body, evalBoolBody_append, evalBoolBody_append,
        evalBoolBody_must, evalBoolBody_should, evalBoolBody_mustNot,
        boolPart_must_eval c truth hc hI items o h, boolPart_should_eval c truth hc hI items o h,
        boolPart_mustNot_eval c truth hc hI items o h, boolPart_must_isEmpty,
        boolPart_should_isEmpty]
      simp only [evalE]
      generalize mustPart _ items o = a
      generalize mustNotPart _ items o = b
      generalize shouldPart _ items o = d
      generalize hasMust items = m
      generalize hasShould items = s
      cases a <;> cases b <;> cases d <;> cases m <;> cases s <;> rfl
theorem evalJAll_jsons (c : EsCfg) (truth : Obj → JVal → Bool) (hc : cfgPlain c = true)
    (hI : Insens c truth) : ∀ (es : List ETree) (o : Obj), allItemsL okItem es = true →
    evalJAll truth (ETree.jsons c es) o = evalAll (fun o i => truth o (i.json c)) es o
  | [], _, _ => rfl
  | x :: r, o, h => by
      simp only [allItemsL, Bool.and_eq_true] at h
      simp only [ETree.jsons, evalJAll, evalAll, evalJ_json c truth hc hI x o h.1,
        evalJAll_jsons c truth hc hI r o h.2]
theorem evalJAny_jsons (c : EsCfg) (truth : Obj → JVal → Bool) (hc : cfgPlain c = true)
    (hI : Insens c truth) : ∀ (es : List ETree) (o : Obj), allItemsL okItem es = true →
    evalJAny truth (ETree.jsons c es) o = evalAny (fun o i => truth o (i.json c)) es o
  | [], _, _ => rfl
  | x :: r, o, h => by
      simp only [allItemsL, Bool.and_eq_true] at h
      simp only [ETree.jsons, evalJAny, evalAny, evalJ_json c truth hc hI x o h.1,
        evalJAny_jsons c truth hc hI r o h.2]
theorem boolPart_must_eval (c : EsCfg) (truth : Obj → JVal → Bool) (hc : cfgPlain c = true)
    (hI : Insens c truth) : ∀ (es : List ETree) (o : Obj), allItemsL okItem es = true →
    evalJAll truth (ETree.boolPart c .must es) o = mustPart (fun o i => truth o (i.json c)) es o
  | [], _, _ => rfl
  | .item i :: r, o, h => by
      simp only [allItemsL, Bool.and_eq_true] at h
      simp only [ETree.boolPart, bMS, Bool.false_eq_true, if_false, List.nil_append, mustPart]
      exact boolPart_must_eval c truth hc hI r o h.2
  | .nested p i n :: r, o, h => by
      simp only [allItemsL, Bool.and_eq_true] at h
      simp only [ETree.boolPart, bMS, Bool.false_eq_true, if_false, List.nil_append, mustPart]
      exact boolPart_must_eval c truth hc hI r o h.2
  | .op .must sub :: r, o, h => by
      simp only [allItemsL, allItems, Bool.and_eq_true] at h
      simp only [ETree.boolPart, bMM, if_true, evalJAll_append, mustPart,
        evalJAll_jsons c truth hc hI sub o h.1, boolPart_must_eval c truth hc hI r o h.2]
  | .op .mustNot sub :: r, o, h => by
      simp only [allItemsL, Bool.and_eq_true] at h
      simp only [ETree.boolPart, bMN, Bool.false_eq_true, if_false, List.nil_append, mustPart]
      exact boolPart_must_eval c truth hc hI r o h.2
  | .op .should sub :: r, o, h => by
      simp only [allItemsL, Bool.and_eq_true] at h
      simp only [ETree.boolPart, bMS, Bool.false_eq_true, if_false, List.nil_append, mustPart]
      exact boolPart_must_eval c truth hc hI r o h.2
  | .op .boolOp sub :: r, o, h => by
      simp only [allItemsL, Bool.and_eq_true] at h
      simp only [ETree.boolPart, bMS, Bool.false_eq_true, if_false, List.nil_append, mustPart]
      exact boolPart_must_eval c truth hc hI r o h.2
theorem boolPart_mustNot_eval (c : EsCfg) (truth : Obj → JVal → Bool) (hc : cfgPlain c = true)
    (hI : Insens c truth) : ∀ (es : List ETree) (o : Obj), allItemsL okItem es = true →
    evalJAny truth (ETree.boolPart c .mustNot es) o =
      mustNotPart (fun o i => truth o (i.json c)) es o
  | [], _, _ => rfl
  | .item i :: r, o, h => by
      simp only [allItemsL, Bool.and_eq_true] at h
      simp only [ETree.boolPart, bNS, Bool.false_eq_true, if_false, List.nil_append, mustNotPart]
      exact boolPart_mustNot_eval c truth hc hI r o h.2
  | .nested p i n :: r, o, h => by
      simp only [allItemsL, Bool.and_eq_true] at h
      simp only [ETree.boolPart, bNS, Bool.false_eq_true, if_false, List.nil_append, mustNotPart]
      exact boolPart_mustNot_eval c truth hc hI r o h.2
  | .op .must sub :: r, o, h => by
      simp only [allItemsL, Bool.and_eq_true] at h
      simp only [ETree.boolPart, bNM, Bool.false_eq_true, if_false, List.nil_append, mustNotPart]
      exact boolPart_mustNot_eval c truth hc hI r o h.2
  | .op .mustNot sub :: r, o, h => by
      simp only [allItemsL, allItems, Bool.and_eq_true] at h
      simp only [ETree.boolPart, bNN, if_true, evalJAny_append, mustNotPart,
        evalJAny_jsons c truth hc hI sub o h.1, boolPart_mustNot_eval c truth hc hI r o h.2]
  | .op .should sub :: r, o, h => by
      simp only [allItemsL, Bool.and_eq_true] at h
      simp only [ETree.boolPart, bNS, Bool.false_eq_true, if_false, List.nil_append, mustNotPart]
      exact boolPart_mustNot_eval c truth hc hI r o h.2
  | .op .boolOp sub :: r, o, h => by
      simp only [allItemsL, Bool.and_eq_true] at h
      simp only [ETree.boolPart, bNS, Bool.false_eq_true, if_false, List.nil_append, mustNotPart]
      exact boolPart_mustNot_eval c truth hc hI r o h.2
theorem boolPart_should_eval (c : EsCfg) (truth : Obj → JVal → Bool) (hc : cfgPlain c = true)
    (hI : Insens c truth) : ∀ (es : List ETree) (o : Obj), allItemsL okItem es = true →
    evalJAny truth (ETree.boolPart c .should es) o =
      shouldPart (fun o i => truth o (i.json c)) es o
  | [], _, _ => rfl
  | .item i :: r, o, h => by
      simp only [allItemsL, Bool.and_eq_true] at h
      simp only [ETree.boolPart, bSS, if_true, List.cons_append, List.nil_append, evalJAny,
        shouldPart, evalJ_json c truth hc hI (.item i) o h.1,
        boolPart_should_eval c truth hc hI r o h.2]
  | .nested p i n :: r, o, h => by
      simp only [allItemsL, Bool.and_eq_true] at h
      simp only [ETree.boolPart, bSS, if_true, List.cons_append, List.nil_append, evalJAny,
        shouldPart, evalJ_json c truth hc hI (.nested p i n) o h.1,
        boolPart_should_eval c truth hc hI r o h.2]
  | .op .must sub :: r, o, h => by
      simp only [allItemsL, Bool.and_eq_true] at h
      simp only [ETree.boolPart, bSM, Bool.false_eq_true, if_false, List.nil_append, shouldPart]
      exact boolPart_should_eval c truth hc hI r o h.2
  | .op .mustNot sub :: r, o, h => by
      simp only [allItemsL, Bool.and_eq_true] at h
      simp only [ETree.boolPart, bSN, Bool.false_eq_true, if_false, List.nil_append, shouldPart]
      exact boolPart_should_eval c truth hc hI r o h.2
  | .op .should sub :: r, o, h => by
      simp only [allItemsL, Bool.and_eq_true] at h
      simp only [ETree.boolPart, bSS, if_true, List.cons_append, List.nil_append, evalJAny,
        shouldPart, evalJ_json c truth hc hI (.op .should sub) o h.1,
        boolPart_should_eval c truth hc hI r o h.2]
  | .op .boolOp sub :: r, o, h => by
      simp only [allItemsL, Bool.and_eq_true] at h
      simp only [ETree.boolPart, bSS, if_true, List.cons_append, List.nil_append, evalJAny,
        shouldPart, evalJ_json c truth hc hI (.op .boolOp sub) o h.1,
        boolPart_should_eval c truth hc hI r o h.2]
end


end Luqum.Lemmas.Es
