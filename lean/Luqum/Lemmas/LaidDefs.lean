/-
  Luqum.Lemmas.LaidDefs — property C02 (positions): the predicate `Laid s off t` ("the tree `t`,
  printed with head and tail, is laid out at offset `off`: every node's `pos` is where its body
  starts and its `size` is the length of its body"), the equivalent formulation `Pos` indexed by the
  start of the body (which is insensitive to changes of head and tail), and their basic lemmas.
-/
import Luqum.Lemmas.ActLossless

namespace Luqum

/-- the layout record says: the body starts at `p` and has the length of `body` -/
def LayAt (l : Lay) (p : Int) (body : Str) : Prop :=
  l.pos = some p ∧ l.size = some (body.length : Int)

/-- what an `orange` node prints before its operand -/
def orangePre (k : ORK) (inc : Bool) : Str := k.word ++ (if inc then ['='] else [])

/-! ### `Laid`: indexed by the offset at which the full text (head included) starts -/

mutual
/-- `Laid s off t`: if the text `t.full s` starts at offset `off` of some string, then `pos` and
`size` of `t` and of all its descendants designate their bodies in that string -/
def Laid (s : NumStyle) : Int → Tree → Prop
  | off, .term k v l => LayAt l (off + l.head.length) (Tree.body s (.term k v l))
  | off, .field n e l =>
      LayAt l (off + l.head.length) (Tree.body s (.field n e l)) ∧
      Laid s (off + l.head.length + n.length + 1) e
  | off, .group k e l =>
      LayAt l (off + l.head.length) (Tree.body s (.group k e l)) ∧
      Laid s (off + l.head.length + 1) e
  | off, .range a b il ih l =>
      LayAt l (off + l.head.length) (Tree.body s (.range a b il ih l)) ∧
      Laid s (off + l.head.length + 1) a ∧
      Laid s (off + l.head.length + 1 + (a.full s).length + 2) b
  | off, .approx k t n l =>
      LayAt l (off + l.head.length) (Tree.body s (.approx k t n l)) ∧
      Laid s (off + l.head.length) t
  | off, .boost e n l =>
      LayAt l (off + l.head.length) (Tree.body s (.boost e n l)) ∧
      Laid s (off + l.head.length) e
  | off, .op k xs l =>
      LayAt l (off + l.head.length) (Tree.body s (.op k xs l)) ∧
      LaidList s k.word.length (off + l.head.length) xs
  | off, .unary k a l =>
      LayAt l (off + l.head.length) (Tree.body s (.unary k a l)) ∧
      Laid s (off + l.head.length + k.word.length) a
  | off, .orange k a inc l =>
      LayAt l (off + l.head.length) (Tree.body s (.orange k a inc l)) ∧
      Laid s (off + l.head.length + (orangePre k inc).length) a
  | _, .none _ => False
/-- the operands of an operation, separated by `sep` characters (the operator word) -/
def LaidList (s : NumStyle) (sep : Nat) : Int → List Tree → Prop
  | _, [] => True
  | off, x :: r => Laid s off x ∧ LaidList s sep (off + (x.full s).length + sep) r
end

/-! ### `Pos`: indexed by the start of the body -/

mutual
def Pos (s : NumStyle) : Tree → Int → Prop
  | .term k v l, p => LayAt l p (Tree.body s (.term k v l))
  | .field n e l, p =>
      LayAt l p (Tree.body s (.field n e l)) ∧ Pos s e (p + n.length + 1 + e.head.length)
  | .group k e l, p =>
      LayAt l p (Tree.body s (.group k e l)) ∧ Pos s e (p + 1 + e.head.length)
  | .range a b il ih l, p =>
      LayAt l p (Tree.body s (.range a b il ih l)) ∧ Pos s a (p + 1 + a.head.length) ∧
      Pos s b (p + 1 + (a.full s).length + 2 + b.head.length)
  | .approx k t n l, p =>
      LayAt l p (Tree.body s (.approx k t n l)) ∧ Pos s t (p + t.head.length)
  | .boost e n l, p =>
      LayAt l p (Tree.body s (.boost e n l)) ∧ Pos s e (p + e.head.length)
  | .op k xs l, p =>
      LayAt l p (Tree.body s (.op k xs l)) ∧ PosList s k.word.length xs p
  | .unary k a l, p =>
      LayAt l p (Tree.body s (.unary k a l)) ∧ Pos s a (p + k.word.length + a.head.length)
  | .orange k a inc l, p =>
      LayAt l p (Tree.body s (.orange k a inc l)) ∧
      Pos s a (p + (orangePre k inc).length + a.head.length)
  | .none _, _ => False
def PosList (s : NumStyle) (sep : Nat) : List Tree → Int → Prop
  | [], _ => True
  | x :: r, p => Pos s x (p + x.head.length) ∧ PosList s sep r (p + (x.full s).length + sep)
end

mutual
theorem laid_iff_pos (s : NumStyle) : ∀ (t : Tree) (off : Int),
    Laid s off t ↔ Pos s t (off + t.head.length)
  | .term k v l, off => by simp [Laid, Pos, Tree.head, Tree.lay]
  | .field n e l, off => by
      simp only [Laid, Pos, Tree.head, Tree.lay, laid_iff_pos s e]
  | .group k e l, off => by
      simp only [Laid, Pos, Tree.head, Tree.lay, laid_iff_pos s e]
  | .range a b il ih l, off => by
      simp only [Laid, Pos, Tree.head, Tree.lay, laid_iff_pos s a, laid_iff_pos s b]
  | .approx k t n l, off => by
      simp only [Laid, Pos, Tree.head, Tree.lay, laid_iff_pos s t]
  | .boost e n l, off => by
      simp only [Laid, Pos, Tree.head, Tree.lay, laid_iff_pos s e]
  | .op k xs l, off => by
      simp only [Laid, Pos, Tree.head, Tree.lay, laidList_iff_posList s _ xs]
  | .unary k a l, off => by
      simp only [Laid, Pos, Tree.head, Tree.lay, laid_iff_pos s a]
  | .orange k a inc l, off => by
      simp only [Laid, Pos, Tree.head, Tree.lay, laid_iff_pos s a]
  | .none _, off => by simp [Laid, Pos]
theorem laidList_iff_posList (s : NumStyle) (sep : Nat) : ∀ (xs : List Tree) (off : Int),
    LaidList s sep off xs ↔ PosList s sep xs off
  | [], off => by simp [LaidList, PosList]
  | x :: r, off => by
      simp only [LaidList, PosList, laid_iff_pos s x, laidList_iff_posList s sep r]
end

/-! ### basic facts about `Pos` -/

theorem Pos.not_none {s : NumStyle} {t : Tree} {p : Int} (h : Pos s t p) : t.isNone = false := by
  cases t <;> simp [Pos, Tree.isNone] at h ⊢

theorem Pos.layAt {s : NumStyle} {t : Tree} {p : Int} (h : Pos s t p) :
    LayAt t.lay p (t.body s) := by
  cases t <;> simp only [Pos] at h <;> first | exact h.1 | exact h | exact h.elim

theorem Pos.pos_eq {s : NumStyle} {t : Tree} {p : Int} (h : Pos s t p) : t.lay.pos = some p :=
  h.layAt.1

theorem Pos.size_eq {s : NumStyle} {t : Tree} {p : Int} (h : Pos s t p) :
    t.lay.size = some ((t.body s).length : Int) := h.layAt.2

/-- the full text of a laid-out tree is head, body, tail -/
theorem Pos.full_len {s : NumStyle} {t : Tree} {p : Int} (h : Pos s t p) :
    (t.full s).length = t.head.length + (t.body s).length + t.tail.length := by
  rw [Tree.full_eq s t h.not_none]; simp only [List.length_append]

@[simp] theorem pos_setHead (s : NumStyle) (t : Tree) (h : Str) (p : Int) :
    Pos s (t.setHead h) p ↔ Pos s t p := by
  cases t <;> simp [Tree.setHead, Tree.setLay, Tree.lay, Pos, LayAt, Tree.body]

@[simp] theorem pos_setTail (s : NumStyle) (t : Tree) (x : Str) (p : Int) :
    Pos s (t.setTail x) p ↔ Pos s t p := by
  cases t <;> simp [Tree.setTail, Tree.setLay, Tree.lay, Pos, LayAt, Tree.body]

@[simp] theorem pos_toFieldGroup (s : NumStyle) (e : Tree) (p : Int) :
    Pos s (toFieldGroup e) p ↔ Pos s e p := by
  unfold toFieldGroup
  split
  · simp [Pos, LayAt, Tree.body]
  · rfl

/-! ### lists of operands -/

/-- total length of the operands, each followed by a separator -/
def spanLen (s : NumStyle) (sep : Nat) : List Tree → Nat
  | [] => 0
  | x :: r => (x.full s).length + sep + spanLen s sep r

theorem posList_append (s : NumStyle) (sep : Nat) : ∀ (xs ys : List Tree) (p : Int),
    PosList s sep (xs ++ ys) p ↔ PosList s sep xs p ∧ PosList s sep ys (p + spanLen s sep xs)
  | [], ys, p => by simp [PosList, spanLen]
  | x :: r, ys, p => by
      simp only [List.cons_append, PosList, spanLen, posList_append s sep r ys, and_assoc]
      have : p + ((x.full s).length : Int) + (sep : Int) + (spanLen s sep r : Int)
          = p + (((x.full s).length + sep + spanLen s sep r : Nat) : Int) := by omega
      rw [this]

/-- a non-empty operand list, joined by the operator word: the text is one separator shorter than
the span -/
theorem spanLen_joinWith (s : NumStyle) (w : Str) : ∀ (xs : List Tree), xs ≠ [] →
    spanLen s w.length xs = (joinWith w (Tree.fulls s xs)).length + w.length
  | [], h => absurd rfl h
  | [x], _ => by simp [spanLen, Tree.fulls, joinWith]
  | x :: y :: r, _ => by
      have ih := spanLen_joinWith s w (y :: r) (by simp)
      simp only [spanLen, Tree.fulls, joinWith, List.length_append] at ih ⊢
      omega

end Luqum
