/-
  Luqum.Lemmas.TransAht — a tree related to another one by `layRel` (same tree, some empty heads and
  tails turned into one blank: what `auto_head_tail` does) satisfies every hypothesis of the
  print-and-reparse theorem that the other one satisfies.
-/
import Luqum.Lemmas.TransChain
import Luqum.Lemmas.Aht

namespace Luqum
open Luqum.Lemmas.Aht
open Luqum.Compl (wordTerm boundText)

/-! ### the root -/

theorem layRel_shape {t' t : Tree} (h : layRel t' t) :
    isOp' t' = isOp' t ∧ isUnary t' = isUnary t ∧ isField t' = isField t ∧ isWord t' = isWord t ∧
      isPhrase t' = isPhrase t ∧ isWP t' = isWP t ∧ (∀ k, isOpK k t' = isOpK k t) ∧
      wordTerm t' = wordTerm t := by
  cases t' <;> cases t <;> simp only [layRel] at h
  case term.term k' v' l' k v l =>
    obtain ⟨rfl, rfl, _⟩ := h
    cases k' <;> exact ⟨rfl, rfl, rfl, rfl, rfl, rfl, fun _ => rfl, rfl⟩
  case op.op =>
    obtain ⟨rfl, _⟩ := h
    simp [isOp', isUnary, isField, isWord, isPhrase, isWP, isOpK, wordTerm]
  all_goals simp [isOp', isUnary, isField, isWord, isPhrase, isWP, isOpK, wordTerm]

theorem layRel_isBound {t' t : Tree} (h : layRel t' t) :
    isBound t' = isBound t ∧ boundText t' = boundText t := by
  cases t' <;> cases t <;> simp only [layRel] at h
  case term.term k' v' l' k v l => obtain ⟨rfl, rfl, _⟩ := h; cases k' <;> exact ⟨rfl, rfl⟩
  case unary.unary k' e' _ k e _ =>
    obtain ⟨rfl, he, _⟩ := h
    have := layRel_shape he
    cases k'
    · simp [isBound, boundText, wordTerm]
    · simp [isBound, boundText, wordTerm]
    · simp only [isBound, boundText]; exact ⟨this.2.2.2.2.2.1, this.2.2.2.2.2.2.2⟩
  all_goals simp [isBound, boundText, wordTerm]

theorem layRel_operandOK {t' t : Tree} (h : layRel t' t) (k : OpK) : operandOK k t' = operandOK k t := by
  have := layRel_shape h
  cases k <;> simp [operandOK, this.1, this.2.2.2.2.2.2.1]

/-! ### canonical form, words, numerals, token texts -/

mutual
theorem layRel_canon : ∀ (t' t : Tree) (uf : Bool), layRel t' t → CanonAt uf t' = CanonAt uf t
  | .term .., t, uf, h => by cases t <;> simp_all [layRel, CanonAt]
  | .none .., t, uf, h => by cases t <;> simp_all [layRel, CanonAt]
  | .field _ e' _, t, uf, h => by
    cases t <;> simp [layRel] at h
    simp [CanonAt, layRel_canon e' _ true h.2.1, (layRel_shape h.2.1).1]
  | .group _ e' _, t, uf, h => by
    cases t <;> simp [layRel] at h
    simp [CanonAt, h.1, layRel_canon e' _ false h.2.1]
  | .approx k' e' _ _, t, uf, h => by
    cases t <;> simp [layRel] at h
    obtain ⟨rfl, _, he, _⟩ := h
    have := layRel_shape he
    cases k' <;> simp [CanonAt, this.2.2.2.1, this.2.2.2.2.1]
  | .boost e' _ _, t, uf, h => by
    cases t <;> simp [layRel] at h
    have := layRel_shape h.2.1
    simp [CanonAt, layRel_canon e' _ false h.2.1, this.1, this.2.1, this.2.2.1]
  | .unary _ e' _, t, uf, h => by
    cases t <;> simp [layRel] at h
    simp [CanonAt, layRel_canon e' _ false h.2.1, (layRel_shape h.2.1).1]
  | .orange _ e' _ _, t, uf, h => by
    cases t <;> simp [layRel] at h
    simp [CanonAt, (layRel_shape h.2.2.1).2.2.2.2.2.1]
  | .range a' b' _ _ _, t, uf, h => by
    cases t <;> simp [layRel] at h
    simp [CanonAt, (layRel_isBound h.2.2.1).1, (layRel_isBound h.2.2.2.1).1]
  | .op k' xs' l', t, uf, h => by
    cases t with
    | op k xs l =>
      simp only [layRel] at h
      obtain ⟨rfl, hx, _⟩ := h
      obtain ⟨h1, h2, h3⟩ := layRels_canon xs' xs k' hx
      simp [CanonAt, h1, h2, h3]
    | _ => simp [layRel] at h
theorem layRels_canon : ∀ (xs' xs : List Tree) (k : OpK), layRels xs' xs →
    CanonsAt xs' = CanonsAt xs ∧ xs'.all (operandOK k) = xs.all (operandOK k) ∧ xs'.length = xs.length
  | [], xs, k, h => by cases xs <;> simp_all [layRels]
  | x' :: r', xs, k, h => by
    cases xs <;> simp [layRels] at h
    obtain ⟨h1, h2, h3⟩ := layRels_canon r' _ k h.2
    simp [CanonsAt, layRel_canon x' _ false h.1, layRel_operandOK h.1 k, h1, h2, h3]
end

mutual
theorem layRel_wordsOK : ∀ (t' t : Tree), layRel t' t → WordsOK t' = WordsOK t
  | .term k' .., t, h => by cases t <;> simp [layRel] at h; obtain ⟨rfl, rfl, _⟩ := h; cases k' <;> rfl
  | .none .., t, h => by cases t <;> simp_all [layRel, WordsOK]
  | .field _ e' _, t, h => by
    cases t <;> simp [layRel] at h
    simp [WordsOK, h.1, layRel_wordsOK e' _ h.2.1]
  | .group _ e' _, t, h => by
    cases t <;> simp [layRel] at h
    simp [WordsOK, layRel_wordsOK e' _ h.2.1]
  | .approx k' e' _ _, t, h => by
    cases t <;> simp [layRel] at h
    obtain ⟨rfl, _, he, _⟩ := h
    cases k' <;> simp [WordsOK, (layRel_shape he).2.2.2.2.2.2.2]
  | .boost e' _ _, t, h => by
    cases t <;> simp [layRel] at h
    simp [WordsOK, layRel_wordsOK e' _ h.2.1]
  | .unary _ e' _, t, h => by
    cases t <;> simp [layRel] at h
    simp [WordsOK, layRel_wordsOK e' _ h.2.1]
  | .orange _ e' _ _, t, h => by
    cases t <;> simp [layRel] at h
    simp [WordsOK, (layRel_shape h.2.2.1).2.2.2.2.2.2.2]
  | .range a' b' _ _ _, t, h => by
    cases t <;> simp [layRel] at h
    simp [WordsOK, (layRel_isBound h.2.2.1).2, (layRel_isBound h.2.2.2.1).2]
  | .op _ xs' _, t, h => by
    cases t <;> simp [layRel] at h
    simp [WordsOK, layRels_wordsOK xs' _ h.2.1]
theorem layRels_wordsOK : ∀ (xs' xs : List Tree), layRels xs' xs → WordssOK xs' = WordssOK xs
  | [], xs, h => by cases xs <;> simp_all [layRels]
  | x' :: r', xs, h => by
    cases xs <;> simp [layRels] at h
    simp [WordssOK, layRel_wordsOK x' _ h.1, layRels_wordsOK r' _ h.2]
end

mutual
theorem layRel_numsOK : ∀ (t' t : Tree), layRel t' t → numsOK t' = numsOK t
  | .term .., t, h => by cases t <;> simp_all [layRel, numsOK]
  | .none .., t, h => by cases t <;> simp_all [layRel, numsOK]
  | .field _ e' _, t, h => by
    cases t <;> simp [layRel] at h
    simp [numsOK, layRel_numsOK e' _ h.2.1]
  | .group _ e' _, t, h => by
    cases t <;> simp [layRel] at h
    simp [numsOK, layRel_numsOK e' _ h.2.1]
  | .approx k' e' _ _, t, h => by
    cases t <;> simp [layRel] at h
    obtain ⟨rfl, rfl, he, _⟩ := h
    cases k' <;> simp [numsOK, layRel_numsOK e' _ he]
  | .boost e' _ _, t, h => by
    cases t <;> simp [layRel] at h
    simp [numsOK, h.1, layRel_numsOK e' _ h.2.1]
  | .unary _ e' _, t, h => by
    cases t <;> simp [layRel] at h
    simp [numsOK, layRel_numsOK e' _ h.2.1]
  | .orange _ e' _ _, t, h => by
    cases t <;> simp [layRel] at h
    simp [numsOK, layRel_numsOK e' _ h.2.2.1]
  | .range a' b' _ _ _, t, h => by
    cases t <;> simp [layRel] at h
    simp [numsOK, layRel_numsOK a' _ h.2.2.1, layRel_numsOK b' _ h.2.2.2.1]
  | .op _ xs' _, t, h => by
    cases t <;> simp [layRel] at h
    simp [numsOK, layRels_numsOK xs' _ h.2.1]
theorem layRels_numsOK : ∀ (xs' xs : List Tree), layRels xs' xs → numssOK xs' = numssOK xs
  | [], xs, h => by cases xs <;> simp_all [layRels]
  | x' :: r', xs, h => by
    cases xs <;> simp [layRels] at h
    simp [numssOK, layRel_numsOK x' _ h.1, layRels_numsOK r' _ h.2]
end

mutual
theorem layRel_validTexts : ∀ (t' t : Tree), layRel t' t → validTexts t' = validTexts t
  | .term k' .., t, h => by cases t <;> simp [layRel] at h; obtain ⟨rfl, rfl, _⟩ := h; cases k' <;> rfl
  | .none .., t, h => by cases t <;> simp_all [layRel, validTexts]
  | .field _ e' _, t, h => by
    cases t <;> simp [layRel] at h
    simp [validTexts, h.1, layRel_validTexts e' _ h.2.1]
  | .group _ e' _, t, h => by
    cases t <;> simp [layRel] at h
    simp [validTexts, layRel_validTexts e' _ h.2.1]
  | .approx _ e' _ _, t, h => by
    cases t <;> simp [layRel] at h
    simp [validTexts, layRel_validTexts e' _ h.2.2.1]
  | .boost e' _ _, t, h => by
    cases t <;> simp [layRel] at h
    simp [validTexts, layRel_validTexts e' _ h.2.1]
  | .unary _ e' _, t, h => by
    cases t <;> simp [layRel] at h
    simp [validTexts, layRel_validTexts e' _ h.2.1]
  | .orange _ e' _ _, t, h => by
    cases t <;> simp [layRel] at h
    simp [validTexts, layRel_validTexts e' _ h.2.2.1]
  | .range a' b' _ _ _, t, h => by
    cases t <;> simp [layRel] at h
    simp [validTexts, layRel_validTexts a' _ h.2.2.1, layRel_validTexts b' _ h.2.2.2.1]
  | .op _ xs' _, t, h => by
    cases t <;> simp [layRel] at h
    simp [validTexts, layRels_validTexts xs' _ h.2.1]
theorem layRels_validTexts : ∀ (xs' xs : List Tree), layRels xs' xs → validTextss xs' = validTextss xs
  | [], xs, h => by cases xs <;> simp_all [layRels]
  | x' :: r', xs, h => by
    cases xs <;> simp [layRels] at h
    simp [validTextss, layRel_validTexts x' _ h.1, layRels_validTexts r' _ h.2]
end

/-! ### blank layout -/

theorem strOk_blank {a b : Str} (h : StrOk a b) (hb : isBlank b = true) : isBlank a = true := by
  rcases h with rfl | ⟨_, rfl⟩
  · exact hb
  · decide +kernel

theorem strOk_grow {a b : Str} (h : StrOk a b) : Grow a b := by
  rcases h with rfl | ⟨_, rfl⟩
  · exact Or.inl rfl
  · exact Or.inr ⟨by decide +kernel, by simp⟩

mutual
theorem layRel_blank : ∀ (t' t : Tree), layRel t' t → t.blankLayout = true → t'.blankLayout = true
  | .term .., t, h, hb => by
    cases t <;> simp [layRel] at h
    simp only [Tree.blankLayout, Bool.and_eq_true] at hb ⊢
    exact ⟨strOk_blank h.2.2.head hb.1, strOk_blank h.2.2.tail hb.2⟩
  | .none .., t, h, hb => rfl
  | .field _ e' _, t, h, hb => by
    cases t <;> simp [layRel] at h
    simp only [Tree.blankLayout, Bool.and_eq_true] at hb ⊢
    exact ⟨⟨strOk_blank h.2.2.head hb.1.1, strOk_blank h.2.2.tail hb.1.2⟩, layRel_blank e' _ h.2.1 hb.2⟩
  | .group _ e' _, t, h, hb => by
    cases t <;> simp [layRel] at h
    simp only [Tree.blankLayout, Bool.and_eq_true] at hb ⊢
    exact ⟨⟨strOk_blank h.2.2.head hb.1.1, strOk_blank h.2.2.tail hb.1.2⟩, layRel_blank e' _ h.2.1 hb.2⟩
  | .approx _ e' _ _, t, h, hb => by
    cases t <;> simp [layRel] at h
    simp only [Tree.blankLayout, Bool.and_eq_true] at hb ⊢
    exact ⟨⟨strOk_blank h.2.2.2.head hb.1.1, strOk_blank h.2.2.2.tail hb.1.2⟩,
      layRel_blank e' _ h.2.2.1 hb.2⟩
  | .boost e' _ _, t, h, hb => by
    cases t <;> simp [layRel] at h
    simp only [Tree.blankLayout, Bool.and_eq_true] at hb ⊢
    exact ⟨⟨strOk_blank h.2.2.head hb.1.1, strOk_blank h.2.2.tail hb.1.2⟩, layRel_blank e' _ h.2.1 hb.2⟩
  | .unary _ e' _, t, h, hb => by
    cases t <;> simp [layRel] at h
    simp only [Tree.blankLayout, Bool.and_eq_true] at hb ⊢
    exact ⟨⟨strOk_blank h.2.2.head hb.1.1, strOk_blank h.2.2.tail hb.1.2⟩, layRel_blank e' _ h.2.1 hb.2⟩
  | .orange _ e' _ _, t, h, hb => by
    cases t <;> simp [layRel] at h
    simp only [Tree.blankLayout, Bool.and_eq_true] at hb ⊢
    exact ⟨⟨strOk_blank h.2.2.2.head hb.1.1, strOk_blank h.2.2.2.tail hb.1.2⟩,
      layRel_blank e' _ h.2.2.1 hb.2⟩
  | .range a' b' _ _ _, t, h, hb => by
    cases t <;> simp [layRel] at h
    simp only [Tree.blankLayout, Bool.and_eq_true] at hb ⊢
    exact ⟨⟨⟨strOk_blank h.2.2.2.2.head hb.1.1.1, strOk_blank h.2.2.2.2.tail hb.1.1.2⟩,
      layRel_blank a' _ h.2.2.1 hb.1.2⟩, layRel_blank b' _ h.2.2.2.1 hb.2⟩
  | .op _ xs' _, t, h, hb => by
    cases t <;> simp [layRel] at h
    simp only [Tree.blankLayout, Bool.and_eq_true] at hb ⊢
    exact ⟨⟨strOk_blank h.2.2.head hb.1.1, strOk_blank h.2.2.tail hb.1.2⟩, layRels_blank xs' _ h.2.1 hb.2⟩
theorem layRels_blank : ∀ (xs' xs : List Tree), layRels xs' xs → Tree.blankLayouts xs = true →
    Tree.blankLayouts xs' = true
  | [], xs, h, hb => rfl
  | x' :: r', xs, h, hb => by
    cases xs <;> simp [layRels] at h
    simp only [Tree.blankLayouts, Bool.and_eq_true] at hb ⊢
    exact ⟨layRel_blank x' _ h.1 hb.1, layRels_blank r' _ h.2 hb.2⟩
end

/-! ### the default transformer -/

mutual
/-- the copy made by the default `TreeTransformer` is related to the tree: only the names are dropped -/
theorem layRel_copy : ∀ t : Tree, layRel t.copy t
  | .term .. => ⟨rfl, rfl, LayOk.noName _⟩
  | .none _ => LayOk.noName _
  | .field _ e _ => ⟨rfl, layRel_copy e, LayOk.noName _⟩
  | .group _ e _ => ⟨rfl, layRel_copy e, LayOk.noName _⟩
  | .approx _ e _ _ => ⟨rfl, rfl, layRel_copy e, LayOk.noName _⟩
  | .boost e _ _ => ⟨rfl, layRel_copy e, LayOk.noName _⟩
  | .unary _ e _ => ⟨rfl, layRel_copy e, LayOk.noName _⟩
  | .orange _ e _ _ => ⟨rfl, rfl, layRel_copy e, LayOk.noName _⟩
  | .range a b _ _ _ => ⟨rfl, rfl, layRel_copy a, layRel_copy b, LayOk.noName _⟩
  | .op _ xs _ => ⟨rfl, layRels_copies xs, LayOk.noName _⟩
theorem layRels_copies : ∀ xs : List Tree, layRels (Tree.copies xs) xs
  | [] => trivial
  | x :: r => ⟨layRel_copy x, layRels_copies r⟩
end

/-! ### following texts and the chain condition -/

mutual
/-- what a related tree prints, followed by a better follower, is a better follower -/
theorem layRel_rel (s : NumStyle) : ∀ (t' t : Tree) (R' R : Str), layRel t' t → Rel R' R →
    Rel (t'.full s ++ R') (t.full s ++ R)
  | .term .., t, R', R, h, hR => by
    cases t <;> simp [layRel] at h
    obtain ⟨_, rfl, o⟩ := h
    simp only [Tree.full, List.append_assoc]
    exact rel_grow (strOk_grow o.head) ((rel_grow (strOk_grow o.tail) hR).pre _)
  | .none .., t, R', R, h, hR => by
    cases t <;> simp [layRel] at h
    simpa [Tree.full] using hR
  | .field _ e' _, t, R', R, h, hR => by
    cases t <;> simp [layRel] at h
    obtain ⟨rfl, he, o⟩ := h
    simp only [Tree.full, List.append_assoc, List.cons_append, List.nil_append]
    exact rel_grow (strOk_grow o.head)
      (((layRel_rel s e' _ _ _ he (rel_grow (strOk_grow o.tail) hR)).cons ':').pre _)
  | .group _ e' _, t, R', R, h, hR => by
    cases t <;> simp [layRel] at h
    obtain ⟨rfl, he, o⟩ := h
    simp only [Tree.full, List.append_assoc, List.cons_append, List.nil_append]
    exact rel_grow (strOk_grow o.head)
      ((layRel_rel s e' _ _ _ he ((rel_grow (strOk_grow o.tail) hR).cons ')')).cons '(')
  | .approx _ e' _ _, t, R', R, h, hR => by
    cases t <;> simp [layRel] at h
    obtain ⟨rfl, rfl, he, o⟩ := h
    simp only [Tree.full, List.append_assoc, List.cons_append, List.nil_append]
    exact rel_grow (strOk_grow o.head)
      (layRel_rel s e' _ _ _ he (((rel_grow (strOk_grow o.tail) hR).pre _).cons '~'))
  | .boost e' _ _, t, R', R, h, hR => by
    cases t <;> simp [layRel] at h
    obtain ⟨rfl, he, o⟩ := h
    simp only [Tree.full, List.append_assoc, List.cons_append, List.nil_append]
    exact rel_grow (strOk_grow o.head)
      (layRel_rel s e' _ _ _ he (((rel_grow (strOk_grow o.tail) hR).pre _).cons '^'))
  | .unary _ e' _, t, R', R, h, hR => by
    cases t <;> simp [layRel] at h
    obtain ⟨rfl, he, o⟩ := h
    simp only [Tree.full, List.append_assoc]
    exact rel_grow (strOk_grow o.head)
      ((layRel_rel s e' _ _ _ he (rel_grow (strOk_grow o.tail) hR)).pre _)
  | .orange _ e' _ _, t, R', R, h, hR => by
    cases t <;> simp [layRel] at h
    obtain ⟨rfl, rfl, he, o⟩ := h
    simp only [Tree.full, List.append_assoc]
    exact rel_grow (strOk_grow o.head)
      (((layRel_rel s e' _ _ _ he (rel_grow (strOk_grow o.tail) hR)).pre _).pre _)
  | .range a' b' _ _ _, t, R', R, h, hR => by
    cases t <;> simp [layRel] at h
    obtain ⟨rfl, rfl, ha, hb, o⟩ := h
    simp only [Tree.full, List.append_assoc, List.cons_append, List.nil_append]
    exact rel_grow (strOk_grow o.head)
      ((layRel_rel s a' _ _ _ ha
        ((layRel_rel s b' _ _ _ hb ((rel_grow (strOk_grow o.tail) hR).cons _)).pre _)).cons _)
  | .op k' xs' l', t, R', R, h, hR => by
    cases t with
    | op k xs l =>
      simp only [layRel] at h
      obtain ⟨rfl, hx, o⟩ := h
      simp only [Tree.full, List.append_assoc]
      refine rel_grow (strOk_grow o.head) ?_
      have hT := rel_grow (strOk_grow o.tail) hR
      match xs', xs, hx with
      | [], [], _ => simpa [Tree.fulls, joinWith] using hT
      | x' :: r', x :: r, hx =>
        simp only [layRels] at hx
        simp only [Tree.fulls, joinWith_cons, List.append_assoc]
        exact layRel_rel s x' x _ _ hx.1 (layRels_rel s k' r' r _ _ hx.2 hT)
    | _ => simp [layRel] at h
theorem layRels_rel (s : NumStyle) (k : OpK) : ∀ (xs' xs : List Tree) (R' R : Str), layRels xs' xs →
    Rel R' R → Rel (restStr s k xs' R') (restStr s k xs R)
  | [], xs, R', R, h, hR => by cases xs <;> simp [layRels] at h; exact hR
  | x' :: r', xs, R', R, h, hR => by
    cases xs with
    | nil => simp [layRels] at h
    | cons x r =>
      simp only [layRels] at h
      rw [restStr_cons, restStr_cons]
      exact (layRel_rel s x' x _ _ h.1 (layRels_rel s k r' r _ _ h.2 hR)).pre _
end

mutual
/-- **the chain condition passes to a related tree followed by a better follower** -/
theorem layRel_chain (s : NumStyle) : ∀ (t' t : Tree) (R' R : Str), layRel t' t → Rel R' R →
    t.chainAt s R = true → t'.chainAt s R' = true
  | .term k' .., t, R', R, h, hR, hc => by
    cases t <;> simp [layRel] at h
    obtain ⟨rfl, rfl, o⟩ := h
    cases k'
    · exact (rel_grow (strOk_grow o.tail) hR).apply hc
    · rfl
    · rfl
  | .none .., t, R', R, h, hR, hc => rfl
  | .field _ e' _, t, R', R, h, hR, hc => by
    cases t <;> simp [layRel] at h
    obtain ⟨rfl, he, o⟩ := h
    simp only [Tree.chainAt, Bool.and_eq_true] at hc ⊢
    have hT := rel_grow (strOk_grow o.tail) hR
    exact ⟨((layRel_rel s e' _ _ _ he hT).cons ':').apply hc.1, layRel_chain s e' _ _ _ he hT hc.2⟩
  | .group _ e' _, t, R', R, h, hR, hc => by
    cases t <;> simp [layRel] at h
    obtain ⟨rfl, he, o⟩ := h
    simp only [Tree.chainAt] at hc ⊢
    exact layRel_chain s e' _ _ _ he ((rel_grow (strOk_grow o.tail) hR).cons ')') hc
  | .approx _ e' _ _, t, R', R, h, hR, hc => by
    cases t <;> simp [layRel] at h
    obtain ⟨rfl, rfl, he, o⟩ := h
    simp only [Tree.chainAt, Bool.and_eq_true] at hc ⊢
    have hT := rel_grow (strOk_grow o.tail) hR
    exact ⟨layRel_chain s e' _ _ _ he ((hT.pre _).cons '~') hc.1, hT.apply hc.2⟩
  | .boost e' _ _, t, R', R, h, hR, hc => by
    cases t <;> simp [layRel] at h
    obtain ⟨rfl, he, o⟩ := h
    simp only [Tree.chainAt, Bool.and_eq_true] at hc ⊢
    have hT := rel_grow (strOk_grow o.tail) hR
    exact ⟨layRel_chain s e' _ _ _ he ((hT.pre _).cons '^') hc.1, hT.apply hc.2⟩
  | .unary _ e' _, t, R', R, h, hR, hc => by
    cases t <;> simp [layRel] at h
    obtain ⟨rfl, he, o⟩ := h
    simp only [Tree.chainAt, Bool.and_eq_true] at hc ⊢
    have hT := rel_grow (strOk_grow o.tail) hR
    exact ⟨(layRel_rel s e' _ _ _ he hT).apply hc.1, layRel_chain s e' _ _ _ he hT hc.2⟩
  | .orange _ e' _ _, t, R', R, h, hR, hc => by
    cases t <;> simp [layRel] at h
    obtain ⟨rfl, rfl, he, o⟩ := h
    simp only [Tree.chainAt, Bool.and_eq_true] at hc ⊢
    have hT := rel_grow (strOk_grow o.tail) hR
    exact ⟨(layRel_rel s e' _ _ _ he hT).apply hc.1, layRel_chain s e' _ _ _ he hT hc.2⟩
  | .range a' b' il' ih' _, t, R', R, h, hR, hc => by
    cases t <;> simp [layRel] at h
    obtain ⟨rfl, rfl, ha, hb, o⟩ := h
    simp only [Tree.chainAt, Bool.and_eq_true] at hc ⊢
    have hT := (rel_grow (strOk_grow o.tail) hR).cons (clCh ih')
    have hB := layRel_rel s b' _ _ _ hb hT
    exact ⟨⟨layRel_chain s a' _ _ _ ha (hB.pre _) hc.1.1, hB.apply hc.1.2⟩,
      layRel_chain s b' _ _ _ hb hT hc.2⟩
  | .op k' xs' l', t, R', R, h, hR, hc => by
    cases t with
    | op k xs l =>
      simp only [layRel] at h
      obtain ⟨rfl, hx, o⟩ := h
      have hT := rel_grow (strOk_grow o.tail) hR
      match xs', xs, hx with
      | [], [], _ => rfl
      | x' :: r', x :: r, hx =>
        simp only [layRels] at hx
        simp only [Tree.chainAt, Bool.and_eq_true] at hc ⊢
        exact ⟨layRel_chain s x' x _ _ hx.1 (layRels_rel s k' r' r _ _ hx.2 hT) hc.1,
          layRels_chain s k' r' r _ _ hx.2 hT hc.2⟩
    | _ => simp [layRel] at h
theorem layRels_chain (s : NumStyle) (k : OpK) : ∀ (xs' xs : List Tree) (R' R : Str), layRels xs' xs →
    Rel R' R → Tree.chainsTail s k xs R = true → Tree.chainsTail s k xs' R' = true
  | [], xs, R', R, h, hR, hc => rfl
  | x' :: r', xs, R', R, h, hR, hc => by
    cases xs with
    | nil => simp [layRels] at h
    | cons x r =>
      simp only [layRels] at h
      simp only [Tree.chainsTail, Bool.and_eq_true] at hc ⊢
      have hr := layRels_rel s k r' r _ _ h.2 hR
      exact ⟨⟨opFollow_rel (layRel_rel s x' x _ _ h.1 hr) hc.1.1, layRel_chain s x' x _ _ h.1 hr hc.1.2⟩,
        layRels_chain s k r' r _ _ h.2 hR hc.2⟩
end

end Luqum
