/-
  Luqum.Lemmas.Kf1PosRun — positions without the KF1 hypothesis: the run invariant.  For ARBITRARY
  tables with a certificate accepted by `certOK` (and the three `TablesOK` facts), along `runLoop`
  the sequence `stack (bottom first) ++ remaining input` stays laid out in the source from offset 0
  and keeps its total extent; hence the accepted value is laid out at offset 0 and claims the extent
  of all the tokens.  No hypothesis about blanks before a `:`.
-/
import Luqum.Lemmas.Kf1PosMain
import Luqum.Lemmas.LaidRun
import Luqum.Lemmas.LaidLex

namespace Luqum

/-- the invariant: well-formedness, shape of the stack, source layout, total extent, certificate -/
def LaidInvS (T : Tables) (C : Cert) (E : Int) (c : Cfg) (toks : List Tok) : Prop :=
  SeqOK0 (seqOf c toks) ∧ Shape T c ∧ SeqPosS (seqOf c toks) 0 ∧ extsV (seqOf c toks) = E ∧
    CertInv T C c toks.head?

theorem laidInvS_shift {T : Tables} {C : Cert} (hT : TablesOK T) (hC : certOK T C = true) {E : Int}
    (c : Cfg) (t : Tok) (toks : List Tok) (c' : Cfg)
    (hP : LaidInvS T C E c (t :: toks)) (hs : step T c (some t) = .shift c') :
    LaidInvS T C E c' toks := by
  obtain ⟨h1, h2, h3, h4, h5⟩ := hP
  have hsh := shape_shift hT h2 hs
  have hinv := inv_shift hC h5 hs toks.head?
  obtain ⟨t', a, hl, _, _, rfl⟩ := step_shift hs
  cases hl
  have : seqOf { states := a.toNat :: c.states, vals := t.toVal :: c.vals } toks
      = seqOf c (t :: toks) := by simp [seqOf]
  unfold LaidInvS
  rw [this]
  exact ⟨h1, hsh, h3, h4, hinv⟩

theorem laidInvS_reduce {T : Tables} {C : Cert} (hT : TablesOK T) (hC : certOK T C = true) {E : Int}
    (c : Cfg) (toks : List Tok) (c' : Cfg)
    (hP : LaidInvS T C E c toks) (hs : step T c toks.head? = .reduce c') :
    LaidInvS T C E c' toks := by
  obtain ⟨h1, h2, h3, h4, h5⟩ := hP
  have hsh := shape_reduce hT h2 hs
  have hinv := inv_reduce hC h5 hs
  obtain ⟨n, f, v, g, As, hn, hact, rfl, hshp, hadm⟩ := reduce_adm hC h5 hs
  have e1 : seqOf c toks
      = (c.vals.drop n).reverse ++ (c.vals.take n).reverse ++ toks.map Tok.toVal := by
    simp only [seqOf, ← List.reverse_append, List.take_append_drop]
  have e2 : seqOf { states := g.toNat :: c.states.drop n, vals := v :: c.vals.drop n } toks
      = (c.vals.drop n).reverse ++ [v] ++ toks.map Tok.toVal := by
    simp [seqOf]
  rw [e1] at h1 h3 h4
  unfold LaidInvS
  rw [e2]
  rw [seqPosS_append, seqPosS_append] at h3 ⊢
  obtain ⟨⟨hb, ha⟩, hr⟩ := h3
  obtain ⟨hpv, hev⟩ := act_posS hact h1.mid ha hshp hadm
  have hex : extsV ((c.vals.drop n).reverse ++ [v])
      = extsV ((c.vals.drop n).reverse ++ (c.vals.take n).reverse) := by
    rw [extsV_append, extsV_append, extsV_one, hev]
  refine ⟨(seqK_replace h1 hact).1, hsh, ⟨⟨hb, hpv, trivial⟩, ?_⟩, ?_, hinv⟩
  · rw [hex]; exact hr
  · rw [extsV_append, hex, ← extsV_append]; exact h4

/-- **source layout of a run**: with tables satisfying `TablesOK` and a certificate accepted by the
checker, a successful run over well-formed tokens laid out from offset 0 returns a value laid out
in the source at offset 0 that claims the total extent of the tokens -/
theorem runLoop_laidS {T : Tables} {C : Cert} (hT : TablesOK T) (hC : certOK T C = true) (fuel : Nat)
    (toks : List Tok) (lerr : Option LexErr) (v : Val) (hok : SeqOK0 (toks.map Tok.toVal))
    (hp : SeqPosS (toks.map Tok.toVal) 0)
    (h : runLoop T fuel { states := [0], vals := [] } toks lerr = .ok v) :
    v.PosAtS (v.lay.head.length) ∧ v.ext = extsV (toks.map Tok.toVal) := by
  have := runLoop_ok (T := T) (P := LaidInvS T C (extsV (toks.map Tok.toVal)))
    (fun c t tk c' hP hs => laidInvS_shift hT hC c t tk c' hP hs)
    (fun c tk c' hP hs => laidInvS_reduce hT hC c tk c' hP hs)
    fuel { states := [0], vals := [] } toks lerr v
    ⟨by simpa [seqOf] using hok, shape_init T, by simpa [seqOf] using hp, by simp [seqOf],
      .init 0 _⟩ h
  obtain ⟨c', toks', ⟨_, hsh, hpos, hext, _⟩, hacc, _⟩ := this
  obtain ⟨hlook, hv⟩ := shape_accept hT hsh hacc
  have ht : toks' = [] := by cases toks' <;> simp at hlook ⊢
  subst ht
  simp only [seqOf, hv, List.reverse_cons, List.reverse_nil, List.nil_append, List.map_nil,
    List.append_nil, SeqPosS, and_true, extsV_one] at hpos hext
  exact ⟨by simpa using hpos, hext⟩

/-! ### from tokens to stack values -/

theorem toVal_ext (t : Tok) : t.toVal.ext = (t.flat.length : Int) := by
  obtain ⟨kind, text, pos, head, tail⟩ := t
  cases kind <;> simp [Tok.toVal, Val.ext, Val.lay, Tree.lay, layLen, Tok.flat] <;> omega

theorem toVal_posAtS {t : Tok} (h : tokOK t.kind t.text) : t.toVal.PosAtS (t.pos : Int) := by
  obtain ⟨kind, text, pos, head, tail⟩ := t
  cases kind <;> simp only [tokOK] at h <;>
    simp [Tok.toVal, Val.PosAtS, PosS, LayS, LayAt, tokText]
  all_goals
    obtain ⟨cs, rfl⟩ := h
    cases cs <;> simp

theorem seqPosS_toVal : ∀ {toks : List Tok} {off : Nat}, (∀ t ∈ toks, tokOK t.kind t.text) →
    TokPos toks off → SeqPosS (toks.map Tok.toVal) (off : Int)
  | [], _, _, _ => trivial
  | t :: r, off, hok, hp => by
    simp only [List.map_cons, SeqPosS, toVal_lay_head, toVal_ext]
    obtain ⟨h1, h2⟩ := hp
    refine ⟨?_, ?_⟩
    · have := toVal_posAtS (hok t (by simp))
      rw [h1] at this
      simpa using this
    · have := seqPosS_toVal (fun x hx => hok x (by simp [hx])) h2
      simpa using this

theorem extsV_toVal : ∀ (toks : List Tok), extsV (toks.map Tok.toVal) = ((tflats toks).length : Int)
  | [] => rfl
  | t :: r => by
    simp only [List.map_cons, extsV, toVal_ext, extsV_toVal r, tflats_cons, List.length_append]
    omega

end Luqum
