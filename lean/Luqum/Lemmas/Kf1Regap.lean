/-
  Luqum.Lemmas.Kf1Regap — known finding KF1: putting the lost separators back.  `regap s t` is the
  tree `t` in which the name of every `SearchField` is followed by the characters the input `s` has
  between the name and the `:` (read off `pos` and `size` of the node itself).  It has the layout
  records of `t`, and it commutes with every semantic action but `p_field_search`.
-/
import Luqum.Lemmas.Kf1PosMain

namespace Luqum

/-- the `g` characters of `s` from offset `x` on (padded with blanks should `s` be too short: never
the case for the gaps of a parse tree, see `gapText_eq`) -/
def gapText (s : Str) (x g : Int) : Str :=
  (s.drop x.toNat).take g.toNat ++
    List.replicate (g.toNat - ((s.drop x.toNat).take g.toNat).length) ' '

theorem gapText_length (s : Str) (x g : Int) : (gapText s x g).length = g.toNat := by
  simp only [gapText, List.length_append, List.length_replicate, List.length_take, List.length_drop]
  omega

theorem gapText_eq (s : Str) (x g : Int) (h : x.toNat + g.toNat ≤ s.length) :
    gapText s x g = (s.drop x.toNat).take g.toNat := by
  have : g.toNat - ((s.drop x.toNat).take g.toNat).length = 0 := by
    simp only [List.length_take, List.length_drop]; omega
  unfold gapText
  rw [this]; simp

/-- the gap of a `SearchField` with name `n`, operand `e` and layout `l`: where it starts, how long
it is -/
def gapOf (s : Str) (n : Str) (e : Tree) (l : Lay) : Str :=
  gapText s (l.pos.getD 0 + n.length) (l.size.getD 0 - (n.length + 1 + e.ext))

mutual
/-- the tree with the lost separators put back after the field names -/
def regap (s : Str) : Tree → Tree
  | .term k v l => .term k v l
  | .field n e l => .field (n ++ gapOf s n e l) (regap s e) l
  | .group k e l => .group k (regap s e) l
  | .range a b il ih l => .range (regap s a) (regap s b) il ih l
  | .approx k t n l => .approx k (regap s t) n l
  | .boost e n l => .boost (regap s e) n l
  | .op k xs l => .op k (regaps s xs) l
  | .unary k a l => .unary k (regap s a) l
  | .orange k a i l => .orange k (regap s a) i l
  | .none l => .none l
def regaps (s : Str) : List Tree → List Tree
  | [] => []
  | x :: r => regap s x :: regaps s r
end

def regapV (s : Str) : Val → Val
  | .tok k v => .tok k v
  | .item t => .item (regap s t)

theorem regaps_eq_map (s : Str) : ∀ xs : List Tree, regaps s xs = xs.map (regap s)
  | [] => rfl
  | x :: r => by simp [regaps, regaps_eq_map s r]

theorem regaps_append (s : Str) (xs ys : List Tree) :
    regaps s (xs ++ ys) = regaps s xs ++ regaps s ys := by
  simp [regaps_eq_map]

/-! ### `regap` keeps the layout records and commutes with the layout operations -/

@[simp] theorem regap_lay (s : Str) (t : Tree) : (regap s t).lay = t.lay := by
  cases t <;> simp [regap, Tree.lay]

@[simp] theorem regap_head (s : Str) (t : Tree) : (regap s t).head = t.head := by
  simp [Tree.head]

@[simp] theorem regap_tail (s : Str) (t : Tree) : (regap s t).tail = t.tail := by
  simp [Tree.tail]

@[simp] theorem regap_ext (s : Str) (t : Tree) : (regap s t).ext = t.ext := by
  simp [Tree.ext]

@[simp] theorem regap_isNone (s : Str) (t : Tree) : (regap s t).isNone = t.isNone := by
  cases t <;> simp [regap, Tree.isNone]

theorem regap_setLay (s : Str) (t : Tree) (l : Lay) (h : ∀ n e l', t ≠ .field n e l') :
    regap s (t.setLay l) = (regap s t).setLay l := by
  cases t <;> simp [regap, Tree.setLay]
  rename_i n e l'; exact absurd rfl (h n e l')

/-- changing head or tail does not move the gap (it is found through `pos` and `size`) -/
@[simp] theorem regap_setHead (s : Str) (t : Tree) (h : Str) :
    regap s (t.setHead h) = (regap s t).setHead h := by
  cases t <;> simp [regap, Tree.setHead, Tree.setLay, Tree.lay, gapOf]

@[simp] theorem regap_setTail (s : Str) (t : Tree) (x : Str) :
    regap s (t.setTail x) = (regap s t).setTail x := by
  cases t <;> simp [regap, Tree.setTail, Tree.setLay, Tree.lay, gapOf]

@[simp] theorem regap_toFieldGroup (s : Str) (e : Tree) :
    regap s (toFieldGroup e) = toFieldGroup (regap s e) := by
  unfold toFieldGroup
  split
  · simp [regap]
  · rename_i h
    split
    · rename_i x l heq
      cases e <;> simp [regap] at heq
      rename_i k e' l'
      obtain ⟨rfl, _, _⟩ := heq
      exact absurd rfl (h _ _)
    · rfl

theorem regap_good (s : Str) {t : Tree} (h : t.good) : (regap s t).good := by
  cases t with
  | op k xs l =>
    cases xs with
    | nil => exact h
    | cons x r => simpa [regap, regaps, Tree.good] using h
  | none l => exact h
  | _ => trivial

theorem regap_nonFirst (s : Str) {t : Tree} (h : t.nonFirst) : (regap s t).nonFirst := by
  cases t with
  | op k xs l =>
    cases xs with
    | nil => exact h
    | cons x r => simpa [regap, regaps, Tree.nonFirst] using h
  | _ => exact h

@[simp] theorem regapV_lay (s : Str) (v : Val) : (regapV s v).lay = v.lay := by
  cases v <;> simp [regapV, Val.lay]

@[simp] theorem regapV_isColon (s : Str) (v : Val) : (regapV s v).isColon = v.isColon := by
  cases v with
  | tok k v => rfl
  | item t => rfl

theorem regapV_good (s : Str) {v : Val} (h : v.good) : (regapV s v).good := by
  cases v with
  | tok k v => exact h
  | item t => exact regap_good s h

theorem regapV_nonFirst (s : Str) {v : Val} (h : v.nonFirst) : (regapV s v).nonFirst := by
  cases v with
  | tok k v => exact h
  | item t => exact regap_nonFirst s h

theorem seqOK0_regap (s : Str) {l : List Val} (h : SeqOK0 l) : SeqOK0 (l.map (regapV s)) := by
  refine ⟨fun v hv => ?_, fun v hv => ?_⟩
  · obtain ⟨w, hw, rfl⟩ := List.mem_map.1 hv
    exact regapV_good s (h.good w hw)
  · cases l with
    | nil => simp at hv
    | cons x r =>
      simp only [List.map_cons, List.tail_cons] at hv
      obtain ⟨w, hw, rfl⟩ := List.mem_map.1 hv
      exact regapV_nonFirst s (h.nf w (by simpa using hw))

/-! ### `create_operation` / `binary_operation` -/

theorem regaps_side (s : Str) (k : OpK) (a : Tree) : regaps s (side k a) = side k (regap s a) := by
  cases a <;> simp [side, regap, regaps]
  rename_i k' xs l
  by_cases hk : k' = k <;> simp [hk, regap, regaps]

theorem regaps_pushHead (s : Str) (t : Str) (xs : List Tree) :
    regaps s (pushHead t xs) = pushHead t (regaps s xs) := by
  cases xs <;> simp [pushHead, regaps]

theorem afterCreate_lay_regap (s : Str) (k : OpK) (b : Tree) (t : Str) :
    (afterCreate k (regap s b) t).lay = (afterCreate k b t).lay := by
  cases b with
  | op k' xs l =>
    by_cases hk : k' = k
    · cases xs <;> simp only [afterCreate, regap, regaps, hk, if_true] <;> rfl
    · simp only [afterCreate, regap, hk, if_false, Tree.setHead, Tree.setLay_lay]; rfl
  | _ => simp only [afterCreate, regap, Tree.setHead, Tree.setLay_lay] <;> rfl

theorem regap_binaryOp (s : Str) (k : OpK) (a b : Tree) (ol : Option Lay) :
    regap s (binaryOp k a ol b) = binaryOp k (regap s a) ol (regap s b) := by
  rw [binaryOp_eq', binaryOp_eq']
  have hp : binParts (regap s a) ol (afterCreate k (regap s b) (opTailOf ol))
      = binParts a ol (afterCreate k b (opTailOf ol)) := by
    cases ol <;> simp [binParts, afterCreate_lay_regap]
  simp only [regap, regaps_append, regaps_pushHead, regaps_side, hp]

/-! ### prefix and postfix operators -/

theorem regap_mgrUnary (s : Str) (o : Lay) (e : Tree) (mk : Tree → Lay → Tree)
    (hmk : ∀ a l, regap s (mk a l) = mk (regap s a) l) :
    regap s (mgrUnary o e mk) = mgrUnary o (regap s e) mk := by
  simp [mgrUnary, hmk]

theorem regap_mgrPostUnary (s : Str) (e : Tree) (o : Lay) (mk : Tree → Lay → Tree)
    (hmk : ∀ a l, regap s (mk a l) = mk (regap s a) l) :
    regap s (mgrPostUnary e o mk) = mgrPostUnary (regap s e) o mk := by
  simp [mgrPostUnary, hmk]

/-! ### `regap` commutes with every semantic action but `p_field_search` -/

theorem act_regap (s : String) (src : Str) {args : List Val} {v : Val} (h : act s args = .ok v)
    (hnf : ∀ name nl c e, args ≠ [.item (.term .word name nl), .tok .column c, .item e]) :
    act s (args.map (regapV src)) = .ok (regapV src v) := by
  unfold act at h
  split at h
  case h_1 a o b => cases h; simp [act, regapV, regap_binaryOp]
  case h_2 a o b => cases h; simp [act, regapV, regap_binaryOp]
  case h_3 a b => cases h; simp [act, regapV, regap_binaryOp]
  case h_4 o e =>
    cases h; simp only [List.map, regapV, act]
    rw [regap_mgrUnary src _ _ _ (fun _ _ => by simp only [regap])]
  case h_5 o e =>
    cases h; simp only [List.map, regapV, act]
    rw [regap_mgrUnary src _ _ _ (fun _ _ => by simp only [regap])]
  case h_6 o e =>
    cases h; simp only [List.map, regapV, act]
    rw [regap_mgrUnary src _ _ _ (fun _ _ => by simp only [regap])]
  case h_7 v' => cases h; simp [act]
  case h_8 lp e rp =>
    split at h
    rename_i pos size hm
    cases h
    simp [act, regapV, regap, hm]
  case h_9 lb lo to hi rb =>
    split at h
    rename_i pos size hm
    cases h
    simp [act, regapV, regap, hm]
  case h_10 o e =>
    cases h; simp only [List.map, regapV, act]
    rw [regap_mgrUnary src _ _ _ (fun _ _ => by simp only [regap])]
  case h_11 => cases h; simp [act]
  case h_12 v' => cases h; simp [act]
  case h_13 o e =>
    cases h; simp only [List.map, regapV, act]
    rw [regap_mgrUnary src _ _ _ (fun _ _ => by simp only [regap])]
  case h_14 o e =>
    cases h; simp only [List.map, regapV, act]
    rw [regap_mgrUnary src _ _ _ (fun _ _ => by simp only [regap])]
  case h_15 name nl c e => exact absurd rfl (hnf name nl c e)
  case h_16 v' => cases h; simp [act]
  case h_17 e a =>
    split at h
    · rename_i n hnum
      cases h
      simp only [List.map, regapV, act, hnum]
      rw [regap_mgrPostUnary src _ _ _ (fun _ _ => by simp only [regap])]
    · cases h
  case h_18 e a =>
    split at h
    · rename_i n hnum
      cases h
      simp only [List.map, regapV, act, hnum]
      rw [regap_mgrPostUnary src _ _ _ (fun _ _ => by simp only [regap])]
    · cases h
  case h_19 v' => cases h; simp [act]
  case h_20 e a =>
    split at h
    · rename_i n hnum
      cases h
      simp only [List.map, regapV, act, hnum]
      rw [regap_mgrPostUnary src _ _ _ (fun _ _ => by simp only [regap])]
    · cases h
  case h_21 v' => cases h; simp [act]
  case h_22 t =>
    split at h
    rename_i pos size hm
    cases h
    simp [act, regapV, regap, hm]
  case h_23 v' => cases h; simp [act]
  case h_24 => cases h

end Luqum
