/-
  Luqum.Lemmas.LaidPath — property C02 (positions): consequences of `Laid` for the nodes of the
  tree, path by path: every node is a slice of the full text of the root; the widened spans of the
  children of a node lie inside the node's span, in order and without overlapping.
-/
import Luqum.Lemmas.LaidAct
import Luqum.Model.Visitor

namespace Luqum

/-- `Item.span(head_tail)`: `(start, end)` of the element; with `head_tail` the span is widened by
the lengths of head and tail -/
def Tree.span (t : Tree) (headTail : Bool) : Option (Int × Int) :=
  match t.lay.pos, t.lay.size with
  | some p, some z =>
    some (p - (if headTail then (t.head.length : Int) else 0),
          p + z + (if headTail then (t.tail.length : Int) else 0))
  | _, _ => Option.none

/-- the widened spans of the trees follow each other between `lo` and `hi` without overlapping -/
def SpanChain : Int → List Tree → Int → Prop
  | lo, [], hi => lo ≤ hi
  | lo, c :: r, hi => ∃ a b, c.span true = some (a, b) ∧ lo ≤ a ∧ a ≤ b ∧ SpanChain b r hi

theorem SpanChain.mono_lo {lo lo' hi : Int} : ∀ {cs : List Tree}, SpanChain lo' cs hi → lo ≤ lo' → SpanChain lo cs hi
  | [], h, hl => by simp only [SpanChain] at h ⊢; omega
  | c :: r, h, hl => by
    obtain ⟨a, b, h1, h2, h3, h4⟩ := h
    exact ⟨a, b, h1, by omega, h3, h4⟩

theorem SpanChain.le {lo hi : Int} : ∀ {cs : List Tree}, SpanChain lo cs hi → lo ≤ hi
  | [], h => h
  | c :: r, h => by
    obtain ⟨a, b, _, h2, h3, h4⟩ := h
    have := SpanChain.le h4
    omega

/-- a chain, index by index: every member lies between the bounds, and a member with a smaller
index ends before one with a larger index starts -/
theorem SpanChain.spec {lo hi : Int} : ∀ {cs : List Tree}, SpanChain lo cs hi →
    (∀ (i : Nat) (c : Tree), cs[i]? = some c → ∃ a b, c.span true = some (a, b) ∧ lo ≤ a ∧ a ≤ b ∧ b ≤ hi) ∧
    (∀ (i j : Nat) (ci cj : Tree), i < j → cs[i]? = some ci → cs[j]? = some cj →
      ∃ a b a' b', ci.span true = some (a, b) ∧ cj.span true = some (a', b') ∧ b ≤ a')
  | [], _ => ⟨fun i c hc => by simp at hc, fun i j ci cj _ hc => by simp at hc⟩
  | c :: r, h => by
    obtain ⟨a, b, h1, h2, h3, h4⟩ := h
    obtain ⟨ih1, ih2⟩ := SpanChain.spec h4
    have hle := SpanChain.le h4
    refine ⟨fun i x hx => ?_, fun i j ci cj hij hi hj => ?_⟩
    · cases i with
      | zero =>
        simp only [List.getElem?_cons_zero, Option.some.injEq] at hx; subst hx
        exact ⟨a, b, h1, h2, h3, hle⟩
      | succ i' =>
        simp only [List.getElem?_cons_succ] at hx
        obtain ⟨a', b', g1, g2, g3, g4⟩ := ih1 i' x hx
        exact ⟨a', b', g1, by omega, g3, g4⟩
    · cases j with
      | zero => omega
      | succ j' =>
        simp only [List.getElem?_cons_succ] at hj
        cases i with
        | zero =>
          simp only [List.getElem?_cons_zero, Option.some.injEq] at hi; subst hi
          obtain ⟨a', b', g1, g2, _, _⟩ := ih1 j' cj hj
          exact ⟨a, b, a', b', h1, g1, g2⟩
        | succ i' =>
          simp only [List.getElem?_cons_succ] at hi
          exact ih2 i' j' ci cj (by omega) hi hj

/-! ### spans of a laid-out tree -/

theorem Pos.span_false {s : NumStyle} {t : Tree} {p : Int} (h : Pos s t p) :
    t.span false = some (p, p + (t.body s).length) := by
  simp [Tree.span, h.pos_eq, h.size_eq]

theorem Pos.span_true {s : NumStyle} {t : Tree} {p : Int} (h : Pos s t p) :
    t.span true = some (p - t.head.length, p - t.head.length + (t.full s).length) := by
  simp only [Tree.span, h.pos_eq, h.size_eq, h.full_len, if_true]
  congr 2; omega

theorem Laid.span_true {s : NumStyle} {t : Tree} {off : Int} (h : Laid s off t) :
    t.span true = some (off, off + (t.full s).length) := by
  have := ((laid_iff_pos s t off).1 h).span_true
  rw [this]; congr 2 <;> omega

theorem Laid.span_false {s : NumStyle} {t : Tree} {off : Int} (h : Laid s off t) :
    t.span false = some (off + t.head.length, off + t.head.length + (t.body s).length) :=
  ((laid_iff_pos s t off).1 h).span_false

theorem chain_single {s : NumStyle} {c : Tree} {lo hi off : Int} (hc : Laid s off c)
    (h1 : lo ≤ off) (h2 : off + (c.full s).length ≤ hi) : SpanChain lo [c] hi :=
  ⟨off, off + (c.full s).length, hc.span_true, h1, by omega, h2⟩

theorem laidList_chain (s : NumStyle) (w : Str) : ∀ (xs : List Tree) (off : Int),
    LaidList s w.length off xs →
    SpanChain off xs (off + (joinWith w (Tree.fulls s xs)).length)
  | [], off, _ => by simp [SpanChain, Tree.fulls, joinWith]
  | [x], off, h => by
    simp only [LaidList] at h
    exact chain_single h.1 (by omega) (by simp [Tree.fulls, joinWith])
  | x :: y :: r, off, h => by
    simp only [LaidList] at h
    obtain ⟨hx, hr⟩ := h
    have ih := laidList_chain s w (y :: r) _ (by simpa only [LaidList] using hr)
    refine ⟨off, off + (x.full s).length, hx.span_true, by omega, by omega, ?_⟩
    refine SpanChain.mono_lo (lo' := off + (x.full s).length + w.length) ?_ (by omega)
    simp only [Tree.fulls, joinWith, List.length_append] at ih ⊢
    have e : off + ((x.full s).length : Int) + (w.length : Int)
          + ((joinWith w (y.full s :: Tree.fulls s r)).length : Int)
        = off + (((x.full s).length + w.length
          + (joinWith w (y.full s :: Tree.fulls s r)).length : Nat) : Int) := by omega
    rw [← e]; exact ih

/-- **children's spans**: the widened spans of the children of a laid-out node lie inside the node's
own span, in order and without overlapping -/
theorem Laid.chain {s : NumStyle} {t : Tree} {off : Int} (h : Laid s off t) :
    SpanChain (off + t.head.length) t.children (off + t.head.length + (t.body s).length) := by
  cases t with
  | term k v l => simp only [Tree.children, SpanChain]; omega
  | none l => simp [Laid] at h
  | field n e l =>
    simp only [Laid] at h
    exact chain_single h.2 (by simp only [Tree.head, Tree.lay]; omega)
      (by simp only [body_field, List.length_append, Tree.head, Tree.lay, List.length_cons,
        List.length_nil]; omega)
  | group k e l =>
    simp only [Laid] at h
    exact chain_single h.2 (by simp only [Tree.head, Tree.lay]; omega)
      (by simp only [body_group, List.length_append, Tree.head, Tree.lay, List.length_cons,
        List.length_nil]; omega)
  | range a b il ih l =>
    simp only [Laid] at h
    obtain ⟨_, ha, hb⟩ := h
    refine ⟨_, _, ha.span_true, by simp only [Tree.head, Tree.lay]; omega, by omega, ?_⟩
    exact chain_single hb (by omega)
      (by
        have h2 : ("TO".toList).length = 2 := rfl
        simp only [body_range, List.length_append, Tree.head, Tree.lay, List.length_cons,
          List.length_nil, h2]; omega)
  | approx k t n l =>
    simp only [Laid] at h
    exact chain_single h.2 (by simp only [Tree.head, Tree.lay]; omega)
      (by simp only [Tree.body, List.length_append, Tree.head, Tree.lay]; omega)
  | boost e n l =>
    simp only [Laid] at h
    exact chain_single h.2 (by simp only [Tree.head, Tree.lay]; omega)
      (by simp only [Tree.body, List.length_append, Tree.head, Tree.lay]; omega)
  | op k xs l =>
    simp only [Laid] at h
    simpa only [body_op, Tree.children, Tree.head, Tree.lay] using laidList_chain s k.word xs _ h.2
  | unary k a l =>
    simp only [Laid] at h
    exact chain_single h.2 (by simp only [Tree.head, Tree.lay]; omega)
      (by simp only [Tree.body, List.length_append, Tree.head, Tree.lay]; omega)
  | orange k a inc l =>
    simp only [Laid] at h
    exact chain_single h.2 (by simp only [Tree.head, Tree.lay]; omega)
      (by simp only [Tree.body, orangePre, List.length_append, Tree.head, Tree.lay]; omega)

/-! ### every node is a slice of the root's text -/

theorem laidList_child (s : NumStyle) (w : Str) : ∀ (xs : List Tree) (off : Int) (i : Nat) (c : Tree),
    LaidList s w.length off xs → xs[i]? = some c →
    ∃ pre post, joinWith w (Tree.fulls s xs) = pre ++ c.full s ++ post ∧
      Laid s (off + pre.length) c
  | [], _, i, c, _, hc => by simp at hc
  | x :: r, off, 0, c, h, hc => by
    simp only [List.getElem?_cons_zero, Option.some.injEq] at hc
    subst hc
    simp only [LaidList] at h
    cases r with
    | nil => exact ⟨[], [], by simp [Tree.fulls, joinWith], by simpa using h.1⟩
    | cons y r' =>
      exact ⟨[], w ++ joinWith w (Tree.fulls s (y :: r')), by simp [Tree.fulls, joinWith],
        by simpa using h.1⟩
  | x :: r, off, i + 1, c, h, hc => by
    simp only [List.getElem?_cons_succ] at hc
    simp only [LaidList] at h
    obtain ⟨pre, post, he, hl⟩ := laidList_child s w r _ i c h.2 hc
    cases r with
    | nil => simp at hc
    | cons y r' =>
      refine ⟨x.full s ++ w ++ pre, post, ?_, ?_⟩
      · simp only [Tree.fulls, joinWith] at he ⊢
        rw [he]; simp
      · simp only [List.length_append]
        have e : off + ((x.full s).length : Int) + (w.length : Int) + (pre.length : Int)
            = off + (((x.full s).length + w.length + pre.length : Nat) : Int) := by omega
        rw [← e]; exact hl

/-- a child of a laid-out node is laid out where its text starts inside the node's body -/
theorem Laid.child {s : NumStyle} {t : Tree} {off : Int} (h : Laid s off t) {i : Nat} {c : Tree}
    (hc : t.children[i]? = some c) :
    ∃ pre post, t.body s = pre ++ c.full s ++ post ∧ Laid s (off + t.head.length + pre.length) c := by
  cases t with
  | term k v l => simp [Tree.children] at hc
  | none l => simp [Laid] at h
  | field n e l =>
    simp only [Laid] at h
    cases i with
    | succ j => simp [Tree.children] at hc
    | zero =>
      simp only [Tree.children, List.getElem?_cons_zero, Option.some.injEq] at hc; subst hc
      exact ⟨n ++ [':'], [], by simp [body_field], by
        simpa [Tree.head, Tree.lay, ← Int.add_assoc] using h.2⟩
  | group k e l =>
    simp only [Laid] at h
    cases i with
    | succ j => simp [Tree.children] at hc
    | zero =>
      simp only [Tree.children, List.getElem?_cons_zero, Option.some.injEq] at hc; subst hc
      exact ⟨['('], [')'], by simp [body_group], by simpa [Tree.head, Tree.lay] using h.2⟩
  | range a b il ih l =>
    simp only [Laid] at h
    obtain ⟨_, ha, hb⟩ := h
    cases i with
    | zero =>
      simp only [Tree.children, List.getElem?_cons_zero, Option.some.injEq] at hc; subst hc
      exact ⟨[if il then '[' else '{'], "TO".toList ++ b.full s ++ [if ih then ']' else '}'],
        by simp [body_range], by simpa [Tree.head, Tree.lay] using ha⟩
    | succ j =>
      cases j with
      | succ j' => simp [Tree.children] at hc
      | zero =>
        simp only [Tree.children, List.getElem?_cons_succ, List.getElem?_cons_zero,
          Option.some.injEq] at hc
        subst hc
        refine ⟨[if il then '[' else '{'] ++ a.full s ++ "TO".toList, [if ih then ']' else '}'],
          by simp [body_range], ?_⟩
        have e : off + (l.head.length : Int) + 1 + ((a.full s).length : Int) + 2
            = off + ((Tree.range a b il ih l).head.length : Int)
              + (([if il then '[' else '{'] ++ a.full s ++ "TO".toList).length : Int) := by
          simp [Tree.head, Tree.lay]; omega
        rw [← e]; exact hb
  | approx k t n l =>
    simp only [Laid] at h
    cases i with
    | succ j => simp [Tree.children] at hc
    | zero =>
      simp only [Tree.children, List.getElem?_cons_zero, Option.some.injEq] at hc; subst hc
      exact ⟨[], ['~'] ++ n.text s, by simp [Tree.body], by simpa [Tree.head, Tree.lay] using h.2⟩
  | boost e n l =>
    simp only [Laid] at h
    cases i with
    | succ j => simp [Tree.children] at hc
    | zero =>
      simp only [Tree.children, List.getElem?_cons_zero, Option.some.injEq] at hc; subst hc
      exact ⟨[], ['^'] ++ n.text s, by simp [Tree.body], by simpa [Tree.head, Tree.lay] using h.2⟩
  | op k xs l =>
    simp only [Laid] at h
    obtain ⟨pre, post, he, hl⟩ := laidList_child s k.word xs _ i c h.2 hc
    exact ⟨pre, post, by rw [body_op]; exact he, by simpa [Tree.head, Tree.lay] using hl⟩
  | unary k a l =>
    simp only [Laid] at h
    cases i with
    | succ j => simp [Tree.children] at hc
    | zero =>
      simp only [Tree.children, List.getElem?_cons_zero, Option.some.injEq] at hc; subst hc
      exact ⟨k.word, [], by simp [Tree.body], by simpa [Tree.head, Tree.lay] using h.2⟩
  | orange k a inc l =>
    simp only [Laid] at h
    cases i with
    | succ j => simp [Tree.children] at hc
    | zero =>
      simp only [Tree.children, List.getElem?_cons_zero, Option.some.injEq] at hc; subst hc
      exact ⟨orangePre k inc, [], by simp [Tree.body, orangePre], by
        simpa [Tree.head, Tree.lay] using h.2⟩

theorem Laid.not_none {s : NumStyle} {t : Tree} {off : Int} (h : Laid s off t) : t.isNone = false :=
  ((laid_iff_pos s t off).1 h).not_none

/-- **every node is a slice**: the node at any path of a laid-out tree is laid out at the offset
where its text occurs inside the text of the tree -/
theorem Laid.at {s : NumStyle} : ∀ (path : List Nat) {t n : Tree} {off : Int}, Laid s off t →
    t.at? path = some n →
    ∃ pre post, t.full s = pre ++ n.full s ++ post ∧ Laid s (off + pre.length) n
  | [], t, n, off, h, hn => by
    simp only [Tree.at?, Option.some.injEq] at hn; subst hn
    exact ⟨[], [], by simp, by simpa using h⟩
  | i :: r, t, n, off, h, hn => by
    simp only [Tree.at?] at hn
    cases hc : t.children[i]? with
    | none => rw [hc] at hn; cases hn
    | some c =>
      rw [hc] at hn
      obtain ⟨pre, post, hb, hl⟩ := h.child hc
      obtain ⟨pre', post', hf, hl'⟩ := Laid.at r hl hn
      refine ⟨t.head ++ pre ++ pre', post' ++ post ++ t.tail, ?_, ?_⟩
      · rw [Tree.full_eq s t h.not_none, hb, hf]; simp
      · simp only [List.length_append]
        have e : off + (t.head.length : Int) + (pre.length : Int) + (pre'.length : Int)
            = off + ((t.head.length + pre.length + pre'.length : Nat) : Int) := by omega
        rw [← e]; exact hl'

/-- slices of a string in which a laid-out node occurs at its offset -/
theorem Laid.slices {s : NumStyle} {src pre post : Str} {n : Tree}
    (hsrc : src = pre ++ n.full s ++ post) (h : Laid s (pre.length : Int) n) :
    n.lay.pos = some ((pre.length + n.head.length : Nat) : Int) ∧
    n.lay.size = some (((n.body s).length : Nat) : Int) ∧
    (src.drop (pre.length + n.head.length)).take (n.body s).length = n.body s ∧
    (src.drop pre.length).take (n.head.length + (n.body s).length + n.tail.length) = n.full s := by
  have hp := (laid_iff_pos s n _).1 h
  refine ⟨by rw [hp.pos_eq]; simp, hp.size_eq, ?_, ?_⟩
  · rw [hsrc, Tree.full_eq s n h.not_none]
    have : pre ++ (n.head ++ n.body s ++ n.tail) ++ post
        = (pre ++ n.head) ++ (n.body s ++ (n.tail ++ post)) := by simp
    rw [this, List.drop_left' (by simp), List.take_left' rfl]
  · rw [hsrc, List.append_assoc, List.drop_left' rfl, List.take_left']
    rw [Tree.full_eq s n h.not_none]; simp only [List.length_append]

end Luqum
