/-
  Luqum.Lemmas.EsSchemaPaths — dotted names (`joinDot`, `splitOnChar`, `rsplitHead`) and
  well-formed mappings (`Props.wf`): sibling names are distinct and contain no dot, so that the paths
  of the fields are pairwise distinct and determined by their dotted names.
-/
import Luqum.Lemmas.EsSchemaWalk

namespace Luqum.Lemmas.EsSchema
open Luqum

/-! ### `joinDot` and `splitOnChar` -/

/-- no name of the path contains a dot -/
def DotFree (p : List Str) : Prop := ∀ x ∈ p, '.' ∉ x

theorem DotFree.nil : DotFree [] := by intro x hx; cases hx
theorem DotFree.append {p q : List Str} (hp : DotFree p) (hq : DotFree q) : DotFree (p ++ q) := by
  intro x hx
  rcases List.mem_append.mp hx with h | h
  · exact hp x h
  · exact hq x h
theorem DotFree.left {p q : List Str} (h : DotFree (p ++ q)) : DotFree p :=
  fun x hx => h x (List.mem_append.mpr (.inl hx))
theorem DotFree.right {p q : List Str} (h : DotFree (p ++ q)) : DotFree q :=
  fun x hx => h x (List.mem_append.mpr (.inr hx))
theorem DotFree.single {k : Str} (h : '.' ∉ k) : DotFree [k] := by
  intro x hx; simp at hx; subst hx; exact h

theorem joinDot_nil : joinDot [] = [] := rfl
theorem joinDot_single (x : Str) : joinDot [x] = x := rfl
theorem joinDot_cons_cons (x y : Str) (r : List Str) :
    joinDot (x :: y :: r) = x ++ '.' :: joinDot (y :: r) := by
  simp [joinDot, joinWith]

theorem joinDot_append {a b : List Str} (ha : a ≠ []) (hb : b ≠ []) :
    joinDot (a ++ b) = joinDot a ++ '.' :: joinDot b := by
  induction a with
  | nil => exact absurd rfl ha
  | cons x r ih =>
    cases r with
    | nil =>
      cases b with
      | nil => exact absurd rfl hb
      | cons y s => simp [joinDot_cons_cons, joinDot_single]
    | cons y s =>
      have := ih (by simp)
      simp only [List.cons_append] at this ⊢
      rw [joinDot_cons_cons, this, joinDot_cons_cons]
      simp

theorem joinDot_append_ne {a b : List Str} (ha : a ≠ []) (hb : b ≠ []) :
    joinDot a ≠ joinDot (a ++ b) := by
  rw [joinDot_append ha hb]
  intro h
  have := congrArg List.length h
  simp at this

theorem splitGo_dotFree (s : Str) : ∀ (cur : Str), '.' ∉ s →
    splitOnChar.go '.' cur s = [cur.reverse ++ s] := by
  induction s with
  | nil => intro cur _; simp [splitOnChar.go]
  | cons c r ih =>
    intro cur h
    have hc : c ≠ '.' := by intro e; subst e; simp at h
    have hr : '.' ∉ r := by intro e; exact h (List.mem_cons_of_mem _ e)
    simp [splitOnChar.go, hc, ih (c :: cur) hr]

theorem splitGo_append (s rest : Str) : ∀ (cur : Str), '.' ∉ s →
    splitOnChar.go '.' cur (s ++ '.' :: rest) = (cur.reverse ++ s) :: splitOnChar.go '.' [] rest := by
  induction s with
  | nil => intro cur _; simp [splitOnChar.go]
  | cons c r ih =>
    intro cur h
    have hc : c ≠ '.' := by intro e; subst e; simp at h
    have hr : '.' ∉ r := by intro e; exact h (List.mem_cons_of_mem _ e)
    simp [splitOnChar.go, hc, ih (c :: cur) hr]

/-- splitting a dotted name gives back the names it was made of -/
theorem splitOnChar_joinDot {p : List Str} (hne : p ≠ []) (h : DotFree p) :
    splitOnChar '.' (joinDot p) = p := by
  induction p with
  | nil => exact absurd rfl hne
  | cons x r ih =>
    cases r with
    | nil =>
      have hx : '.' ∉ x := h x (by simp)
      simp [joinDot_single, splitOnChar, splitGo_dotFree x [] hx]
    | cons y s =>
      have hx : '.' ∉ x := h x (by simp)
      have hr : DotFree (y :: s) := fun z hz => h z (List.mem_cons_of_mem _ hz)
      have := ih (by simp) hr
      unfold splitOnChar at this ⊢
      rw [joinDot_cons_cons, splitGo_append x _ [] hx, this]
      simp

/-- a dotted name determines the path -/
theorem joinDot_inj {p q : List Str} (hp : p ≠ []) (hq : q ≠ []) (dp : DotFree p) (dq : DotFree q)
    (h : joinDot p = joinDot q) : p = q := by
  rw [← splitOnChar_joinDot hp dp, ← splitOnChar_joinDot hq dq, h]

/-- `k.rsplit(".", 1)[0]` of the dotted name of a path of length ≥ 2 -/
theorem rsplitHead_joinDot {p : List Str} {x : Str} (hne : p ≠ []) (h : DotFree (p ++ [x])) :
    rsplitHead (joinDot (p ++ [x])) = joinDot p := by
  unfold rsplitHead
  rw [splitOnChar_joinDot (by simp) h]
  cases p with
  | nil => exact absurd rfl hne
  | cons a r =>
    cases r with
    | nil => simp
    | cons b s =>
      show joinDot ((a :: b :: (s ++ [x])).dropLast) = _
      rw [show a :: b :: (s ++ [x]) = (a :: b :: s) ++ [x] from rfl, List.dropLast_concat]

theorem rsplitHead_single {x : Str} (h : '.' ∉ x) : rsplitHead x = x := by
  unfold rsplitHead
  have := splitOnChar_joinDot (p := [x]) (by simp) (DotFree.single h)
  rw [joinDot_single] at this
  rw [this]

/-- the dotted name of the dotted names of non-empty segments -/
theorem joinDot_map_joinDot : ∀ (segs : List (List Str)), (∀ s ∈ segs, s ≠ []) →
    joinDot (segs.map joinDot) = joinDot segs.flatten
  | [], _ => rfl
  | [s], _ => by simp [joinDot_single]
  | s :: t :: r, h => by
    have ih := joinDot_map_joinDot (t :: r) (fun x hx => h x (List.mem_cons_of_mem _ hx))
    have hs : s ≠ [] := h s (by simp)
    have ht : t ≠ [] := h t (by simp)
    simp only [List.map_cons, List.flatten_cons] at ih ⊢
    rw [joinDot_cons_cons, ih, joinDot_append hs (by simp [ht])]

/-! ### well-formed mappings -/

/-- a name without dot -/
def nameOk (k : Str) : Bool := !k.contains '.'

theorem nameOk_iff {k : Str} : nameOk k = true ↔ '.' ∉ k := by simp [nameOk]

/-- the sub fields of a multi-field: names without dot, pairwise distinct -/
def subsWf : List (Str × LeafDef) → Bool
  | [] => true
  | (k, _) :: r => nameOk k && !(r.map (·.1)).contains k && subsWf r

mutual
def Node.wf : Node → Bool
  | .leaf _ => true
  | .multi _ subs => subsWf subs
  | .object _ ps => Props.wf ps
  | .nested ps => Props.wf ps
/-- sibling names are pairwise distinct and contain no dot, at every level -/
def Props.wf : Props → Bool
  | [] => true
  | (k, n) :: r => nameOk k && !(r.map (·.1)).contains k && n.wf && Props.wf r
end

theorem Props.wf_cons {k : Str} {n : Node} {r : Props} :
    Props.wf ((k, n) :: r) = true ↔ '.' ∉ k ∧ k ∉ r.map (·.1) ∧ n.wf = true ∧ Props.wf r = true := by
  simp [Props.wf, nameOk, and_assoc]

theorem subsWf_cons {k : Str} {d : LeafDef} {r : List (Str × LeafDef)} :
    subsWf ((k, d) :: r) = true ↔ '.' ∉ k ∧ k ∉ r.map (·.1) ∧ subsWf r = true := by
  simp [subsWf, nameOk, and_assoc]

/-! ### the paths of the fields of a well-formed mapping -/

theorem subs_paths (pfx : List Str) (d : LeafDef) : ∀ subs : List (Str × LeafDef), subsWf subs = true →
    ((subs.map fun s => (pfx ++ [s.1], Field.sub d s.2)).map (·.1)).Nodup ∧
    ∀ pf ∈ (subs.map fun s => (pfx ++ [s.1], Field.sub d s.2)),
      ∃ x, pf.1 = pfx ++ [x] ∧ '.' ∉ x ∧ x ∈ subs.map (·.1)
  | [], _ => by simp
  | (k, s) :: r, h => by
    obtain ⟨h1, h2, h3⟩ := subsWf_cons.mp h
    obtain ⟨ih1, ih2⟩ := subs_paths pfx d r h3
    constructor
    · simp only [List.map_cons, List.nodup_cons]
      refine ⟨?_, ih1⟩
      intro hm
      rw [List.mem_map] at hm
      obtain ⟨pf, hpf, e⟩ := hm
      obtain ⟨x, hx, _, hxr⟩ := ih2 pf hpf
      rw [hx] at e
      have : x = k := by simpa using e
      exact h2 (this ▸ hxr)
    · intro pf hpf
      simp only [List.map_cons, List.mem_cons] at hpf
      rcases hpf with rfl | hpf
      · exact ⟨k, rfl, h1, by simp⟩
      · obtain ⟨x, hx, hd, hxr⟩ := ih2 pf hpf
        exact ⟨x, hx, hd, by simp [hxr]⟩

/-- the path `p` lies strictly below `pfx`, through the child `k` -/
def Below (pfx : List Str) (k : Str) (p : List Str) : Prop :=
  ∃ q, p = pfx ++ k :: q ∧ DotFree (k :: q)

theorem Below.ne {pfx : List Str} {k k' : Str} {p : List Str} (h : Below pfx k p) (h' : Below pfx k' p) :
    k = k' := by
  obtain ⟨q, hq, _⟩ := h
  obtain ⟨q', hq', _⟩ := h'
  rw [hq] at hq'
  have := List.append_cancel_left hq'
  simp at this
  exact this.1

theorem Below.deeper {pfx : List Str} {k k' : Str} {p : List Str} (hk : '.' ∉ k)
    (h : Below (pfx ++ [k]) k' p) : Below pfx k p := by
  obtain ⟨q, hq, hd⟩ := h
  refine ⟨k' :: q, by simp [hq], ?_⟩
  intro x hx
  rcases List.mem_cons.mp hx with rfl | hx
  · exact hk
  · exact hd x hx

mutual
theorem fieldsNode_paths (pfx : List Str) (k : Str) (hk : '.' ∉ k) : ∀ n : Node, n.wf = true →
    ((fieldsNode pfx k n).map (·.1)).Nodup ∧ ∀ pf ∈ fieldsNode pfx k n, Below pfx k pf.1
  | .leaf d, _ => by
    simp only [fieldsNode, List.map_cons, List.map_nil, List.nodup_cons, List.not_mem_nil,
      not_false_eq_true, List.nodup_nil, and_self, List.mem_cons, or_false, true_and]
    rintro pf rfl
    exact ⟨[], by simp, DotFree.single hk⟩
  | .multi d subs, h => by
    have h : subsWf subs = true := by simpa [Node.wf] using h
    obtain ⟨s1, s2⟩ := subs_paths (pfx ++ [k]) d subs h
    simp only [fieldsNode]
    constructor
    · simp only [List.map_cons, List.nodup_cons]
      refine ⟨?_, s1⟩
      intro hm
      rw [List.mem_map] at hm
      obtain ⟨pf, hpf, e⟩ := hm
      obtain ⟨x, hx, _, _⟩ := s2 pf hpf
      rw [hx] at e
      simp at e
    · intro pf hpf
      rcases List.mem_cons.mp hpf with rfl | hpf
      · exact ⟨[], by simp, DotFree.single hk⟩
      · obtain ⟨x, hx, hd, _⟩ := s2 pf hpf
        refine ⟨[x], by simp [hx], ?_⟩
        intro y hy
        simp at hy
        rcases hy with rfl | rfl
        · exact hk
        · exact hd
  | .object e ps, h => by
    have h : Props.wf ps = true := by simpa [Node.wf] using h
    obtain ⟨s1, s2⟩ := fieldsProps_paths (pfx ++ [k]) ps h
    simp only [fieldsNode]
    constructor
    · simp only [List.map_cons, List.nodup_cons]
      refine ⟨?_, s1⟩
      intro hm
      rw [List.mem_map] at hm
      obtain ⟨pf, hpf, e⟩ := hm
      obtain ⟨k', _, q, hq, _⟩ := s2 pf hpf
      rw [hq] at e
      simp at e
    · intro pf hpf
      rcases List.mem_cons.mp hpf with rfl | hpf
      · exact ⟨[], by simp, DotFree.single hk⟩
      · obtain ⟨k', _, hb⟩ := s2 pf hpf
        exact hb.deeper hk
  | .nested ps, h => by
    have h : Props.wf ps = true := by simpa [Node.wf] using h
    obtain ⟨s1, s2⟩ := fieldsProps_paths (pfx ++ [k]) ps h
    simp only [fieldsNode]
    constructor
    · simp only [List.map_cons, List.nodup_cons]
      refine ⟨?_, s1⟩
      intro hm
      rw [List.mem_map] at hm
      obtain ⟨pf, hpf, e⟩ := hm
      obtain ⟨k', _, q, hq, _⟩ := s2 pf hpf
      rw [hq] at e
      simp at e
    · intro pf hpf
      rcases List.mem_cons.mp hpf with rfl | hpf
      · exact ⟨[], by simp, DotFree.single hk⟩
      · obtain ⟨k', _, hb⟩ := s2 pf hpf
        exact hb.deeper hk
theorem fieldsProps_paths (pfx : List Str) : ∀ ps : Props, Props.wf ps = true →
    ((fieldsProps pfx ps).map (·.1)).Nodup ∧
      ∀ pf ∈ fieldsProps pfx ps, ∃ k ∈ ps.map (·.1), Below pfx k pf.1
  | [], _ => by simp [fieldsProps]
  | (k, n) :: r, h => by
    obtain ⟨h1, h2, h3, h4⟩ := Props.wf_cons.mp h
    obtain ⟨n1, n2⟩ := fieldsNode_paths pfx k h1 n h3
    obtain ⟨r1, r2⟩ := fieldsProps_paths pfx r h4
    simp only [fieldsProps, List.map_append]
    constructor
    · rw [List.nodup_append]
      refine ⟨n1, r1, ?_⟩
      intro a ha b hb e
      subst e
      rw [List.mem_map] at ha hb
      obtain ⟨pf, hpf, e1⟩ := ha
      obtain ⟨pf', hpf', e2⟩ := hb
      have b1 := n2 pf hpf
      obtain ⟨k', hk', b2⟩ := r2 pf' hpf'
      rw [e1] at b1
      rw [e2] at b2
      have := b1.ne b2
      exact h2 (this ▸ hk')
    · intro pf hpf
      rcases List.mem_append.mp hpf with hpf | hpf
      · exact ⟨k, by simp, n2 pf hpf⟩
      · obtain ⟨k', hk', b⟩ := r2 pf hpf
        exact ⟨k', by simp [hk'], b⟩
end

/-- the paths of the fields of a well-formed mapping are pairwise distinct -/
theorem allFields_nodup {m : Props} (h : Props.wf m = true) : ((allFields m).map (·.1)).Nodup :=
  (fieldsProps_paths [] m h).1

/-- they are non-empty and made of names without dot -/
theorem allFields_path {m : Props} (h : Props.wf m = true) {p : List Str} {f : Field}
    (hm : (p, f) ∈ allFields m) : p ≠ [] ∧ DotFree p := by
  obtain ⟨k, _, q, hq, hd⟩ := (fieldsProps_paths [] m h).2 (p, f) hm
  simp only [List.nil_append] at hq
  subst hq
  exact ⟨by simp, hd⟩

theorem nodup_map_fst_unique {α β : Type} (l : List (α × β)) (hn : (l.map (·.1)).Nodup)
    {a : α} {b b' : β} (h : (a, b) ∈ l) (h' : (a, b') ∈ l) : b = b' := by
  induction l with
  | nil => cases h
  | cons xy r ih =>
    simp only [List.map_cons, List.nodup_cons] at hn
    rcases List.mem_cons.mp h with e | h1
    · rcases List.mem_cons.mp h' with e' | h2
      · rw [← e] at e'; cases e'; rfl
      · subst e
        exact (hn.1 (List.mem_map.mpr ⟨(a, b'), h2, rfl⟩)).elim
    · rcases List.mem_cons.mp h' with e' | h2
      · subst e'
        exact (hn.1 (List.mem_map.mpr ⟨(a, b), h1, rfl⟩)).elim
      · exact ih hn.2 h1 h2

/-- at most one field at a path -/
theorem allFields_unique {m : Props} (h : Props.wf m = true) {p : List Str} {f f' : Field}
    (hm : (p, f) ∈ allFields m) (hm' : (p, f') ∈ allFields m) : f = f' :=
  nodup_map_fst_unique _ (allFields_nodup h) hm hm'

/-- **a field of a well-formed mapping is listed as not analysed iff its effective definition is
not analysed text** -/
theorem mem_schemaNotAnalyzed {m : Props} (h : Props.wf m = true) {p : List Str} {f : Field}
    (hm : (p, f) ∈ allFields m) :
    joinDot p ∈ schemaNotAnalyzed (toJson m) ↔ f.notAnalysed = true := by
  rw [schemaNotAnalyzed_toJson, List.mem_filterMap]
  constructor
  · rintro ⟨⟨p', f'⟩, hm', hna⟩
    unfold naPath at hna
    by_cases hf : f'.notAnalysed = true
    · simp only [hf, if_true, Option.some.injEq] at hna
      obtain ⟨hp, dp⟩ := allFields_path h hm
      obtain ⟨hp', dp'⟩ := allFields_path h hm'
      have := joinDot_inj hp' hp dp' dp hna
      subst this
      exact (allFields_unique h hm hm') ▸ hf
    · simp [hf] at hna
  · intro hf
    exact ⟨(p, f), hm, by simp [naPath, hf]⟩

end Luqum.Lemmas.EsSchema
