/-
  Luqum.Lemmas.Fuel — the driver loop never runs out of fuel.

  Measure argument, for ARBITRARY tables satisfying two checkable facts (`FuelOK`):
  every shift consumes a token; every reduction by a production with at least two right-hand side
  symbols shrinks the stack; a reduction by a unit production `A → X` keeps the height of the stack
  but strictly raises the *rank* of the state on top (the rank of a state is the rank of the
  nonterminal by which it is entered: terminals 0 < phrase_or_term, unary_expression 1 <
  possibly_negative_term, expression 2 < phrase_or_possibly_negative_term 3).  Hence
  `8 * #tokens + 4 * height + (3 - rank top)` decreases with every step of the loop.
-/
import Luqum.Lemmas.RunLossless

namespace Luqum

/-! ### a sharper description of the reduce step -/

theorem reduceBy_reduce' {T : Tables} {c c' : Cfg} {p : String × List String × String}
    (h : reduceBy T c p = .reduce c') :
    ∃ (v : Val) (g : Int),
      p.2.1.length ≤ c.vals.length ∧ act p.2.2 (c.vals.take p.2.1.length).reverse = .ok v ∧
      T.goto? ((c.states.drop p.2.1.length).headD 0) p.1 = some g ∧
      c' = { states := g.toNat :: c.states.drop p.2.1.length, vals := v :: c.vals.drop p.2.1.length } := by
  unfold reduceBy at h
  split at h
  · cases h
  · rename_i hlen
    split at h
    · cases h
    · rename_i v hv
      split at h
      · rename_i g hg
        cases h
        refine ⟨v, g, ?_, hv, hg, rfl⟩
        simp at hlen
        omega
      · cases h

/-- a reduce step looked up a negative action, and is the reduction by that production -/
theorem step_reduce' {T : Tables} {c c' : Cfg} {look : Option Tok} (h : step T c look = .reduce c') :
    ∃ a : Int, T.act? (c.states.headD 0) (lookName look) = some a ∧ a < 0 ∧
      reduceBy T c (T.prods.getD (-a).toNat ("", [], "")) = .reduce c' := by
  rw [step_eq] at h
  split at h
  · split at h <;> cases h
  · rename_i a ha
    split at h
    · split at h <;> cases h
    · split at h
      · rename_i hneg
        exact ⟨a, ha, hneg, h⟩
      · split at h <;> cases h

/-! ### the errors of the semantic actions -/

theorem noact_ne_fuel (f : String) : (s!"no action {f} for these values" : String) ≠ "out of fuel" := by
  intro h
  have := congrArg String.toList h
  simp only [String.toList_append, toString] at this
  have h2 : "no action ".toList = 'n' :: "o action ".toList := by decide
  have h3 : "out of fuel".toList = 'o' :: "ut of fuel".toList := by decide
  rw [h2, h3] at this
  simp at this

theorem intNum_err {a : TokV} {e} (h : intNum a = .error e) : ∃ t p, e = .badNumber t p := by
  unfold intNum at h
  split at h
  · cases h
  · split at h
    · cases h
    · cases h; exact ⟨_, _, rfl⟩

theorem decNum_err {a : TokV} {d e} (h : decNum a d = .error e) : ∃ t p, e = .badNumber t p := by
  unfold decNum at h
  split at h
  · cases h
  · split at h
    · cases h
    · cases h; exact ⟨_, _, rfl⟩

/-- a semantic action fails with an invalid-number error, or because it got values of kinds it does
not expect -/
theorem act_err {f : String} {args : List Val} {e} (h : act f args = .error e) :
    (∃ t p, e = .badNumber t p) ∨ e = .internal s!"no action {f} for these values" := by
  unfold act at h
  split at h
  all_goals first | (cases h; done) | skip
  · split at h
    · cases h
    · rename_i hh; cases h; exact Or.inl (intNum_err hh)
  · split at h
    · cases h
    · rename_i hh; cases h; exact Or.inl (decNum_err hh)
  · split at h
    · cases h
    · rename_i hh; cases h; exact Or.inl (decNum_err hh)
  · cases h; exact Or.inr rfl

theorem act_not_fuel {f : String} {args : List Val}
    (h : act f args = .error (.internal "out of fuel")) : False := by
  rcases act_err h with ⟨t, p, h⟩ | h
  · cases h
  · injection h with h
    exact noact_ne_fuel f h.symm

/-! ### ranks -/

/-- rank of a grammar symbol: unit productions go strictly upwards -/
def rankSym : String → Nat
  | "phrase_or_term" => 1
  | "possibly_negative_term" => 2
  | "phrase_or_possibly_negative_term" => 3
  | "unary_expression" => 1
  | "expression" => 2
  | "S'" => 3
  | _ => 0

theorem rankSym_le (X : String) : rankSym X ≤ 3 := by
  unfold rankSym; split <;> omega

/-- rank of a state: the rank of the nonterminal by which it is entered (0 for a state that is entered
by a shift, or not at all) -/
def Tables.srank (T : Tables) (s : Nat) : Nat :=
  match (List.range T.goto.size).findSome? fun s0 =>
      let row := T.goto.getD s0 #[]
      (List.range row.size).find? fun j => row.getD j none == some (s : Int) with
  | some j => rankSym (T.nonterminals.getD j "")
  | none => 0

/-- the facts about the tables behind the measure: no reduce action uses an empty production, and
the state entered after a reduction by a unit production has a higher rank than the state left -/
structure FuelOK (T : Tables) (rank : Nat → Nat) : Prop where
  rank_le : ∀ s, rank s ≤ 3
  nonEmpty : ∀ s name a, T.act? s name = some a → a < 0 →
    1 ≤ (T.prods.getD (-a).toNat ("", [], "")).2.1.length
  unitUp : ∀ s name a s0 g, T.act? s name = some a → a < 0 →
    (T.prods.getD (-a).toNat ("", [], "")).2.1.length = 1 →
    T.goto? s0 (T.prods.getD (-a).toNat ("", [], "")).1 = some g → rank s < rank g.toNat

/-- the measure -/
def potential (rank : Nat → Nat) (c : Cfg) (toks : List Tok) : Nat :=
  8 * toks.length + 4 * c.vals.length + (3 - rank (c.states.headD 0))

theorem potential_shift {T : Tables} (rank : Nat → Nat) {c c' : Cfg} {t : Tok} {toks : List Tok}
    (hs : step T c (some t) = .shift c') : potential rank c' toks < potential rank c (t :: toks) := by
  obtain ⟨t', a, _, _, _, rfl⟩ := step_shift hs
  simp only [potential, List.length_cons]
  omega

theorem potential_reduce {T : Tables} {rank : Nat → Nat} (hT : FuelOK T rank) {c c' : Cfg} {look : Option Tok}
    {toks : List Tok} (hs : step T c look = .reduce c') :
    potential rank c' toks < potential rank c toks := by
  obtain ⟨a, ha, hneg, hr⟩ := step_reduce' hs
  obtain ⟨v, g, hlen, _, hg, rfl⟩ := reduceBy_reduce' hr
  have h1 := hT.nonEmpty _ _ _ ha hneg
  simp only [potential, List.length_cons, List.length_drop, List.headD_cons]
  by_cases hn : (T.prods.getD (-a).toNat ("", [], "")).2.1.length = 1
  · have hup := hT.unitUp _ _ _ _ _ ha hneg hn hg
    have := hT.rank_le g.toNat
    omega
  · omega

/-- a step itself never reports "out of fuel" -/
theorem step_not_fuel {T : Tables} {c : Cfg} {look : Option Tok}
    (hs : step T c look = .error (.internal "out of fuel")) : False := by
  rw [step_eq] at hs
  split at hs
  · split at hs <;> cases hs
  · split at hs
    · split at hs
      · cases hs
      · simp at hs
    · split at hs
      · unfold reduceBy at hs
        split at hs
        · simp at hs
        · split at hs
          · rename_i e' he'
            injection hs with hs
            subst hs
            exact act_not_fuel he'
          · split at hs
            · cases hs
            · simp at hs
      · split at hs
        · cases hs
        · simp at hs

/-- with more fuel than the measure the loop does not run out of fuel -/
theorem runLoop_fuel_of_potential {T : Tables} {rank : Nat → Nat} (hT : FuelOK T rank) :
    ∀ (fuel : Nat) (c : Cfg) (toks : List Tok) (lerr : Option LexErr),
      potential rank c toks < fuel →
      runLoop T fuel c toks lerr ≠ .error (.internal "out of fuel") := by
  intro fuel
  induction fuel with
  | zero => intro c toks lerr h; omega
  | succ fuel ih =>
    intro c toks lerr hpot
    unfold runLoop
    split
    · intro h; cases h
    · split
      · rename_i c' hs
        obtain ⟨t, a, hl, _⟩ := step_shift hs
        cases toks with
        | nil => simp at hl
        | cons t' rest =>
          simp at hl; subst hl
          have := potential_shift rank (toks := rest) hs
          exact ih c' rest lerr (by omega)
      · rename_i c' hs
        have := potential_reduce hT (toks := toks) hs
        exact ih c' toks lerr (by omega)
      · intro h; cases h
      · rename_i e hs
        intro h
        injection h with h
        subst h
        exact step_not_fuel hs

/-- one unfolding of the loop, as an `if` -/
theorem runLoop_succ_eq (T : Tables) (fuel : Nat) (c : Cfg) (toks : List Tok) (lerr : Option LexErr) :
    runLoop T (fuel + 1) c toks lerr =
      if toks = [] ∧ lerr.isSome then .error (.illegalChar (lerr.map (·.pos)).get! (lerr.map (·.rest)).get!) else
      match step T c toks.head? with
      | .shift c' => runLoop T fuel c' toks.tail lerr
      | .reduce c' => runLoop T fuel c' toks lerr
      | .accept v => .ok v
      | .error e => .error e := by
  rcases toks with _ | ⟨t, rest⟩
  · cases lerr with
    | some e => simp [runLoop]
    | none => simp only [runLoop]; cases step T c [].head? <;> simp
  · simp only [runLoop]; cases step T c (t :: rest).head? <;> simp

/-- more fuel never changes an outcome other than "out of fuel" -/
theorem runLoop_fuel_mono (T : Tables) : ∀ (fuel k : Nat) (c : Cfg) (toks : List Tok) (lerr : Option LexErr),
    runLoop T fuel c toks lerr ≠ .error (.internal "out of fuel") →
    runLoop T (fuel + k) c toks lerr = runLoop T fuel c toks lerr
  | 0, k, c, toks, lerr, h => by simp [runLoop] at h
  | fuel + 1, k, c, toks, lerr, h => by
    rw [Nat.add_right_comm]
    rw [runLoop_succ_eq] at h
    rw [runLoop_succ_eq, runLoop_succ_eq]
    split
    · rfl
    · rename_i hc
      rw [if_neg hc] at h
      cases hs : step T c toks.head? with
      | shift c' => rw [hs] at h; exact runLoop_fuel_mono T fuel k _ _ _ h
      | reduce c' => rw [hs] at h; exact runLoop_fuel_mono T fuel k _ _ _ h
      | accept v => rfl
      | error e => rfl

/-! ### checkable form of `FuelOK` -/

/-- every reduce action uses a production of the grammar with a non-empty right-hand side and a
left-hand side among the nonterminals, and a unit production only in a state of lower rank -/
def reduceRankOK (T : Tables) : Bool :=
  (List.range T.action.size).all fun s => (T.action.getD s #[]).all fun e =>
    match e with
    | some a => decide (a ≥ 0) ||
        (decide (1 ≤ (T.prods.getD (-a).toNat ("", [], "")).2.1.length) &&
         T.nonterminals.contains (T.prods.getD (-a).toNat ("", [], "")).1 &&
         ((T.prods.getD (-a).toNat ("", [], "")).2.1.length != 1 ||
           decide (T.srank s < rankSym (T.prods.getD (-a).toNat ("", [], "")).1)))
    | none => true

/-- the rank of a state entered by a goto is the rank of the nonterminal -/
def gotoRankOK (T : Tables) : Bool :=
  (List.range T.goto.size).all fun s0 => T.nonterminals.all fun nt =>
    match T.goto? s0 nt with
    | some g => T.srank g.toNat == rankSym nt
    | none => true

theorem fuelOK_of_checks {T : Tables} (h1 : reduceRankOK T = true) (h2 : gotoRankOK T = true) :
    FuelOK T T.srank := by
  have key : ∀ s name a, T.act? s name = some a → a < 0 →
      1 ≤ (T.prods.getD (-a).toNat ("", [], "")).2.1.length ∧
      (T.prods.getD (-a).toNat ("", [], "")).1 ∈ T.nonterminals ∧
      ((T.prods.getD (-a).toNat ("", [], "")).2.1.length = 1 →
        T.srank s < rankSym (T.prods.getD (-a).toNat ("", [], "")).1) := by
    intro s name a ha hneg
    obtain ⟨hs, hm, _⟩ := getD_getD_some ha
    simp only [reduceRankOK, List.all_eq_true, List.mem_range, Array.all_eq_true_iff_forall_mem] at h1
    have := h1 s hs _ hm
    simp only [Bool.or_eq_true, Bool.and_eq_true, decide_eq_true_eq, bne_iff_ne, ne_eq,
      List.contains_iff_mem] at this
    rcases this with h | ⟨⟨h, hnt⟩, hu⟩
    · omega
    · refine ⟨h, hnt, fun h1 => ?_⟩
      rcases hu with hu | hu
      · exact absurd h1 hu
      · exact hu
  refine ⟨fun s => ?_, fun s name a ha hneg => (key s name a ha hneg).1, ?_⟩
  · unfold Tables.srank
    split
    · exact rankSym_le _
    · omega
  · intro s name a s0 g ha hneg hlen hg
    obtain ⟨_, hnt, hu⟩ := key s name a ha hneg
    obtain ⟨hs0, _, _⟩ := getD_getD_some hg
    simp only [gotoRankOK, List.all_eq_true, List.mem_range] at h2
    have := h2 s0 hs0 _ hnt
    rw [hg] at this
    simp only [beq_iff_eq] at this
    rw [this]
    exact hu hlen

end Luqum
