/-
  Luqum.Lemmas.ComplCert — the kernel evaluates the checker `complOK` on the generated tables and the
  generated completeness certificate.
-/
import Luqum.Model.ParserInst
import Luqum.Generated.Compl
import Luqum.Lemmas.ComplDefs

namespace Luqum.Compl
open Luqum

/-- **kernel-checked**: the certificate computed by `tools/complcert.py` is closed for the generated
LALR tables -/
theorem compl_cert_ok : complOK tables Generated.complRU Generated.complG = true := by decide +kernel

end Luqum.Compl
