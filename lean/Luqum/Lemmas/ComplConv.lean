/-
  Luqum.Lemmas.ComplConv — the converse of completeness: every tree returned by the parser has the
  texts and numerals demanded by `Parseable` (`TextOK`).  Run invariant over the generated tables:
  every value on the stack is fine (`VText`), and a value entered on one of the symbols TERM, PHRASE,
  phrase_or_term, possibly_negative_term, phrase_or_possibly_negative_term is what the grammar
  rules that use these symbols need (`SymX`).
-/
import Luqum.Lemmas.ComplDefs

namespace Luqum.Compl
open Luqum

/-! ### the invariant on a stack value -/

def VText : Val → Prop
  | .item t => TextOK t = true
  | .tok k tv => tokValOK k tv.value

/-- what is known of a value from the grammar symbol by which its state was entered -/
def SymX (X : String) (v : Val) : Prop :=
  match X with
  | "TERM" => CleanWord v
  | "PHRASE" => ∃ x l, v = .item (.term .phrase x l)
  | "phrase_or_term" => ∃ t, v = .item t ∧ isWP t = true ∧ wordTerm t = true
  | "possibly_negative_term" => ∃ t, v = .item t ∧ boundText t = true
  | "phrase_or_possibly_negative_term" => ∃ t, v = .item t ∧ boundText t = true
  | _ => True

def SymP (X : String) (v : Val) : Prop := ValOf X v ∧ VText v ∧ SymX X v

/-- the state stack is a path of the automaton from state 0, and every value satisfies `SymP` for
the symbol by which its state was entered -/
inductive InvP (T : Tables) : List Nat → List Val → Prop
  | base : InvP T [0] []
  | push {s0 : Nat} {ss : List Nat} {vs : List Val} {X : String} {s : Nat} {v : Val} :
      InvP T (s0 :: ss) vs → T.Edge s0 X s → SymP X v → InvP T (s :: s0 :: ss) (v :: vs)

/-- the values (top of the stack first) entered on the symbols `Xs` (last symbol first) -/
def SymsP : List String → List Val → Prop
  | [], [] => True
  | X :: r, v :: vs => SymP X v ∧ SymsP r vs
  | _, _ => False

/-- the arguments of an action, in order, for the right-hand side `Xs` -/
def ArgsP : List String → List Val → Prop
  | [], [] => True
  | X :: r, v :: vs => SymP X v ∧ ArgsP r vs
  | _, _ => False

theorem argsP_snoc : ∀ (Xs : List String) (vs : List Val) (X : String) (v : Val),
    ArgsP Xs vs → SymP X v → ArgsP (Xs ++ [X]) (vs ++ [v])
  | [], [], X, v, _, h => ⟨h, trivial⟩
  | [], _ :: _, _, _, h, _ => by simp [ArgsP] at h
  | _ :: _, [], _, _, h, _ => by simp [ArgsP] at h
  | Y :: r, w :: ws, X, v, h, hv => ⟨h.1, argsP_snoc r ws X v h.2 hv⟩

theorem argsP_of_symsP : ∀ (Xs : List String) (vs : List Val), SymsP Xs vs →
    ArgsP Xs.reverse vs.reverse
  | [], [], _ => trivial
  | [], _ :: _, h => by simp [SymsP] at h
  | _ :: _, [], h => by simp [SymsP] at h
  | X :: r, v :: vs, h => by
    simp only [List.reverse_cons]
    exact argsP_snoc _ _ _ _ (argsP_of_symsP r vs h.2) h.1

theorem invP_states_ne {T : Tables} {ss : List Nat} {vs : List Val} (h : InvP T ss vs) :
    ∃ s r, ss = s :: r := by
  cases h <;> exact ⟨_, _, rfl⟩

theorem invP_back {T : Tables} {lhs : String} : ∀ (rhsRev : List String) (s : Nat) (ss : List Nat)
    (vs : List Val), InvP T (s :: ss) vs → BackOK T lhs rhsRev s →
    rhsRev.length ≤ vs.length ∧ SymsP rhsRev (vs.take rhsRev.length) ∧
    (∃ s' ss', (s :: ss).drop rhsRev.length = s' :: ss' ∧ InvP T (s' :: ss') (vs.drop rhsRev.length))
  | [], s, ss, vs, hI, _ => by
    exact ⟨Nat.zero_le _, by simp [SymsP], s, ss, rfl, hI⟩
  | X :: rest, s, ss, vs, hI, hB => by
    obtain ⟨hs0, hall⟩ := hB
    cases hI with
    | base => exact absurd rfl hs0
    | push hI' hE hV =>
      rename_i s0 ss' vs' Y v
      obtain ⟨rfl, hB'⟩ := hall _ _ hE
      obtain ⟨h1, h2, s', ss'', h3, h4⟩ := invP_back rest s0 ss' vs' hI' hB'
      refine ⟨by simp; omega, ?_, s', ss'', ?_, ?_⟩
      · simp only [List.length_cons, List.take_succ_cons, SymsP]
        exact ⟨hV, h2⟩
      · simpa using h3
      · simpa using h4

/-! ### texts and layout -/

@[simp] theorem textOK_setLay (t : Tree) (l : Lay) : TextOK (t.setLay l) = TextOK t := by
  cases t with
  | term k v l' => cases k <;> simp [Tree.setLay, TextOK]
  | approx k e n l' => cases k <;> simp [Tree.setLay, TextOK]
  | _ => simp [Tree.setLay, TextOK]

@[simp] theorem textOK_setHead (t : Tree) (h : Str) : TextOK (t.setHead h) = TextOK t := textOK_setLay _ _
@[simp] theorem textOK_setTail (t : Tree) (h : Str) : TextOK (t.setTail h) = TextOK t := textOK_setLay _ _

@[simp] theorem wordTerm_setLay (t : Tree) (l : Lay) : wordTerm (t.setLay l) = wordTerm t := by
  cases t with
  | term k v l' => cases k <;> simp [Tree.setLay, wordTerm]
  | _ => simp [Tree.setLay, wordTerm]

@[simp] theorem wordTerm_setHead (t : Tree) (h : Str) : wordTerm (t.setHead h) = wordTerm t := wordTerm_setLay _ _
@[simp] theorem wordTerm_setTail (t : Tree) (h : Str) : wordTerm (t.setTail h) = wordTerm t := wordTerm_setLay _ _

@[simp] theorem boundText_setLay (t : Tree) (l : Lay) : boundText (t.setLay l) = boundText t := by
  cases t with
  | term k v l' => cases k <;> simp [Tree.setLay, boundText, wordTerm]
  | unary k e l' => cases k <;> simp [Tree.setLay, boundText, wordTerm]
  | _ => simp [Tree.setLay, boundText, wordTerm]

@[simp] theorem boundText_setHead (t : Tree) (h : Str) : boundText (t.setHead h) = boundText t := boundText_setLay _ _
@[simp] theorem boundText_setTail (t : Tree) (h : Str) : boundText (t.setTail h) = boundText t := boundText_setLay _ _

@[simp] theorem textOK_toFieldGroup (e : Tree) : TextOK (toFieldGroup e) = TextOK e := by
  unfold toFieldGroup
  split <;> simp [TextOK]

theorem textOK_of_wp {e : Tree} (h1 : isWP e = true) (h2 : wordTerm e = true) : TextOK e = true := by
  cases e with
  | term k v l =>
    cases k
    · simp only [wordTerm] at h2
      simp [TextOK, h2]
    · rfl
    · simp [isWP] at h1
  | _ => simp [isWP] at h1

theorem boundText_of_wp {e : Tree} (h1 : isWP e = true) (h2 : wordTerm e = true) :
    boundText e = true := by
  cases e with
  | term k v l => cases k <;> simpa [boundText] using h2
  | _ => simp [isWP] at h1

theorem textsOK_append (xs ys : List Tree) : TextsOK (xs ++ ys) = (TextsOK xs && TextsOK ys) := by
  induction xs with
  | nil => simp [TextsOK]
  | cons x r ih => simp [TextsOK, ih, Bool.and_assoc]

theorem textsOK_pushHead (tl : Str) (xs : List Tree) : TextsOK (pushHead tl xs) = TextsOK xs := by
  cases xs <;> simp [pushHead, TextsOK]

theorem textsOK_side (k : OpK) (t : Tree) : TextsOK (side k t) = TextOK t := by
  rcases side_cases k t with ⟨xs, l, rfl, hs⟩ | hs
  · rw [hs]; simp [TextOK]
  · rw [hs]; simp [TextsOK]

theorem textOK_binaryOp (k : OpK) (a b : Tree) (ol : Option Lay) (ha : TextOK a = true)
    (hb : TextOK b = true) : TextOK (binaryOp k a ol b) = true := by
  obtain ⟨pos, size, he⟩ := binaryOp_eq k a b ol
  rw [he]
  simp [TextOK, textsOK_append, textsOK_pushHead, textsOK_side, ha, hb]

/-! ### numerals -/

theorem numEq_refl (d : Dec) : d.numEq d = true := by simp [Dec.numEq]

theorem numOK_decNum {a : TokV} {d : Dec} {n : Num} (h : decNum a d = .ok n) :
    numOK (decNum · d) n = true := by
  unfold decNum at h
  split at h
  · cases h
    simp [numOK, Num.source, srcValue, decNum, numEq_refl]
  · rename_i s hs
    split at h
    · rename_i d' hd'
      cases h
      have hne : s ≠ [] := by
        rintro rfl
        simp [Dec.ofLiteral] at hd'
      simp [numOK, Num.source, srcValue, hne, decNum, hd', numEq_refl]
    · cases h

theorem numOK_intNum {a : TokV} {n : Num} (h : intNum a = .ok n) : numOK intNum n = true := by
  unfold intNum at h
  split at h
  · cases h
    simp [numOK, Num.source, srcValue, intNum, numEq_refl]
  · rename_i s hs
    split at h
    · rename_i d' hd'
      cases h
      have hne : s ≠ [] := by
        rintro rfl
        simp [intOfLiteral] at hd'
      simp [numOK, Num.source, srcValue, hne, intNum, hd', numEq_refl]
    · cases h

/-! ### views of `SymP` -/

theorem symP_item {X : String} {v : Val} (hk : symKind X = .item) (h : SymP X v) :
    ∃ t, v = .item t ∧ TextOK t = true ∧ SymX X (.item t) := by
  obtain ⟨h1, h2, h3⟩ := h
  unfold ValOf at h1
  rw [hk] at h1
  obtain ⟨t, rfl⟩ := h1
  exact ⟨t, rfl, h2, h3⟩

theorem symP_tok {X : String} {v : Val} {k : TokK} (hk : symKind X = .tok k) (h : SymP X v) :
    ∃ tv, v = .tok k tv ∧ tokValOK k tv.value := by
  obtain ⟨h1, h2, _⟩ := h
  unfold ValOf at h1
  rw [hk] at h1
  obtain ⟨tv, rfl⟩ := h1
  exact ⟨tv, rfl, h2⟩

theorem symP_term {v : Val} (h : SymP "TERM" v) :
    ∃ w l, v = .item (.term .word w l) ∧ reservedKind w = .term := by
  obtain ⟨_, _, w, l, rfl, hw⟩ := h
  exact ⟨w, l, rfl, hw⟩

theorem symP_of_item {X : String} (hk : symKind X = .item) {t : Tree} (ht : TextOK t = true)
    (hx : SymX X (.item t)) : SymP X (.item t) :=
  ⟨by unfold ValOf; rw [hk]; exact ⟨t, rfl⟩, ht, hx⟩

theorem argsP_1 {X : String} {args : List Val} (h : ArgsP [X] args) : ∃ a, args = [a] ∧ SymP X a := by
  match args, h with
  | [a], h => exact ⟨a, rfl, h.1⟩

theorem argsP_2 {X Y : String} {args : List Val} (h : ArgsP [X, Y] args) :
    ∃ a b, args = [a, b] ∧ SymP X a ∧ SymP Y b := by
  match args, h with
  | [a, b], h => exact ⟨a, b, rfl, h.1, h.2.1⟩

theorem argsP_3 {X Y Z : String} {args : List Val} (h : ArgsP [X, Y, Z] args) :
    ∃ a b c, args = [a, b, c] ∧ SymP X a ∧ SymP Y b ∧ SymP Z c := by
  match args, h with
  | [a, b, c], h => exact ⟨a, b, c, rfl, h.1, h.2.1, h.2.2.1⟩

theorem argsP_5 {X1 X2 X3 X4 X5 : String} {args : List Val} (h : ArgsP [X1, X2, X3, X4, X5] args) :
    ∃ a b c d e, args = [a, b, c, d, e] ∧ SymP X1 a ∧ SymP X2 b ∧ SymP X3 c ∧ SymP X4 d ∧ SymP X5 e := by
  match args, h with
  | [a, b, c, d, e], h => exact ⟨a, b, c, d, e, rfl, h.1, h.2.1, h.2.2.1, h.2.2.2.1, h.2.2.2.2.1⟩

/-! ### the productions -/

/-- the semantic action of the production, on arguments that satisfy the invariant for the symbols
of the right-hand side, gives a value that satisfies the invariant for the left-hand side -/
def ProdTextOK (p : String × List String × String) : Prop :=
  ∀ args v, ArgsP p.2.1 args → act p.2.2 args = .ok v → SymP p.1 v

theorem kE : symKind "expression" = .item := by decide
theorem kU : symKind "unary_expression" = .item := by decide
theorem kPT : symKind "phrase_or_term" = .item := by decide
theorem kPNT : symKind "possibly_negative_term" = .item := by decide
theorem kPPNT : symKind "phrase_or_possibly_negative_term" = .item := by decide
theorem kPHRASE : symKind "PHRASE" = .item := by decide
theorem kREGEX : symKind "REGEX" = .item := by decide

theorem prod_text_ok : ∀ p ∈ Generated.productions.tail, ProdTextOK p := by
  intro p hp
  simp only [Generated.productions, List.tail_cons, List.mem_cons, List.not_mem_nil, or_false] at hp
  rcases hp with rfl | rfl | rfl | rfl | rfl | rfl | rfl | rfl | rfl | rfl | rfl | rfl | rfl | rfl |
    rfl | rfl | rfl | rfl | rfl | rfl | rfl | rfl | rfl | rfl | rfl
  -- 1: or
  · intro args v ha hact
    obtain ⟨a, o, b, rfl, h1, h2, h3⟩ := argsP_3 ha
    obtain ⟨ta, rfl, hta, _⟩ := symP_item kE h1
    obtain ⟨tv, rfl, _⟩ := symP_tok (k := .orOp) (by decide) h2
    obtain ⟨tb, rfl, htb, _⟩ := symP_item kE h3
    cases hact
    exact symP_of_item kE (textOK_binaryOp _ _ _ _ hta htb) trivial
  -- 2: and
  · intro args v ha hact
    obtain ⟨a, o, b, rfl, h1, h2, h3⟩ := argsP_3 ha
    obtain ⟨ta, rfl, hta, _⟩ := symP_item kE h1
    obtain ⟨tv, rfl, _⟩ := symP_tok (k := .andOp) (by decide) h2
    obtain ⟨tb, rfl, htb, _⟩ := symP_item kE h3
    cases hact
    exact symP_of_item kE (textOK_binaryOp _ _ _ _ hta htb) trivial
  -- 3: implicit
  · intro args v ha hact
    obtain ⟨a, b, rfl, h1, h3⟩ := argsP_2 ha
    obtain ⟨ta, rfl, hta, _⟩ := symP_item kE h1
    obtain ⟨tb, rfl, htb, _⟩ := symP_item kE h3
    cases hact
    exact symP_of_item kE (textOK_binaryOp _ _ _ _ hta htb) trivial
  -- 4: plus
  · intro args v ha hact
    obtain ⟨a, b, rfl, h1, h2⟩ := argsP_2 ha
    obtain ⟨tv, rfl, _⟩ := symP_tok (k := .plus) (by decide) h1
    obtain ⟨tb, rfl, htb, _⟩ := symP_item kU h2
    cases hact
    exact symP_of_item kU (by simpa [mgrUnary, TextOK] using htb) trivial
  -- 5: minus
  · intro args v ha hact
    obtain ⟨a, b, rfl, h1, h2⟩ := argsP_2 ha
    obtain ⟨tv, rfl, _⟩ := symP_tok (k := .minus) (by decide) h1
    obtain ⟨tb, rfl, htb, _⟩ := symP_item kU h2
    cases hact
    exact symP_of_item kU (by simpa [mgrUnary, TextOK] using htb) trivial
  -- 6: not
  · intro args v ha hact
    obtain ⟨a, b, rfl, h1, h2⟩ := argsP_2 ha
    obtain ⟨tv, rfl, _⟩ := symP_tok (k := .not) (by decide) h1
    obtain ⟨tb, rfl, htb, _⟩ := symP_item kU h2
    cases hact
    exact symP_of_item kU (by simpa [mgrUnary, TextOK] using htb) trivial
  -- 7: expression : unary_expression
  · intro args v ha hact
    obtain ⟨a, rfl, h1⟩ := argsP_1 ha
    obtain ⟨ta, rfl, hta, _⟩ := symP_item kU h1
    cases hact
    exact symP_of_item kE hta trivial
  -- 8: grouping
  · intro args v ha hact
    obtain ⟨a, b, c, rfl, h1, h2, h3⟩ := argsP_3 ha
    obtain ⟨lp, rfl, _⟩ := symP_tok (k := .lparen) (by decide) h1
    obtain ⟨tb, rfl, htb, _⟩ := symP_item kE h2
    obtain ⟨rp, rfl, _⟩ := symP_tok (k := .rparen) (by decide) h3
    cases hact
    exact symP_of_item kU (by simpa [TextOK] using htb) trivial
  -- 9: range
  · intro args v ha hact
    obtain ⟨a, b, c, d, e, rfl, h1, h2, h3, h4, h5⟩ := argsP_5 ha
    obtain ⟨lb, rfl, _⟩ := symP_tok (k := .lbracket) (by decide) h1
    obtain ⟨lo, rfl, _, lo', hlo', hlo⟩ := symP_item kPPNT h2
    obtain ⟨to, rfl, _⟩ := symP_tok (k := .to) (by decide) h3
    obtain ⟨hi, rfl, _, hi', hhi', hhi⟩ := symP_item kPPNT h4
    obtain ⟨rb, rfl, _⟩ := symP_tok (k := .rbracket) (by decide) h5
    cases hlo'; cases hhi'
    cases hact
    exact symP_of_item kU (by simp [TextOK, hlo, hhi]) trivial
  -- 10: possibly_negative_term : MINUS phrase_or_term
  · intro args v ha hact
    obtain ⟨a, b, rfl, h1, h2⟩ := argsP_2 ha
    obtain ⟨tv, rfl, _⟩ := symP_tok (k := .minus) (by decide) h1
    obtain ⟨tb, rfl, htb, tb', htb', hwp, hwt⟩ := symP_item kPT h2
    cases htb'
    cases hact
    exact symP_of_item kPNT (by simpa [mgrUnary, TextOK] using htb)
      ⟨_, rfl, by simpa [mgrUnary, boundText] using hwt⟩
  -- 11: possibly_negative_term : phrase_or_term
  · intro args v ha hact
    obtain ⟨a, rfl, h1⟩ := argsP_1 ha
    obtain ⟨ta, rfl, hta, ta', hta', hwp, hwt⟩ := symP_item kPT h1
    cases hta'
    cases hact
    exact symP_of_item kPNT hta ⟨_, rfl, boundText_of_wp hwp hwt⟩
  -- 12: phrase_or_possibly_negative_term : possibly_negative_term
  · intro args v ha hact
    obtain ⟨a, rfl, h1⟩ := argsP_1 ha
    obtain ⟨ta, rfl, hta, ta', hta', hb⟩ := symP_item kPNT h1
    cases hta'
    cases hact
    exact symP_of_item kPPNT hta ⟨_, rfl, hb⟩
  -- 13: phrase_or_possibly_negative_term : PHRASE
  · intro args v ha hact
    obtain ⟨a, rfl, h1⟩ := argsP_1 ha
    obtain ⟨ta, rfl, hta, x, l, hx⟩ := symP_item kPHRASE h1
    cases hx
    cases hact
    exact symP_of_item kPPNT hta ⟨_, rfl, rfl⟩
  -- 14: lessthan
  · intro args v ha hact
    obtain ⟨a, b, rfl, h1, h2⟩ := argsP_2 ha
    obtain ⟨tv, rfl, _⟩ := symP_tok (k := .lessthan) (by decide) h1
    obtain ⟨tb, rfl, htb, tb', htb', hwp, hwt⟩ := symP_item kPT h2
    cases htb'
    cases hact
    exact symP_of_item kU (by simpa [mgrUnary, TextOK] using hwt) trivial
  -- 15: greaterthan
  · intro args v ha hact
    obtain ⟨a, b, rfl, h1, h2⟩ := argsP_2 ha
    obtain ⟨tv, rfl, _⟩ := symP_tok (k := .greaterthan) (by decide) h1
    obtain ⟨tb, rfl, htb, tb', htb', hwp, hwt⟩ := symP_item kPT h2
    cases htb'
    cases hact
    exact symP_of_item kU (by simpa [mgrUnary, TextOK] using hwt) trivial
  -- 16: field
  · intro args v ha hact
    obtain ⟨a, b, c, rfl, h1, h2, h3⟩ := argsP_3 ha
    obtain ⟨w, l, rfl, hw⟩ := symP_term h1
    obtain ⟨tv, rfl, _⟩ := symP_tok (k := .column) (by decide) h2
    obtain ⟨tc, rfl, htc, _⟩ := symP_item kU h3
    rw [act_field_eq] at hact
    cases hact
    exact symP_of_item kU (by simp [TextOK, hw, htc]) trivial
  -- 17: unary_expression : PHRASE
  · intro args v ha hact
    obtain ⟨a, rfl, h1⟩ := argsP_1 ha
    obtain ⟨ta, rfl, hta, _⟩ := symP_item kPHRASE h1
    cases hact
    exact symP_of_item kU hta trivial
  -- 18: proximity
  · intro args v ha hact
    obtain ⟨a, b, rfl, h1, h2⟩ := argsP_2 ha
    obtain ⟨ta, rfl, hta, _⟩ := symP_item kPHRASE h1
    obtain ⟨av, rfl, _⟩ := symP_tok (k := .approx) (by decide) h2
    have e2 : act "p_proximity" [.item ta, .tok .approx av] =
        (match intNum av with
          | .ok n => .ok (.item (mgrPostUnary ta av.lay (fun x l => .approx .proximity x n l)))
          | .error err => .error err) := rfl
    rw [e2] at hact
    split at hact
    · rename_i n hn
      cases hact
      exact symP_of_item kU (by simpa [mgrPostUnary, TextOK] using numOK_intNum hn) trivial
    · cases hact
  -- 19: boosting
  · intro args v ha hact
    obtain ⟨a, b, rfl, h1, h2⟩ := argsP_2 ha
    obtain ⟨ta, rfl, hta, _⟩ := symP_item kU h1
    obtain ⟨av, rfl, _⟩ := symP_tok (k := .boost) (by decide) h2
    have e2 : act "p_boosting" [.item ta, .tok .boost av] =
        (match decNum av boostDflt with
          | .ok n => .ok (.item (mgrPostUnary ta av.lay (fun x l => .boost x n l)))
          | .error err => .error err) := rfl
    rw [e2] at hact
    split at hact
    · rename_i n hn
      cases hact
      exact symP_of_item kU (by simp [mgrPostUnary, TextOK, hta, numOK_decNum hn]) trivial
    · cases hact
  -- 20: unary_expression : TERM
  · intro args v ha hact
    obtain ⟨a, rfl, h1⟩ := argsP_1 ha
    obtain ⟨w, l, rfl, hw⟩ := symP_term h1
    cases hact
    exact symP_of_item kU (by simp [TextOK, hw]) trivial
  -- 21: fuzzy
  · intro args v ha hact
    obtain ⟨a, b, rfl, h1, h2⟩ := argsP_2 ha
    obtain ⟨w, l, rfl, hw⟩ := symP_term h1
    obtain ⟨av, rfl, _⟩ := symP_tok (k := .approx) (by decide) h2
    have e2 : act "p_fuzzy" [.item (.term .word w l), .tok .approx av] =
        (match decNum av fuzzyDflt with
          | .ok n => .ok (.item (mgrPostUnary (.term .word w l) av.lay (fun x l => .approx .fuzzy x n l)))
          | .error err => .error err) := rfl
    rw [e2] at hact
    split at hact
    · rename_i n hn
      cases hact
      exact symP_of_item kU (by simp [mgrPostUnary, TextOK, wordTerm, Tree.setTail, Tree.setLay, hw,
        numOK_decNum hn]) trivial
    · cases hact
  -- 22: unary_expression : REGEX
  · intro args v ha hact
    obtain ⟨a, rfl, h1⟩ := argsP_1 ha
    obtain ⟨ta, rfl, hta, _⟩ := symP_item kREGEX h1
    cases hact
    exact symP_of_item kU hta trivial
  -- 23: unary_expression : TO
  · intro args v ha hact
    obtain ⟨a, rfl, h1⟩ := argsP_1 ha
    obtain ⟨tv, rfl, htv⟩ := symP_tok (k := .to) (by decide) h1
    obtain ⟨l, hl⟩ := (⟨_, rfl⟩ : ∃ l, act "p_to_as_term" [.tok .to tv] =
      .ok (.item (.term .word (tv.value.getD []) l)))
    rw [hl] at hact
    cases hact
    have : tv.value = some "TO".toList := htv
    exact symP_of_item kU (by rw [this]; simp only [Option.getD_some, TextOK]; decide) trivial
  -- 24: phrase_or_term : TERM
  · intro args v ha hact
    obtain ⟨a, rfl, h1⟩ := argsP_1 ha
    obtain ⟨w, l, rfl, hw⟩ := symP_term h1
    cases hact
    exact symP_of_item kPT (by simp [TextOK, hw]) ⟨_, rfl, rfl, by simp [wordTerm, hw]⟩
  -- 25: phrase_or_term : PHRASE
  · intro args v ha hact
    obtain ⟨a, rfl, h1⟩ := argsP_1 ha
    obtain ⟨ta, rfl, hta, x, l, hx⟩ := symP_item kPHRASE h1
    cases hx
    cases hact
    exact symP_of_item kPT hta ⟨_, rfl, rfl, rfl⟩

end Luqum.Compl
