/-
  Luqum.Lemmas.Consistent — LR stack consistency: along a run the state stack is a path of the
  automaton (each state was entered from the one below by a shift or a goto on some symbol `X`) and
  the value stacked with a state has the kind of that symbol.  With checkable facts about the tables
  (`ConsOK`: every path that ends in a state with a reduce action spells the right-hand side of the
  production and starts in a state with a goto on its left-hand side; the semantic action accepts
  values of these kinds, ...) no step of the driver can report an internal error, and with the
  measure of Luqum.Lemmas.Fuel neither can the loop.
-/
import Luqum.Lemmas.Fuel

namespace Luqum

/-! ### kinds of values -/

/-- what a grammar symbol carries on the value stack -/
inductive SymK
  | word
  | item
  | tok (k : TokK)
deriving DecidableEq, Repr

/-- the kind of the values of a grammar symbol (every name that is not a terminal: an item) -/
def symKind : String → SymK
  | "TERM" => .word
  | "PHRASE" => .item
  | "REGEX" => .item
  | "APPROX" => .tok .approx
  | "BOOST" => .tok .boost
  | "MINUS" => .tok .minus
  | "PLUS" => .tok .plus
  | "COLUMN" => .tok .column
  | "LPAREN" => .tok .lparen
  | "RPAREN" => .tok .rparen
  | "LBRACKET" => .tok .lbracket
  | "RBRACKET" => .tok .rbracket
  | "LESSTHAN" => .tok .lessthan
  | "GREATERTHAN" => .tok .greaterthan
  | "AND_OP" => .tok .andOp
  | "OR_OP" => .tok .orOp
  | "NOT" => .tok .not
  | "TO" => .tok .to
  | _ => .item

def SymK.Holds : SymK → Val → Prop
  | .word, v => ∃ t l, v = .item (.term .word t l)
  | .item, v => ∃ t, v = .item t
  | .tok k, v => ∃ tv, v = .tok k tv

/-- `v` is a value that the symbol `X` can carry -/
def ValOf (X : String) (v : Val) : Prop := (symKind X).Holds v

/-- a shifted token carries a value of the kind of its terminal -/
theorem valOf_tok (t : Tok) : ValOf t.kind.name t.toVal := by
  unfold ValOf Tok.toVal
  cases hk : t.kind <;> simp [TokK.name, symKind, SymK.Holds]

/-- the values (top of the stack first) carried by the symbols `ks` (last symbol first) -/
def ValsOf : List SymK → List Val → Prop
  | [], [] => True
  | k :: ks, v :: vs => k.Holds v ∧ ValsOf ks vs
  | _, _ => False

/-- `P` holds for all lists of values of the kinds `ks` -/
def AllVals : List SymK → (List Val → Prop) → Prop
  | [], P => P []
  | .word :: r, P => ∀ t l, AllVals r (fun vs => P (.item (.term .word t l) :: vs))
  | .item :: r, P => ∀ t, AllVals r (fun vs => P (.item t :: vs))
  | .tok k :: r, P => ∀ tv, AllVals r (fun vs => P (.tok k tv :: vs))

theorem allVals_elim : ∀ (ks : List SymK) (P : List Val → Prop) (vs : List Val),
    AllVals ks P → ValsOf ks vs → P vs
  | [], P, [], h, _ => h
  | [], _, _ :: _, _, hv => by simp [ValsOf] at hv
  | _ :: _, _, [], _, hv => by simp [ValsOf] at hv
  | .word :: r, P, v :: vs, h, hv => by
    obtain ⟨⟨t, l, rfl⟩, hvs⟩ := hv
    exact allVals_elim r _ vs (h t l) hvs
  | .item :: r, P, v :: vs, h, hv => by
    obtain ⟨⟨t, rfl⟩, hvs⟩ := hv
    exact allVals_elim r _ vs (h t) hvs
  | .tok k :: r, P, v :: vs, h, hv => by
    obtain ⟨⟨tv, rfl⟩, hvs⟩ := hv
    exact allVals_elim r _ vs (h tv) hvs

/-! ### outcomes without internal error -/

/-- an outcome that is an item, or an error of luqum -/
def Good : Except ParseErr Val → Prop
  | .ok v => ∃ t, v = .item t
  | .error e => ∀ m, e ≠ .internal m

theorem good_intNum (a : TokV) (f : Num → Tree) :
    Good (match intNum a with | .ok n => .ok (.item (f n)) | .error err => .error err) := by
  cases h : intNum a with
  | ok n => exact ⟨_, rfl⟩
  | error e =>
    obtain ⟨t, p, rfl⟩ := intNum_err h
    intro m hm; cases hm

theorem good_decNum (a : TokV) (d : Dec) (f : Num → Tree) :
    Good (match decNum a d with | .ok n => .ok (.item (f n)) | .error err => .error err) := by
  cases h : decNum a d with
  | ok n => exact ⟨_, rfl⟩
  | error e =>
    obtain ⟨t, p, rfl⟩ := decNum_err h
    intro m hm; cases hm

/-- the semantic action of the production accepts values of the kinds of its right-hand side, and
yields an item (or an invalid-number error) -/
def ProdActOK (p : String × List String × String) : Prop :=
  AllVals (p.2.1.reverse.map symKind) (fun vs => Good (act p.2.2 vs.reverse))

/-! ### paths of the automaton -/

/-- the automaton goes from `s0` to `s` on the symbol `X` (a shift or a goto) -/
def Tables.Edge (T : Tables) (s0 : Nat) (X : String) (s : Nat) : Prop :=
  (∃ a, T.act? s0 X = some a ∧ a > 0 ∧ a.toNat = s) ∨ (∃ g, T.goto? s0 X = some g ∧ g.toNat = s)

/-- **LR stack consistency**: the state stack is a path from state 0 and every value has the kind
of the symbol by which its state was entered -/
inductive Inv (T : Tables) : List Nat → List Val → Prop
  | base : Inv T [0] []
  | push {s0 : Nat} {ss : List Nat} {vs : List Val} {X : String} {s : Nat} {v : Val} :
      Inv T (s0 :: ss) vs → T.Edge s0 X s → ValOf X v → Inv T (s :: s0 :: ss) (v :: vs)

/-- every path of the automaton that ends in `s` spells (backwards) the symbols `rhsRev` and starts
in a state that has a goto on `lhs` -/
def BackOK (T : Tables) (lhs : String) : List String → Nat → Prop
  | [], s => ∃ g, T.goto? s lhs = some g
  | X :: rest, s => s ≠ 0 ∧ ∀ s0 Y, T.Edge s0 Y s → Y = X ∧ BackOK T lhs rest s0

theorem inv_back {T : Tables} {lhs : String} : ∀ (rhsRev : List String) (s : Nat) (ss : List Nat)
    (vs : List Val), Inv T (s :: ss) vs → BackOK T lhs rhsRev s →
    rhsRev.length ≤ vs.length ∧ ValsOf (rhsRev.map symKind) (vs.take rhsRev.length) ∧
    (∃ s' ss', (s :: ss).drop rhsRev.length = s' :: ss' ∧ Inv T (s' :: ss') (vs.drop rhsRev.length) ∧
      ∃ g, T.goto? s' lhs = some g)
  | [], s, ss, vs, hI, hB => by
    refine ⟨Nat.zero_le _, ?_, s, ss, rfl, hI, hB⟩
    simp [ValsOf]
  | X :: rest, s, ss, vs, hI, hB => by
    obtain ⟨hs0, hall⟩ := hB
    cases hI with
    | base => exact absurd rfl hs0
    | push hI' hE hV =>
      rename_i s0 ss' vs' Y v
      obtain ⟨rfl, hB'⟩ := hall _ _ hE
      obtain ⟨h1, h2, s', ss'', h3, h4, h5⟩ := inv_back rest s0 ss' vs' hI' hB'
      refine ⟨by simp; omega, ?_, s', ss'', ?_, ?_, h5⟩
      · simp only [List.map_cons, List.length_cons, List.take_succ_cons, ValsOf]
        exact ⟨hV, h2⟩
      · simpa using h3
      · simpa using h4

/-! ### the facts about the tables -/

structure ConsOK (T : Tables) : Prop where
  /-- accept only in the `$end` column -/
  acceptEnd : ∀ s (k : TokK), T.act? s k.name ≠ some 0
  /-- no shift in the `$end` column -/
  endNoShift : ∀ s a, T.act? s "$end" = some a → a ≤ 0
  /-- the initial state does not accept -/
  acc0 : T.act? 0 "$end" ≠ some 0
  /-- an accepting state is entered on a symbol that carries an item -/
  accItem : ∀ s0 X s, T.Edge s0 X s → T.act? s "$end" = some 0 → symKind X = .item
  /-- every reduce action: the action function is total on the kinds of the right-hand side, the
  left-hand side carries items, and the stack below has the shape of the right-hand side -/
  red : ∀ s name a, T.act? s name = some a → a < 0 →
    ProdActOK (T.prods.getD (-a).toNat ("", [], "")) ∧
    symKind (T.prods.getD (-a).toNat ("", [], "")).1 = .item ∧
    BackOK T (T.prods.getD (-a).toNat ("", [], "")).1
      (T.prods.getD (-a).toNat ("", [], "")).2.1.reverse s

/-! ### one step -/

/-- what a step from a consistent configuration can be -/
inductive StepGood (T : Tables) : StepResult → Prop
  | shift {c : Cfg} : Inv T c.states c.vals → StepGood T (.shift c)
  | reduce {c : Cfg} : Inv T c.states c.vals → StepGood T (.reduce c)
  | accept (t : Tree) : StepGood T (.accept (.item t))
  | error {e : ParseErr} : (∀ m, e ≠ .internal m) → StepGood T (.error e)

theorem inv_states_ne {T : Tables} {ss : List Nat} {vs : List Val} (h : Inv T ss vs) :
    ∃ s r, ss = s :: r := by
  cases h <;> exact ⟨_, _, rfl⟩

theorem reduceBy_good {T : Tables} (hT : ConsOK T) {c : Cfg} (hI : Inv T c.states c.vals)
    {name : String} {a : Int} (ha : T.act? (c.states.headD 0) name = some a) (hneg : a < 0) :
    StepGood T (reduceBy T c (T.prods.getD (-a).toNat ("", [], ""))) := by
  obtain ⟨hact, hlhs, hback⟩ := hT.red _ _ _ ha hneg
  generalize T.prods.getD (-a).toNat ("", [], "") = p at hact hlhs hback
  obtain ⟨s, ss, hss⟩ := inv_states_ne hI
  rw [hss] at hI
  rw [hss, List.headD_cons] at hback
  obtain ⟨hlen, hvals, s', ss', hdrop, hI', g, hg⟩ := inv_back _ _ _ _ hI hback
  simp only [List.length_reverse] at hlen hvals hdrop hI'
  have hgood := allVals_elim _ _ _ hact (by simpa using hvals)
  unfold reduceBy
  rw [if_neg (by simp; omega)]
  cases hres : act p.2.2 (c.vals.take p.2.1.length).reverse with
  | error e =>
    rw [hres] at hgood
    exact .error hgood
  | ok v =>
    rw [hres] at hgood
    obtain ⟨t, rfl⟩ := hgood
    simp only
    rw [hss, hdrop, List.headD_cons, hg]
    refine .reduce ?_
    simp only
    exact .push hI' (Or.inr ⟨g, hg, rfl⟩) (by unfold ValOf; rw [hlhs]; exact ⟨t, rfl⟩)

theorem step_good {T : Tables} (hT : ConsOK T) {c : Cfg} (hI : Inv T c.states c.vals)
    (look : Option Tok) : StepGood T (step T c look) := by
  obtain ⟨states, vals⟩ := c
  simp only at hI
  rw [step_eq]
  simp only
  split
  · split
    · exact .error (fun m h => by cases h)
    · exact .error (fun m h => by cases h)
  · rename_i a ha
    split
    · rename_i hpos
      split
      · rename_i t
        obtain ⟨s, ss, hss⟩ := inv_states_ne hI
        refine .shift ?_
        simp only
        rw [hss] at hI ⊢
        refine .push hI (Or.inl ⟨a, ?_, hpos, rfl⟩) (valOf_tok t)
        simpa [hss, lookName] using ha
      · exact absurd (hT.endNoShift _ _ ha) (by omega)
    · split
      · rename_i hneg
        exact reduceBy_good hT hI ha hneg
      · have h0 : a = 0 := by omega
        subst h0
        have hlook : look = none := by
          cases look with
          | none => rfl
          | some t => exact absurd ha (hT.acceptEnd _ _)
        subst hlook
        simp only [lookName] at ha
        split
        · rename_i v r
          cases hI with
          | push hI' hE hV =>
            simp only [List.headD_cons] at ha
            have := hT.accItem _ _ _ hE ha
            unfold ValOf at hV
            rw [this] at hV
            obtain ⟨t, rfl⟩ := hV
            exact .accept t
        · cases hI with
          | base => exact absurd ha hT.acc0

/-! ### the loop -/

/-- **no internal error**: from a consistent configuration, with more fuel than the measure, the
loop ends with an item or with an error of luqum -/
theorem runLoop_good {T : Tables} {rank : Nat → Nat} (hT : ConsOK T) (hF : FuelOK T rank) :
    ∀ (fuel : Nat) (c : Cfg) (toks : List Tok) (lerr : Option LexErr),
      Inv T c.states c.vals → potential rank c toks < fuel → Good (runLoop T fuel c toks lerr) := by
  intro fuel
  induction fuel with
  | zero => intro c toks lerr _ h; omega
  | succ fuel ih =>
    intro c toks lerr hI hpot
    unfold runLoop
    split
    · intro m h; cases h
    · have hg := step_good hT hI toks.head?
      split
      · rename_i c' hs
        rw [hs] at hg
        cases hg with
        | shift hI' =>
          obtain ⟨t, a, hl, _⟩ := step_shift hs
          cases toks with
          | nil => simp at hl
          | cons t' rest =>
            simp at hl; subst hl
            have := potential_shift rank (toks := rest) hs
            exact ih c' rest lerr hI' (by omega)
      · rename_i c' hs
        rw [hs] at hg
        cases hg with
        | reduce hI' =>
          have := potential_reduce hF (toks := toks) hs
          exact ih c' toks lerr hI' (by omega)
      · rename_i v hs
        rw [hs] at hg
        cases hg with
        | accept t => exact ⟨t, rfl⟩
      · rename_i e hs
        rw [hs] at hg
        cases hg with
        | error h => exact h

/-- the parse of a string never ends with an internal error -/
theorem parseWith_never_internal {T : Tables} {rank : Nat → Nat} (hT : ConsOK T) (hF : FuelOK T rank)
    (s : Str) (m : String) : parseWith T s ≠ .error (.internal m) := by
  unfold parseWith
  simp only
  have hpot : potential rank { states := [0], vals := [] } (lex s).1 < parseFuel (lex s).1.length := by
    simp only [potential, parseFuel, List.length_nil, List.headD_cons]
    omega
  have := runLoop_good hT hF (parseFuel (lex s).1.length) { states := [0], vals := [] } (lex s).1 (lex s).2
    .base hpot
  generalize runLoop T (parseFuel (lex s).1.length) { states := [0], vals := [] } (lex s).1 (lex s).2 = r at this
  cases r with
  | error e => exact fun h => this m (by injection h)
  | ok v =>
    obtain ⟨t, rfl⟩ := this
    intro h; cases h

end Luqum

namespace Luqum

/-! ### checkable form of `ConsOK` -/

/-- no row is longer than the list of its column names -/
def Tables.rowsOK (T : Tables) : Bool :=
  T.action.all (fun r => decide (r.size ≤ T.terminals.length)) &&
  T.goto.all (fun r => decide (r.size ≤ T.nonterminals.length))

/-- all transitions of the automaton -/
def Tables.edges (T : Tables) : List (Nat × String × Nat) :=
  ((List.range T.action.size).flatMap fun s0 =>
    (List.range (T.action.getD s0 #[]).size).filterMap fun j =>
      match (T.action.getD s0 #[]).getD j none with
      | some a => if a > 0 then some (s0, T.terminals.getD j "", a.toNat) else none
      | none => none) ++
  ((List.range T.goto.size).flatMap fun s0 =>
    (List.range (T.goto.getD s0 #[]).size).filterMap fun j =>
      match (T.goto.getD s0 #[]).getD j none with
      | some g => some (s0, T.nonterminals.getD j "", g.toNat)
      | none => none)

theorem getD_some_lt {α : Type} {xs : Array (Option α)} {i : Nat} {a : α}
    (h : xs.getD i none = some a) : i < xs.size := by
  unfold Array.getD at h
  split at h
  · assumption
  · cases h

theorem getD_idxOf {names : List String} {X : String} (h : names.idxOf X < names.length) :
    names.getD (names.idxOf X) "" = X := by
  rw [List.getD_eq_getElem?_getD, List.getElem?_eq_getElem h, Option.getD_some, List.getElem_idxOf]

theorem mem_edges {T : Tables} (hR : T.rowsOK = true) {s0 : Nat} {X : String} {s : Nat}
    (hE : T.Edge s0 X s) : (s0, X, s) ∈ T.edges := by
  simp only [Tables.rowsOK, Bool.and_eq_true, Array.all_eq_true_iff_forall_mem, decide_eq_true_eq] at hR
  unfold Tables.edges
  rw [List.mem_append]
  rcases hE with ⟨a, ha, hpos, rfl⟩ | ⟨g, hg, rfl⟩
  · left
    unfold Tables.act? at ha
    obtain ⟨hs0, _, hrow⟩ := getD_getD_some ha
    have hj := getD_some_lt ha
    have hj' : T.termIdx X < T.terminals.length := Nat.lt_of_lt_of_le hj (hR.1 _ hrow)
    rw [List.mem_flatMap]
    refine ⟨s0, List.mem_range.2 hs0, ?_⟩
    rw [List.mem_filterMap]
    refine ⟨T.termIdx X, List.mem_range.2 hj, ?_⟩
    rw [ha]
    simp only [if_pos hpos]
    unfold Tables.termIdx at hj' ⊢
    rw [getD_idxOf hj']
  · right
    unfold Tables.goto? at hg
    obtain ⟨hs0, _, hrow⟩ := getD_getD_some hg
    have hj := getD_some_lt hg
    have hj' : T.ntIdx X < T.nonterminals.length := Nat.lt_of_lt_of_le hj (hR.2 _ hrow)
    rw [List.mem_flatMap]
    refine ⟨s0, List.mem_range.2 hs0, ?_⟩
    rw [List.mem_filterMap]
    refine ⟨T.ntIdx X, List.mem_range.2 hj, ?_⟩
    rw [hg]
    simp only
    unfold Tables.ntIdx at hj' ⊢
    rw [getD_idxOf hj']

/-- `BackOK` over an explicit list of transitions -/
def backOKb (T : Tables) (E : List (Nat × String × Nat)) (lhs : String) : List String → Nat → Bool
  | [], s => (T.goto? s lhs).isSome
  | X :: rest, s => s != 0 && E.all fun e => e.2.2 != s || (e.2.1 == X && backOKb T E lhs rest e.1)

theorem backOK_of_b {T : Tables} {E : List (Nat × String × Nat)} {lhs : String}
    (hE : ∀ s0 X s, T.Edge s0 X s → (s0, X, s) ∈ E) :
    ∀ (rhsRev : List String) (s : Nat), backOKb T E lhs rhsRev s = true → BackOK T lhs rhsRev s
  | [], s, h => by
    simp only [backOKb, Option.isSome_iff_exists] at h
    exact h
  | X :: rest, s, h => by
    simp only [backOKb, Bool.and_eq_true, bne_iff_ne, ne_eq, List.all_eq_true, Bool.or_eq_true,
      beq_iff_eq] at h
    refine ⟨h.1, fun s0 Y hedge => ?_⟩
    rcases h.2 _ (hE _ _ _ hedge) with h' | ⟨h1, h2⟩
    · exact absurd rfl h'
    · exact ⟨h1, backOK_of_b hE rest s0 h2⟩

def endNoShiftOK (T : Tables) : Bool :=
  (List.range T.action.size).all fun s =>
    match T.act? s "$end" with
    | some a => decide (a ≤ 0)
    | none => true

def accItemOK (T : Tables) (E : List (Nat × String × Nat)) : Bool :=
  T.act? 0 "$end" != some 0 &&
  E.all fun e => T.act? e.2.2 "$end" != some 0 || symKind e.2.1 == .item

/-- every reduce action uses a production of `G` whose left-hand side carries items, and all paths
into the state spell the right-hand side -/
def reducesOK (T : Tables) (E : List (Nat × String × Nat)) (G : List (String × List String × String)) :
    Bool :=
  (List.range T.action.size).all fun s => (T.action.getD s #[]).toList.eraseDups.all fun e =>
    match e with
    | some a => decide (a ≥ 0) ||
        (G.contains (T.prods.getD (-a).toNat ("", [], "")) &&
         symKind (T.prods.getD (-a).toNat ("", [], "")).1 == .item &&
         backOKb T E (T.prods.getD (-a).toNat ("", [], "")).1
           (T.prods.getD (-a).toNat ("", [], "")).2.1.reverse s)
    | none => true

theorem consOK_of_checks {T : Tables} {G : List (String × List String × String)}
    (hG : ∀ p ∈ G, ProdActOK p) (h0 : T.rowsOK = true) (h1 : acceptOnlyAtEnd T = true)
    (h2 : endNoShiftOK T = true) (h3 : accItemOK T T.edges = true)
    (h4 : reducesOK T T.edges G = true) : ConsOK T := by
  have hE : ∀ s0 X s, T.Edge s0 X s → (s0, X, s) ∈ T.edges := fun _ _ _ h => mem_edges h0 h
  simp only [accItemOK, Bool.and_eq_true, bne_iff_ne, ne_eq, List.all_eq_true, Bool.or_eq_true,
    beq_iff_eq] at h3
  refine ⟨fun s k => ?_, fun s a ha => ?_, h3.1, fun s0 X s hedge hacc => ?_, fun s name a ha hneg => ?_⟩
  · by_cases hs : s < T.action.size
    · simp only [acceptOnlyAtEnd, List.all_eq_true, List.mem_range] at h1
      simpa using h1 s hs k (mem_allKinds k)
    · simp [Tables.act?, Array.getD, hs]
  · obtain ⟨hs, _, _⟩ := getD_getD_some ha
    simp only [endNoShiftOK, List.all_eq_true, List.mem_range] at h2
    have := h2 s hs
    rw [ha] at this
    simpa using this
  · rcases h3.2 _ (hE _ _ _ hedge) with h | h
    · exact absurd hacc h
    · exact h
  · obtain ⟨hs, hm, _⟩ := getD_getD_some ha
    simp only [reducesOK, List.all_eq_true, List.mem_range, List.mem_eraseDups, Array.mem_toList_iff] at h4
    have := h4 s hs _ hm
    simp only [Bool.or_eq_true, Bool.and_eq_true, decide_eq_true_eq, beq_iff_eq,
      List.contains_iff_mem] at this
    rcases this with h | ⟨⟨hg, hl⟩, hb⟩
    · omega
    · exact ⟨hG _ hg, hl, backOK_of_b hE _ _ hb⟩

end Luqum
