/-
  Luqum.Lemmas.Kf1Flat — known finding KF1, exactly: what the run keeps of the text when blanks
  may stand before a `:`.

  The "expected text" of a sequence of stack values, `flatsK`, skips the tail of every value that is
  directly followed by a `:` token.  Every shift keeps it; every reduction keeps it, *unless* the
  sequence holds a `:` that can never be consumed (`Bad`: a `:` at the very start, or one whose
  predecessor is neither a `Word` nor a `TO` token) -- and such a sequence never leads to an accepted
  item.  Table independent, like `RunLossless`.
-/
import Luqum.Lemmas.RunLossless
import Luqum.Lemmas.LexLossless

namespace Luqum

/-! ### values without their tail -/

/-- the source text of a value, its tail excepted -/
def Val.flatNT : Val → Str
  | .tok k v => v.lay.head ++ tokText k v.value
  | .item t => t.head ++ t.body .raw

theorem Val.flat_eq_flatNT {v : Val} (h : v.good) : v.flat = v.flatNT ++ v.lay.tail := by
  cases v with
  | tok k v => simp [Val.flat, Val.flatNT, Val.lay]
  | item t =>
    simp only [Val.flat, Val.flatNT, Val.lay]
    rw [Tree.full_eq _ _ (Tree.good_not_none h)]; rfl

/-- is the value that follows (the first of `r`, or what `b` says when `r` is empty) a `:` token? -/
def nextColon (r : List Val) (b : Bool) : Bool :=
  match r with
  | [] => b
  | x :: _ => x.isColon

/-- the expected text: the tail of a value directly followed by a `:` token is skipped; `b` says
whether a `:` follows the whole sequence -/
def flatsK (b : Bool) : List Val → Str
  | [] => []
  | a :: r => (if nextColon r b then a.flatNT else a.flat) ++ flatsK b r

theorem nextColon_append (xs ys : List Val) (b : Bool) :
    nextColon (xs ++ ys) b = nextColon xs (nextColon ys b) := by
  cases xs <;> rfl

theorem flatsK_append (b : Bool) : ∀ (xs ys : List Val),
    flatsK b (xs ++ ys) = flatsK (nextColon ys b) xs ++ flatsK b ys
  | [], ys => by simp [flatsK]
  | x :: r, ys => by
    simp only [List.cons_append, flatsK, nextColon_append, flatsK_append b r ys, List.append_assoc]

theorem nextColon_noColon {l : List Val} (h : ∀ x ∈ l, x.isColon = false) :
    nextColon l false = false := by
  cases l with
  | nil => rfl
  | cons x r => exact h x (by simp)

theorem flatsK_noColon : ∀ (l : List Val), (∀ x ∈ l, x.isColon = false) → flatsK false l = flats l
  | [], _ => rfl
  | a :: r, h => by
    have hr : ∀ x ∈ r, x.isColon = false := fun x hx => h x (by simp [hx])
    simp [flatsK, nextColon_noColon hr, flatsK_noColon r hr]

/-! ### colons that can never be consumed -/

/-- may still become the name of a `SearchField`: a `Word`, or a `TO` token (which
`p_to_as_term` turns into a `Word`) -/
def Val.isName : Val → Bool
  | .item (.term .word _ _) => true
  | .tok .to _ => true
  | _ => false

/-- `Bad p l`: `l` holds a `:` token whose predecessor is not a name (`p` says whether the value
before `l` is one) -/
def Bad : Bool → List Val → Prop
  | _, [] => False
  | p, a :: r => (a.isColon = true ∧ p = false) ∨ Bad a.isName r

/-- is the last value a name (`p` for the empty list)? -/
def lastName : List Val → Bool → Bool
  | [], p => p
  | a :: r, _ => lastName r a.isName

theorem lastName_append : ∀ (xs ys : List Val) (p : Bool),
    lastName (xs ++ ys) p = lastName ys (lastName xs p)
  | [], _, _ => rfl
  | x :: r, ys, _ => by simp only [List.cons_append, lastName, lastName_append r ys]

theorem bad_append : ∀ (xs ys : List Val) (p : Bool),
    Bad p (xs ++ ys) ↔ Bad p xs ∨ Bad (lastName xs p) ys
  | [], ys, p => by simp [Bad, lastName]
  | x :: r, ys, p => by
    simp only [List.cons_append, Bad, lastName, bad_append r ys, or_assoc]

theorem bad_mono {p : Bool} : ∀ {l : List Val}, Bad p l → Bad false l
  | [], h => h
  | a :: r, h => by
    simp only [Bad] at h
    show (a.isColon = true ∧ false = false) ∨ Bad a.isName r
    rcases h with ⟨h1, _⟩ | h
    · exact Or.inl ⟨h1, rfl⟩
    · exact Or.inr h

theorem bad_noColon {p : Bool} : ∀ {l : List Val}, (∀ x ∈ l, x.isColon = false) → ¬ Bad p l
  | [], _, h => h
  | a :: r, hl, h => by
    simp only [Bad] at h
    rcases h with ⟨h1, _⟩ | h
    · rw [hl a (by simp)] at h1; cases h1
    · exact bad_noColon (fun x hx => hl x (by simp [hx])) h

/-! ### the four kinds of semantic actions, as far as `:` tokens are concerned -/

inductive ActKind : List Val → Val → Prop
  | unit (v : Val) : ActKind [v] v
  | toTerm (t : TokV) (pos size : Option Int) :
      ActKind [.tok .to t]
        (.item (.term .word (t.value.getD [])
          { head := t.lay.head, tail := t.lay.tail, pos := pos, size := size }))
  | field (name : Str) (nl : Lay) (c : TokV) (e : Tree) (pos size : Option Int) :
      ActKind [.item (.term .word name nl), .tok .column c, .item e]
        (.item (.field name ((toFieldGroup e).setHead (c.lay.tail ++ (toFieldGroup e).head))
          { head := nl.head, tail := [], pos := pos, size := size }))
  | other (args : List Val) (v : Val) (hc : ∀ x ∈ args, x.isColon = false)
      (hn : v.isName = false) (hv : v.isColon = false) (hne : args ≠ []) : ActKind args v

theorem binaryOp_isName (k : OpK) (a b : Tree) (ol : Option Lay) :
    (Val.item (binaryOp k a ol b)).isName = false ∧ (Val.item (binaryOp k a ol b)).isColon = false := by
  obtain ⟨pos, size, he⟩ := binaryOp_eq k a b ol
  rw [he]; exact ⟨rfl, rfl⟩

/-- inversion of `act` -/
theorem act_kind {f : String} {args : List Val} {v : Val} (h : act f args = .ok v) :
    ActKind args v := by
  unfold act at h
  split at h
  all_goals try (simp at h; done)
  all_goals try (cases h; exact .unit _)
  case h_1 =>
    cases h
    exact .other _ _ (by simp [Val.isColon]) (binaryOp_isName ..).1 (binaryOp_isName ..).2 (by simp)
  case h_2 =>
    cases h
    exact .other _ _ (by simp [Val.isColon]) (binaryOp_isName ..).1 (binaryOp_isName ..).2 (by simp)
  case h_3 =>
    cases h
    exact .other _ _ (by simp [Val.isColon]) (binaryOp_isName ..).1 (binaryOp_isName ..).2 (by simp)
  case h_4 => cases h; exact .other _ _ (by simp [Val.isColon]) rfl rfl (by simp)
  case h_5 => cases h; exact .other _ _ (by simp [Val.isColon]) rfl rfl (by simp)
  case h_6 => cases h; exact .other _ _ (by simp [Val.isColon]) rfl rfl (by simp)
  case h_8 => split at h; cases h; exact .other _ _ (by simp [Val.isColon]) rfl rfl (by simp)
  case h_9 => split at h; cases h; exact .other _ _ (by simp [Val.isColon]) rfl rfl (by simp)
  case h_10 => cases h; exact .other _ _ (by simp [Val.isColon]) rfl rfl (by simp)
  case h_13 => cases h; exact .other _ _ (by simp [Val.isColon]) rfl rfl (by simp)
  case h_14 => cases h; exact .other _ _ (by simp [Val.isColon]) rfl rfl (by simp)
  case h_15 =>
    rename_i name nl c e
    have h' : Val.item (.field name ((toFieldGroup e).setHead (c.lay.tail ++ (toFieldGroup e).head))
        { head := nl.head, tail := [],
          pos := (mgrPos [nl, c.lay, (toFieldGroup e).lay] true false).1,
          size := (mgrPos [nl, c.lay, (toFieldGroup e).lay] true false).2 }) = v := Except.ok.inj h
    subst h'; exact .field _ _ _ _ _ _
  case h_17 =>
    split at h
    · cases h; exact .other _ _ (by simp [Val.isColon]) rfl rfl (by simp)
    · cases h
  case h_18 =>
    split at h
    · cases h; exact .other _ _ (by simp [Val.isColon]) rfl rfl (by simp)
    · cases h
  case h_20 =>
    split at h
    · cases h; exact .other _ _ (by simp [Val.isColon]) rfl rfl (by simp)
    · cases h
  case h_22 => split at h; cases h; exact .toTerm _ _ _

/-! ### well-formedness without the adjacency clause -/

/-- `SeqOK` without its `Adj` component (nothing is assumed about the tails before `:` tokens) -/
structure SeqOK0 (l : List Val) : Prop where
  good : AllGood l
  nf : AllNF l.tail

theorem adj_noColon : ∀ {l : List Val}, (∀ x ∈ l.tail, x.isColon = false) → Adj l
  | [], _ => trivial
  | [_], _ => trivial
  | a :: b :: r, h => by
    rw [adj_cons_cons]
    refine ⟨fun hb => ?_, adj_noColon (fun x hx => h x (by simp at hx ⊢; exact Or.inr hx))⟩
    rw [h b (by simp)] at hb; cases hb

theorem SeqOK0.mid {below args rest : List Val} (h : SeqOK0 (below ++ args ++ rest)) :
    SeqOK0 args := by
  obtain ⟨hg, hn⟩ := h
  refine ⟨fun v hv => hg v (by simp [hv]), fun v hv => ?_⟩
  cases args with
  | nil => simp at hv
  | cons x xs =>
    simp only [List.tail_cons] at hv
    cases below with
    | nil => exact hn v (by simp [hv])
    | cons b bs => exact hn v (by simp [hv])

/-- what a reduction guarantees besides the text -/
structure ActOK0 (args : List Val) (v : Val) : Prop where
  good : v.good
  nf : ∀ x, args.head? = some x → x.nonFirst → v.nonFirst
  ne : args ≠ []

/-- the arguments of `p_field_search` with the tail of the name emptied -/
theorem field_trim_ok {name : Str} {nl : Lay} {c : TokV} {e : Tree}
    (h0 : SeqOK0 [.item (.term .word name nl), .tok .column c, .item e]) :
    SeqOK [.item (.term .word name { nl with tail := [] }), .tok .column c, .item e] := by
  obtain ⟨hg, hn⟩ := h0
  refine ⟨fun v hv => ?_, fun v hv => hn v (by simpa using hv), ?_⟩
  · simp only [List.mem_cons, List.not_mem_nil, or_false] at hv
    rcases hv with rfl | rfl | rfl
    · trivial
    · exact hg _ (by simp)
    · exact hg _ (by simp)
  · exact ⟨fun _ => rfl, fun hc => by simp [Val.isColon] at hc, trivial⟩

theorem kind_ok0 {f : String} {args : List Val} {v : Val} (h : act f args = .ok v)
    (h0 : SeqOK0 args) : ActOK0 args v := by
  have hk := act_kind h
  cases hk with
  | unit v => exact ⟨h0.good v (by simp), by simp, by simp⟩
  | toTerm t pos size =>
    have := shape_ok (act_shape h) ⟨h0.good, h0.nf, adj_noColon (by simp)⟩
    exact ⟨this.good, this.nf, this.ne⟩
  | field name nl c e pos size =>
    have := shape_ok (ActShape.field name { nl with tail := [] } c e pos size) (field_trim_ok h0)
    refine ⟨this.good, fun x hx hxn => this.nf _ rfl ?_, by simp⟩
    simp only [List.head?_cons, Option.some.injEq] at hx
    subst hx
    exact hxn
  | other args v hc hn hv hne =>
    have := shape_ok (act_shape h) ⟨h0.good, h0.nf, adj_noColon (fun x hx => hc x (List.mem_of_mem_tail hx))⟩
    exact ⟨this.good, this.nf, this.ne⟩

/-- the text of a reduction: the result stands for the expected text of its arguments (`b`: is the
result followed by a `:`; then it has to be a name) -/
theorem kind_flatK {f : String} {args : List Val} {v : Val} (h : act f args = .ok v)
    (h0 : SeqOK0 args) (b : Bool) (hb : b = true → v.isName = true) :
    flatsK b [v] = flatsK b args := by
  have hk := act_kind h
  cases hk with
  | unit v => rfl
  | toTerm t pos size =>
    cases b <;> simp [flatsK, nextColon, Val.flatNT, Val.flat, Tree.full, Tree.head,
      Tree.body, Tree.lay, tokText]
  | field name nl c e pos size =>
    cases b with
    | true => exact absurd (hb rfl) (by simp [Val.isName])
    | false =>
      have := (shape_ok (ActShape.field name { nl with tail := [] } c e pos size)
        (field_trim_ok h0)).flat
      simp only [flatsK, nextColon, Val.isColon, if_true, List.append_nil, this, flats_cons,
        flats_nil]
      simp [Val.flat, Val.flatNT, Tree.full, Tree.head, Tree.body, Tree.lay]
  | other args v hc hn hv hne =>
    cases b with
    | true => rw [hn] at hb; exact absurd (hb rfl) (by simp)
    | false =>
      have := (shape_ok (act_shape h)
        ⟨h0.good, h0.nf, adj_noColon (fun x hx => hc x (List.mem_of_mem_tail hx))⟩).flat
      rw [flatsK_noColon args hc, ← this]
      simp [flatsK, nextColon]

theorem kind_colon {args : List Val} {v : Val} (hk : ActKind args v) (b : Bool) :
    nextColon [v] b = nextColon args b := by
  cases hk with
  | unit v => rfl
  | toTerm t pos size => rfl
  | field name nl c e pos size => rfl
  | other args v hc hn hv hne =>
    obtain ⟨x, xs, rfl⟩ := List.exists_cons_of_ne_nil hne
    simp only [nextColon, hv, hc x (by simp)]

theorem kind_bad {args : List Val} {v : Val} (hk : ActKind args v) (p : Bool)
    (h : Bad p args) : Bad p [v] := by
  cases hk with
  | unit v => exact h
  | toTerm t pos size => simp [Bad, Val.isColon] at h
  | field name nl c e pos size => simp [Bad, Val.isColon, Val.isName] at h
  | other args v hc hn hv hne => exact absurd h (bad_noColon hc)

theorem kind_name {args : List Val} {v : Val} (hk : ActKind args v) (p : Bool)
    (h : v.isName = true) : lastName args p = true := by
  cases hk with
  | unit v => exact h
  | toTerm t pos size => rfl
  | field name nl c e pos size => simp [Val.isName] at h
  | other args v hc hn hv hne => rw [hn] at h; cases h

/-! ### replacing a segment by the result of an action -/

theorem seqK_replace {f : String} {below args rest : List Val} {v : Val}
    (h0 : SeqOK0 (below ++ args ++ rest)) (hact : act f args = .ok v) :
    SeqOK0 (below ++ [v] ++ rest) ∧
    (Bad false (below ++ args ++ rest) → Bad false (below ++ [v] ++ rest)) ∧
    (¬ Bad false (below ++ [v] ++ rest) →
      flatsK false (below ++ [v] ++ rest) = flatsK false (below ++ args ++ rest)) := by
  have hk := act_kind hact
  obtain ⟨hgood, hnf, hne⟩ := kind_ok0 hact h0.mid
  refine ⟨?_, ?_, ?_⟩
  · obtain ⟨x, xs, rfl⟩ := List.exists_cons_of_ne_nil hne
    obtain ⟨hg, hn⟩ := h0
    refine ⟨?_, ?_⟩
    · intro w hw
      simp only [List.mem_append, List.mem_cons, List.not_mem_nil, or_false] at hw
      rcases hw with (hw | rfl) | hw
      · exact hg w (by simp [hw])
      · exact hgood
      · exact hg w (by simp [hw])
    · cases below with
      | nil =>
        intro w hw
        exact hn w (by simp at hw ⊢; exact Or.inr hw)
      | cons b bs =>
        intro w hw
        simp only [List.cons_append, List.tail_cons, List.mem_append, List.mem_cons,
          List.not_mem_nil, or_false] at hw
        rcases hw with (hw | rfl) | hw
        · exact hn w (by simp [hw])
        · exact hnf x rfl (hn x (by simp))
        · exact hn w (by simp [hw])
  · intro hbad
    rw [bad_append, bad_append] at hbad ⊢
    rcases hbad with (hb | hb) | hb
    · exact Or.inl (Or.inl hb)
    · exact Or.inl (Or.inr (kind_bad hk _ hb))
    · right
      rw [lastName_append] at hb ⊢
      cases hvn : v.isName with
      | true =>
        rw [kind_name hk _ hvn] at hb
        simpa [lastName, hvn] using hb
      | false => simpa [lastName, hvn] using bad_mono hb
  · intro hnb
    rw [flatsK_append, flatsK_append, flatsK_append, flatsK_append, kind_colon hk]
    congr 2
    apply kind_flatK hact h0.mid
    intro hb
    apply Classical.byContradiction
    intro hvn
    apply hnb
    rw [bad_append]
    right
    cases rest with
    | nil => simp [nextColon] at hb
    | cons c r =>
      have hvn' : v.isName = false := by simpa using hvn
      simp only [nextColon] at hb
      simp only [lastName_append, lastName, hvn', Bad]
      exact Or.inl ⟨hb, trivial⟩

/-! ### the run -/

/-- the sequence is well-formed and either doomed or still stands for `s` -/
def SpellsK (s : Str) (c : Cfg) (toks : List Tok) : Prop :=
  SeqOK0 (seqOf c toks) ∧ (Bad false (seqOf c toks) ∨ flatsK false (seqOf c toks) = s)

theorem spellsK_shift {T : Tables} {s : Str} (c : Cfg) (t : Tok) (toks : List Tok) (c' : Cfg)
    (hP : SpellsK s c (t :: toks)) (hs : step T c (some t) = .shift c') : SpellsK s c' toks := by
  obtain ⟨t', a, hl, _, _, rfl⟩ := step_shift hs
  cases hl
  have : seqOf { states := a.toNat :: c.states, vals := t.toVal :: c.vals } toks
      = seqOf c (t :: toks) := by simp [seqOf]
  unfold SpellsK
  rw [this]; exact hP

theorem spellsK_reduce {T : Tables} {s : Str} (c : Cfg) (toks : List Tok) (c' : Cfg)
    (hP : SpellsK s c toks) (hs : step T c toks.head? = .reduce c') : SpellsK s c' toks := by
  obtain ⟨n, f, lhs, v, g, hn, hact, _, rfl⟩ := step_reduce hs
  obtain ⟨hok, hfl⟩ := hP
  have e1 : seqOf c toks
      = (c.vals.drop n).reverse ++ (c.vals.take n).reverse ++ toks.map Tok.toVal := by
    simp only [seqOf, ← List.reverse_append, List.take_append_drop]
  have e2 : seqOf { states := g.toNat :: c.states.drop n, vals := v :: c.vals.drop n } toks
      = (c.vals.drop n).reverse ++ [v] ++ toks.map Tok.toVal := by
    simp [seqOf]
  rw [e1] at hok hfl
  obtain ⟨h1, h2, h3⟩ := seqK_replace hok hact
  unfold SpellsK
  rw [e2]
  refine ⟨h1, ?_⟩
  rcases hfl with hfl | hfl
  · exact Or.inl (h2 hfl)
  · by_cases hb : Bad false ((c.vals.drop n).reverse ++ [v] ++ toks.map Tok.toVal)
    · exact Or.inl hb
    · exact Or.inr ((h3 hb).trans hfl)

/-- **the run without the KF1 hypothesis**: with tables satisfying `TablesOK`, a successful run
over well-formed tokens met no lexer error and returns a value that is a `:` token (never the case
for the item `parse` wants) or stands for the text of the tokens in which the tail of everything
directly followed by a `:` is dropped -/
theorem runLoop_losslessK {T : Tables} (hT : TablesOK T) (fuel : Nat) (toks : List Tok)
    (lerr : Option LexErr) (v : Val) (hok : SeqOK0 (toks.map Tok.toVal))
    (h : runLoop T fuel { states := [0], vals := [] } toks lerr = .ok v) :
    lerr = none ∧ toks ≠ [] ∧
      (v.isColon = true ∨ v.flat = flatsK false (toks.map Tok.toVal)) := by
  have hne : toks ≠ [] := by
    rintro rfl; exact runLoop_nil T fuel [0] lerr v h
  have := runLoop_ok (T := T)
    (P := fun c tk => SpellsK (flatsK false (toks.map Tok.toVal)) c tk ∧ Shape T c)
    (fun c t tk c' hP hs => ⟨spellsK_shift c t tk c' hP.1 hs, shape_shift hT hP.2 hs⟩)
    (fun c tk c' hP hs => ⟨spellsK_reduce c tk c' hP.1 hs, shape_reduce hT hP.2 hs⟩)
    fuel { states := [0], vals := [] } toks lerr v
    ⟨⟨by simpa [seqOf] using hok, Or.inr (by simp [seqOf])⟩, shape_init T⟩ h
  obtain ⟨c', toks', ⟨⟨_, hfl⟩, hsh⟩, hacc, hl⟩ := this
  obtain ⟨hlook, hv⟩ := shape_accept hT hsh hacc
  have ht : toks' = [] := by cases toks' <;> simp at hlook ⊢
  subst ht
  refine ⟨hl rfl, hne, ?_⟩
  simp only [seqOf, hv, List.reverse_cons, List.reverse_nil, List.nil_append, List.map_nil,
    List.append_nil] at hfl
  rcases hfl with hfl | hfl
  · left
    simp only [Bad] at hfl
    rcases hfl with ⟨h1, _⟩ | hfl
    · exact h1
    · exact hfl.elim
  · right
    simpa [flatsK, nextColon] using hfl

/-- **a doomed sequence stays doomed**: if the tokens hold a `:` that can never be consumed (it is
the first token, or the token before it is neither a term nor `TO`), a successful run can only
return a `:` token value (never the item `parse` wants) -/
theorem runLoop_bad {T : Tables} (hT : TablesOK T) (fuel : Nat) (toks : List Tok)
    (lerr : Option LexErr) (v : Val) (hok : SeqOK0 (toks.map Tok.toVal))
    (hbad : Bad false (toks.map Tok.toVal))
    (h : runLoop T fuel { states := [0], vals := [] } toks lerr = .ok v) : v.isColon = true := by
  have := runLoop_ok (T := T)
    (P := fun c tk => (SeqOK0 (seqOf c tk) ∧ Bad false (seqOf c tk)) ∧ Shape T c)
    (fun c t tk c' hP hs => by
      refine ⟨?_, shape_shift hT hP.2 hs⟩
      obtain ⟨t', a, hl', _, _, rfl⟩ := step_shift hs
      cases hl'
      have e : seqOf { states := a.toNat :: c.states, vals := t.toVal :: c.vals } tk
          = seqOf c (t :: tk) := by simp [seqOf]
      rw [e]; exact hP.1)
    (fun c tk c' hP hs => by
      refine ⟨?_, shape_reduce hT hP.2 hs⟩
      obtain ⟨n, f, lhs, v, g, hn, hact, _, rfl⟩ := step_reduce hs
      have e1 : seqOf c tk
          = (c.vals.drop n).reverse ++ (c.vals.take n).reverse ++ tk.map Tok.toVal := by
        simp only [seqOf, ← List.reverse_append, List.take_append_drop]
      have e2 : seqOf { states := g.toNat :: c.states.drop n, vals := v :: c.vals.drop n } tk
          = (c.vals.drop n).reverse ++ [v] ++ tk.map Tok.toVal := by
        simp [seqOf]
      obtain ⟨h0, hb⟩ := hP.1
      rw [e1] at h0 hb
      rw [e2]
      obtain ⟨k1, k2, _⟩ := seqK_replace h0 hact
      exact ⟨k1, k2 hb⟩)
    fuel { states := [0], vals := [] } toks lerr v
    ⟨⟨by simpa [seqOf] using hok, by simpa [seqOf] using hbad⟩, shape_init T⟩ h
  obtain ⟨c', toks', ⟨⟨_, hb⟩, hsh⟩, hacc, _⟩ := this
  obtain ⟨hlook, hv⟩ := shape_accept hT hsh hacc
  have ht : toks' = [] := by cases toks' <;> simp at hlook ⊢
  subst ht
  simp only [seqOf, hv, List.reverse_cons, List.reverse_nil, List.nil_append, List.map_nil,
    List.append_nil, Bad] at hb
  rcases hb with ⟨h1, _⟩ | hb
  · exact h1
  · exact hb.elim

/-! ### tokens -/

/-- is the next token a `:`? -/
def nextIsColon : List Tok → Bool
  | t :: _ => t.kind == .column
  | [] => false

/-- the tokens, the tail of every token directly followed by a `:` token emptied (heads are kept: a
`:` token can only have a head when it is the first token, and then nothing parses) -/
def dropColonBlanks : List Tok → List Tok
  | [] => []
  | t :: r => (if nextIsColon r then { t with tail := [] } else t) :: dropColonBlanks r

theorem nextColon_toVal (r : List Tok) : nextColon (r.map Tok.toVal) false = nextIsColon r := by
  cases r with
  | nil => rfl
  | cons t r => simp [nextColon, nextIsColon, toVal_isColon]

theorem toVal_flatNT {t : Tok} (h : tokOK t.kind t.text) : t.toVal.flatNT = t.head ++ t.text := by
  obtain ⟨kind, text, pos, head, tail⟩ := t
  cases kind <;> simp only [tokOK] at h <;>
    simp [Tok.toVal, Val.flatNT, Tree.head, Tree.body, Tree.lay, tokText]
  all_goals
    obtain ⟨cs, rfl⟩ := h
    cases cs <;> simp

theorem flatsK_toVal : ∀ {toks : List Tok}, (∀ t ∈ toks, tokOK t.kind t.text) →
    flatsK false (toks.map Tok.toVal) = tflats (dropColonBlanks toks)
  | [], _ => rfl
  | t :: r, h => by
    have ih := flatsK_toVal (toks := r) (fun x hx => h x (by simp [hx]))
    simp only [List.map_cons, flatsK, nextColon_toVal, dropColonBlanks, tflats_cons, ih]
    cases nextIsColon r with
    | true => simp [toVal_flatNT (h t (by simp)), Tok.flat]
    | false => simp [toVal_flat (h t (by simp))]

theorem seqOK0_toVal {toks : List Tok} (h : ToksWF toks) : SeqOK0 (toks.map Tok.toVal) :=
  ⟨allGood_toVal h, allNF_toVal h⟩

/-- some `:` token is the first token, or directly follows a token that is neither a term nor `TO`
(`p`: is the token before the list a term or `TO`?) -/
def badColon : Bool → List Tok → Bool
  | _, [] => false
  | p, t :: r => (t.kind == .column && !p) || badColon (t.kind == .term || t.kind == .to) r

theorem toVal_isName (t : Tok) : t.toVal.isName = (t.kind == .term || t.kind == .to) := by
  obtain ⟨kind, text, pos, head, tail⟩ := t
  cases kind <;> rfl

theorem bad_of_badColon : ∀ {toks : List Tok} {p : Bool}, badColon p toks = true →
    Bad p (toks.map Tok.toVal)
  | [], _, h => by simp [badColon] at h
  | t :: r, p, h => by
    simp only [badColon, Bool.or_eq_true, Bool.and_eq_true, Bool.not_eq_true'] at h
    simp only [List.map_cons, Bad, toVal_isColon, toVal_isName]
    rcases h with h | h
    · exact Or.inl h
    · exact Or.inr (bad_of_badColon h)

end Luqum
