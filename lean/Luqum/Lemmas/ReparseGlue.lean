/-
  Luqum.Lemmas.ReparseGlue — three facts about the adjacency condition `gluesOK`:
  * it does not depend on how the numerals after `~` / `^` are spelled (`gluesOK_resp`,
    `Tree.gluesOK_style`): nothing ever looks past the marker character;
  * it follows from the chain condition (`gluesOK_of_chainOK`, the converse of
    `chainOK_of_gluesOK`);
  * a text has only one decomposition into pieces with given token texts and blank separators
    (`spell_inj`).
-/
import Luqum.Lemmas.RelexGlue

namespace Luqum

/-! ### numeral re-spelling of piece lists -/

/-- `~` or `^` -/
def isMark (m : Char) : Prop := m = '~' ∨ m = '^'

theorem isMark_not_colon {m : Char} (h : isMark m) : (m == ':') = false := by
  rcases h with rfl | rfl <;> decide

theorem isMark_not_digit {m : Char} (h : isMark m) : isDigitU m = false := by
  rcases h with rfl | rfl <;> decide +kernel

/-- the same separator and kind, and the same text or, for two `~…` / `^…` tokens, the same
marker -/
def Piece.Resp (p q : Piece) : Prop :=
  p.sep = q.sep ∧ p.kind = q.kind ∧
  (p.text = q.text ∨
    ((p.kind = .approx ∨ p.kind = .boost) ∧ ∃ m a b, isMark m ∧ p.text = m :: a ∧ q.text = m :: b))

theorem Piece.Resp.refl (p : Piece) : Piece.Resp p p := ⟨rfl, rfl, Or.inl rfl⟩

/-- piece lists that differ only in the spelling of numerals -/
inductive RespL : List Piece → List Piece → Prop
  | nil : RespL [] []
  | cons {p q : Piece} {ps qs : List Piece} : Piece.Resp p q → RespL ps qs → RespL (p :: ps) (q :: qs)

theorem RespL.refl : ∀ ps : List Piece, RespL ps ps
  | [] => .nil
  | p :: ps => .cons (Piece.Resp.refl p) (RespL.refl ps)

theorem RespL.append {ps qs ps' qs' : List Piece} (h1 : RespL ps qs) (h2 : RespL ps' qs') :
    RespL (ps ++ ps') (qs ++ qs') := by
  induction h1 with
  | nil => exact h2
  | cons hp _ ih => exact .cons hp ih

theorem startsDD_mark {m : Char} (hm : isMark m) (Y Z Z' : Str) :
    startsDD (Y ++ m :: Z) = startsDD (Y ++ m :: Z') := by
  have hd := isMark_not_digit hm
  match Y with
  | [] => cases Z <;> cases Z' <;> simp [startsDD, hd]
  | [y] => simp [startsDD, hd]
  | y1 :: y2 :: Y' => simp [startsDD]

theorem secOK_mark {m : Char} (hm : isMark m) (Y Z Z' : Str) :
    secOK (Y ++ m :: Z) = secOK (Y ++ m :: Z') := by
  rw [secOK_eq, secOK_eq]
  cases Y with
  | nil =>
    have := isMark_not_colon hm
    simp only [List.nil_append]
    split
    · rename_i r' heq
      simp only [List.cons.injEq] at heq
      rw [heq.1] at this; cases this
    · split
      · rename_i r' heq
        simp only [List.cons.injEq] at heq
        rw [heq.1] at this; cases this
      · rfl
  | cons c Y' =>
    simp only [List.cons_append]
    by_cases hc : c = ':'
    · subst hc; exact startsDD_mark hm Y' Z Z'
    · split
      · rename_i r' heq
        simp only [List.cons.injEq] at heq
        exact absurd heq.1 hc
      · split
        · rename_i r' heq
          simp only [List.cons.injEq] at heq
          exact absurd heq.1 hc
        · rfl

/-- the `:\d\d` test does not see how the numerals are spelled -/
theorem secOK_resp {tr : Str} {ps qs : List Piece} (h : RespL ps qs) :
    ∀ X : Str, secOK (X ++ spell ps tr) = secOK (X ++ spell qs tr) := by
  induction h with
  | nil => intro X; rfl
  | @cons p q ps qs hp _ ih =>
    intro X
    obtain ⟨hs, _, ht⟩ := hp
    simp only [spell]
    rcases ht with ht | ⟨_, m, a, b, hm, ha, hb⟩
    · have := ih (X ++ (p.sep ++ p.text))
      rw [hs, ht] at this ⊢
      simpa only [List.append_assoc] using this
    · rw [hs, ha, hb]
      have := secOK_mark hm (X ++ q.sep) (a ++ spell ps tr) (b ++ spell qs tr)
      simpa only [List.append_assoc, List.cons_append] using this

/-- the token before a `~…` / `^…` token only sees the marker -/
theorem followOK_mark_right {m : Char} (hm : isMark m) (k : TokK) (x a b : Str) :
    followOK k x (m :: a) = followOK k x (m :: b) := by
  have := isMark_not_colon hm
  cases k <;> simp [followOK, termStops, this]

/-- what follows a `~…` / `^…` token is judged without looking at the numeral -/
theorem followOK_mark_left {k : TokK} (hk : k = .approx ∨ k = .boost) (x x' r : Str) :
    followOK k x r = followOK k x' r := by
  rcases hk with rfl | rfl <;> rfl

theorem isTermKind_mark {k : TokK} (hk : k = .approx ∨ k = .boost) : isTermKind k = false := by
  rcases hk with rfl | rfl <;> rfl

/-- **the adjacency condition does not depend on the spelling of the numerals** -/
theorem gluesOK_resp (tr : Str) : ∀ {ps qs : List Piece}, RespL ps qs → gluesOK ps tr = gluesOK qs tr
  | _, _, .nil => rfl
  | _, _, .cons _ .nil => rfl
  | _, _, .cons (p := p) (q := p') hp (.cons (p := q) (q := q') (ps := rest) (qs := rest') hq hr) => by
    have ih := gluesOK_resp tr (RespL.cons hq hr)
    simp only [gluesOK]
    rw [ih]
    congr 1
    obtain ⟨_, hpk, hpt⟩ := hp
    obtain ⟨hqs, _, hqt⟩ := hq
    rw [hqs]
    congr 1
    -- the glue of `p` and `q`
    have hglue : glueOK p.kind p.text q.kind q.text = glueOK p'.kind p'.text q'.kind q'.text := by
      simp only [glueOK]
      have h1 : followOK p.kind p.text q.text = followOK p'.kind p'.text q.text := by
        rcases hpt with hpt | ⟨hk, _⟩
        · rw [hpk, hpt]
        · rw [← hpk]; exact followOK_mark_left hk _ _ _
      rw [h1]
      rcases hqt with hqt | ⟨_, m, a, b, hm, ha, hb⟩
      · rw [hqt]
      · rw [ha, hb]; exact followOK_mark_right hm _ _ _ _
    -- the time-expression clash
    have hclash : (isTermKind p.kind && timeClash p.text (q.text ++ spell rest tr)) =
        (isTermKind p'.kind && timeClash p'.text (q'.text ++ spell rest' tr)) := by
      rcases hpt with hpt | ⟨hk, _⟩
      · rw [← hpk, ← hpt]
        congr 1
        simp only [timeClash]
        congr 1
        rcases hqt with hqt | ⟨_, m, a, b, hm, ha, hb⟩
        · rw [← hqt]; exact secOK_resp hr q.text
        · rw [ha, hb]
          exact secOK_mark hm [] (a ++ spell rest tr) (b ++ spell rest' tr)
      · rw [← hpk, isTermKind_mark hk]; rfl
    rw [hglue, hclash]

/-! ### the two styles of a tree -/

theorem text_resp_approx (n : Num) (sep : Str) :
    Piece.Resp ⟨sep, .approx, '~' :: n.text .raw⟩ ⟨sep, .approx, '~' :: n.text .norm⟩ :=
  ⟨rfl, rfl, Or.inr ⟨Or.inl rfl, '~', _, _, Or.inl rfl, rfl, rfl⟩⟩

theorem text_resp_boost (n : Num) (sep : Str) :
    Piece.Resp ⟨sep, .boost, '^' :: n.text .raw⟩ ⟨sep, .boost, '^' :: n.text .norm⟩ :=
  ⟨rfl, rfl, Or.inr ⟨Or.inr rfl, '^', _, _, Or.inr rfl, rfl, rfl⟩⟩

mutual
/-- the pieces of a tree in the two styles differ only in the spelling of the numerals -/
theorem Tree.pcs_resp : ∀ (t : Tree) (pre : Str),
    RespL (t.pcs .raw pre).1 (t.pcs .norm pre).1 ∧ (t.pcs .raw pre).2 = (t.pcs .norm pre).2
  | .term k v l, pre => by cases k <;> exact ⟨RespL.refl _, rfl⟩
  | .field n e l, pre => by
    obtain ⟨h1, h2⟩ := Tree.pcs_resp e []
    simp only [Tree.pcs, h2]
    exact ⟨.cons (Piece.Resp.refl _) (.cons (Piece.Resp.refl _) h1), trivial⟩
  | .group k e l, pre => by
    obtain ⟨h1, h2⟩ := Tree.pcs_resp e []
    simp only [Tree.pcs, h2]
    exact ⟨.cons (Piece.Resp.refl _) (h1.append (RespL.refl _)), trivial⟩
  | .range a b il ih l, pre => by
    obtain ⟨h1, h2⟩ := Tree.pcs_resp a []
    obtain ⟨h3, h4⟩ := Tree.pcs_resp b []
    simp only [Tree.pcs, h2, h4, List.append_assoc]
    exact ⟨.cons (Piece.Resp.refl _) (h1.append (.cons (Piece.Resp.refl _)
      (h3.append (RespL.refl _)))), trivial⟩
  | .approx k t n l, pre => by
    obtain ⟨h1, h2⟩ := Tree.pcs_resp t (pre ++ l.head)
    simp only [Tree.pcs, h2]
    exact ⟨h1.append (.cons (text_resp_approx n _) .nil), trivial⟩
  | .boost e n l, pre => by
    obtain ⟨h1, h2⟩ := Tree.pcs_resp e (pre ++ l.head)
    simp only [Tree.pcs, h2]
    exact ⟨h1.append (.cons (text_resp_boost n _) .nil), trivial⟩
  | .op k [] l, pre => ⟨.nil, rfl⟩
  | .op k (x :: xs) l, pre => by
    obtain ⟨h1, h2⟩ := Tree.pcs_resp x (pre ++ l.head)
    obtain ⟨h3, h4⟩ := Tree.pcsTail_resp k xs (x.pcs .norm (pre ++ l.head)).2
    simp only [Tree.pcs, h2, h4]
    exact ⟨h1.append h3, trivial⟩
  | .unary k a l, pre => by
    obtain ⟨h1, h2⟩ := Tree.pcs_resp a []
    cases k <;> simp only [Tree.pcs, h2] <;> exact ⟨.cons (Piece.Resp.refl _) h1, trivial⟩
  | .orange k a inc l, pre => by
    obtain ⟨h1, h2⟩ := Tree.pcs_resp a []
    cases k <;> simp only [Tree.pcs, h2] <;> exact ⟨.cons (Piece.Resp.refl _) h1, trivial⟩
  | .none l, pre => ⟨.nil, rfl⟩
theorem Tree.pcsTail_resp (k : OpK) : ∀ (ys : List Tree) (pre : Str),
    RespL (Tree.pcsTail .raw k ys pre).1 (Tree.pcsTail .norm k ys pre).1 ∧
      (Tree.pcsTail .raw k ys pre).2 = (Tree.pcsTail .norm k ys pre).2
  | [], pre => ⟨.nil, rfl⟩
  | y :: r, pre => by
    rcases opTok_word k with ⟨h1, _, _⟩ | ⟨kk, w, h1, _, _⟩
    · obtain ⟨e1, e2⟩ := Tree.pcs_resp y pre
      obtain ⟨e3, e4⟩ := Tree.pcsTail_resp k r (y.pcs .norm pre).2
      simp only [Tree.pcsTail, h1, e2, e4]
      exact ⟨e1.append e3, trivial⟩
    · obtain ⟨e1, e2⟩ := Tree.pcs_resp y []
      obtain ⟨e3, e4⟩ := Tree.pcsTail_resp k r (y.pcs .norm []).2
      simp only [Tree.pcsTail, h1, e2, e4]
      exact ⟨.cons (Piece.Resp.refl _) (e1.append e3), trivial⟩
end

/-- **the adjacency condition of a tree is the same for the two styles of numerals** -/
theorem Tree.gluesOK_style (t : Tree) :
    gluesOK (t.pcs .norm []).1 (t.pcs .norm []).2 = gluesOK (t.pcs .raw []).1 (t.pcs .raw []).2 := by
  obtain ⟨h1, h2⟩ := Tree.pcs_resp t []
  rw [h2]
  exact (gluesOK_resp _ h1).symm

/-! ### the chain condition gives the local condition -/

theorem timeClash_of_followOK {k : TokK} {x r : Str} (hk : isTermKind k = true)
    (h : followOK k x r = true) : timeClash x r = false := by
  rw [followOK_termKind hk] at h
  cases r with
  | nil => simp [timeClash, secOK]
  | cons c r' =>
    simp only [termStops, Bool.and_eq_true, Bool.not_eq_true', bne_iff_ne, ne_eq] at h
    simp only [timeClash, secOK_eq]
    by_cases hc : c = ':'
    · subst hc
      simpa using h.2
    · split
      · rename_i r'' heq
        simp only [List.cons.injEq] at heq
        exact absurd heq.1 hc
      · simp

/-- **converse of `chainOK_of_gluesOK`** (for token texts that are not empty) -/
theorem gluesOK_of_chainOK : ∀ (ps : List Piece) (trail : Str), (∀ p ∈ ps, p.text ≠ []) →
    chainOK ps trail = true → gluesOK ps trail = true
  | [], _, _, _ => rfl
  | [_], _, _, _ => rfl
  | p :: q :: rest, trail, hne, hc => by
    have e : chainOK (p :: q :: rest) trail =
        (followOK p.kind p.text (spell (q :: rest) trail) && chainOK (q :: rest) trail) := rfl
    rw [e, Bool.and_eq_true] at hc
    have ih := gluesOK_of_chainOK (q :: rest) trail (fun x hx => hne x (List.mem_cons_of_mem _ hx)) hc.2
    simp only [gluesOK, Bool.and_eq_true, Bool.or_eq_true, Bool.not_eq_true',
      List.isEmpty_eq_false_iff]
    refine ⟨?_, ih⟩
    cases hs : q.sep with
    | cons c w => exact Or.inl (by simp)
    | nil =>
      right
      have hf := hc.1
      simp only [spell, hs, List.nil_append] at hf
      have hq : q.text ≠ [] := hne q (by simp)
      refine ⟨followOK_prefix hq hf, ?_⟩
      cases hk : isTermKind p.kind with
      | false => rfl
      | true => simpa using timeClash_of_followOK hk hf

/-! ### uniqueness of the decomposition -/

theorem blank_prefix_unique : ∀ (w₁ w₂ : Str) (c₁ c₂ : Char) (A B : Str), isBlank w₁ = true →
    isBlank w₂ = true → isSpace c₁ = false → isSpace c₂ = false →
    w₁ ++ c₁ :: A = w₂ ++ c₂ :: B → w₁ = w₂ ∧ c₁ :: A = c₂ :: B
  | [], [], _, _, _, _, _, _, _, _, h => ⟨rfl, by simpa using h⟩
  | [], d :: w₂, c₁, _, _, _, _, h2, h3, _, h => by
    simp only [List.nil_append, List.cons_append, List.cons.injEq] at h
    rw [isBlank_cons, Bool.and_eq_true] at h2
    rw [h.1, h2.1] at h3; cases h3
  | d :: w₁, [], _, c₂, _, _, h1, _, _, h4, h => by
    simp only [List.nil_append, List.cons_append, List.cons.injEq] at h
    rw [isBlank_cons, Bool.and_eq_true] at h1
    rw [← h.1, h1.1] at h4; cases h4
  | d₁ :: w₁, d₂ :: w₂, c₁, c₂, A, B, h1, h2, h3, h4, h => by
    simp only [List.cons_append, List.cons.injEq] at h
    rw [isBlank_cons, Bool.and_eq_true] at h1 h2
    obtain ⟨e1, e2⟩ := blank_prefix_unique w₁ w₂ c₁ c₂ A B h1.2 h2.2 h3 h4 h.2
    exact ⟨by rw [h.1, e1], e2⟩

/-- **a text has one decomposition only** into pieces with given kinds and (valid) token texts and
blank separators -/
theorem spell_inj : ∀ (ps qs : List Piece) (tr tr' : Str), ps.map Piece.key = qs.map Piece.key →
    (∀ p ∈ ps, isBlank p.sep = true) → (∀ q ∈ qs, isBlank q.sep = true) →
    (∀ p ∈ ps, validTok p.kind p.text = true) → spell ps tr = spell qs tr' → ps = qs ∧ tr = tr'
  | [], [], _, _, _, _, _, _, h => ⟨rfl, h⟩
  | [], _ :: _, _, _, hk, _, _, _, _ => by simp at hk
  | _ :: _, [], _, _, hk, _, _, _, _ => by simp at hk
  | p :: ps, q :: qs, tr, tr', hk, hb1, hb2, hv, h => by
    simp only [List.map_cons, List.cons.injEq, Piece.key, Prod.mk.injEq] at hk
    obtain ⟨⟨hkind, htext⟩, hk'⟩ := hk
    obtain ⟨c, xs, hx, hc⟩ := validTok_cons (hv p (by simp))
    simp only [spell, List.append_assoc] at h
    rw [← htext, hx] at h
    simp only [List.cons_append] at h
    obtain ⟨e1, e2⟩ := blank_prefix_unique _ _ _ _ _ _ (hb1 p (by simp)) (hb2 q (by simp)) hc hc h
    simp only [List.cons.injEq, true_and] at e2
    obtain ⟨e3, e4⟩ := spell_inj ps qs tr tr' hk' (fun x hx => hb1 x (List.mem_cons_of_mem _ hx))
      (fun x hx => hb2 x (List.mem_cons_of_mem _ hx))
      (fun x hx => hv x (List.mem_cons_of_mem _ hx)) (List.append_cancel_left e2)
    refine ⟨?_, e4⟩
    rw [e3]
    congr 1
    cases p; cases q
    simp only at e1 hkind htext
    rw [e1, hkind, htext]

end Luqum
