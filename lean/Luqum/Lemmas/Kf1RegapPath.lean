/-
  Luqum.Lemmas.Kf1RegapPath — known finding KF1: `regap` node by node.  It commutes with
  `element_from_path`, and the printed tree is the re-gapped one with the gaps taken out (a
  subsequence).
-/
import Luqum.Lemmas.Kf1Regap
import Luqum.Model.Visitor

namespace Luqum

theorem regap_children (s : Str) (t : Tree) :
    (regap s t).children = t.children.map (regap s) := by
  cases t <;> simp [regap, Tree.children, regaps_eq_map]

/-- the node at a path of the re-gapped tree is the re-gapped node at that path -/
theorem regap_at (s : Str) : ∀ (path : List Nat) (t : Tree),
    (regap s t).at? path = (t.at? path).map (regap s)
  | [], _ => rfl
  | i :: r, t => by
    simp only [Tree.at?, regap_children, List.getElem?_map]
    cases t.children[i]? with
    | none => rfl
    | some c => simpa using regap_at s r c

/-- closes goals `a₁ ++ … ++ aₙ <+ b₁ ++ … ++ bₙ` part by part -/
macro "sub_parts" : tactic =>
  `(tactic| repeat (first
    | exact List.Sublist.refl _
    | assumption
    | exact List.sublist_append_left _ _
    | apply List.Sublist.append))

mutual
/-- the printed tree is a subsequence of the re-gapped printed tree -/
theorem full_sublist_regap (s : Str) : ∀ t : Tree, (t.full .raw).Sublist ((regap s t).full .raw)
  | .term .. => List.Sublist.refl _
  | .none _ => List.Sublist.refl _
  | .field n e l => by
    have ih := full_sublist_regap s e
    simp only [regap, Tree.full]; sub_parts
  | .group _ e l => by
    have ih := full_sublist_regap s e
    simp only [regap, Tree.full]; sub_parts
  | .range a b _ _ l => by
    have iha := full_sublist_regap s a
    have ihb := full_sublist_regap s b
    simp only [regap, Tree.full]; sub_parts
  | .approx _ t n l => by
    have ih := full_sublist_regap s t
    simp only [regap, Tree.full]; sub_parts
  | .boost e n l => by
    have ih := full_sublist_regap s e
    simp only [regap, Tree.full]; sub_parts
  | .op k xs l => by
    have ih := joined_sublist_regap s k.word xs
    simp only [regap, Tree.full]; sub_parts
  | .unary _ a l => by
    have ih := full_sublist_regap s a
    simp only [regap, Tree.full]; sub_parts
  | .orange _ a _ l => by
    have ih := full_sublist_regap s a
    simp only [regap, Tree.full]; sub_parts
theorem joined_sublist_regap (s w : Str) : ∀ xs : List Tree,
    (joinWith w (Tree.fulls .raw xs)).Sublist (joinWith w (Tree.fulls .raw (regaps s xs)))
  | [] => List.Sublist.refl _
  | [x] => by simpa [regaps, Tree.fulls, joinWith] using full_sublist_regap s x
  | x :: y :: r => by
    have ihx := full_sublist_regap s x
    have ih := joined_sublist_regap s w (y :: r)
    simp only [regaps, Tree.fulls, joinWith] at ih ⊢
    sub_parts
end

/-- the same without head and tail -/
theorem body_sublist_regap (s : Str) (t : Tree) : (t.body .raw).Sublist ((regap s t).body .raw) := by
  cases t with
  | term => exact List.Sublist.refl _
  | none => exact List.Sublist.refl _
  | field n e l =>
    have ih := full_sublist_regap s e
    simp only [regap, Tree.body]; sub_parts
  | group k e l =>
    have ih := full_sublist_regap s e
    simp only [regap, Tree.body]; sub_parts
  | range a b il ih' l =>
    have iha := full_sublist_regap s a
    have ihb := full_sublist_regap s b
    simp only [regap, Tree.body]; sub_parts
  | approx k t n l =>
    have ih := full_sublist_regap s t
    simp only [regap, Tree.body]; sub_parts
  | boost e n l =>
    have ih := full_sublist_regap s e
    simp only [regap, Tree.body]; sub_parts
  | op k xs l =>
    have ih := joined_sublist_regap s k.word xs
    simp only [regap, Tree.body]; sub_parts
  | unary k a l =>
    have ih := full_sublist_regap s a
    simp only [regap, Tree.body]; sub_parts
  | orange k a inc l =>
    have ih := full_sublist_regap s a
    simp only [regap, Tree.body]; sub_parts

/-- a tree without `SearchField` below it is its own re-gapped tree -/
theorem regap_term (s : Str) (k : TermK) (v : Str) (l : Lay) : regap s (.term k v l) = .term k v l := by
  simp only [regap]

end Luqum
