/-
  Luqum.Lemmas.LaidRun — property C02 (positions): the run invariant. For ARBITRARY tables with a
  certificate accepted by `certOK` (and the three `TablesOK` facts), along `runLoop` the sequence
  `stack (bottom first) ++ remaining input` stays laid out from offset 0; hence the accepted value is
  laid out at offset 0.
-/
import Luqum.Lemmas.LaidActMain
import Luqum.Lemmas.CertRun

namespace Luqum

/-- the reduce branch of `step` under the certificate invariant: besides the data of the reduction,
the arguments of the action have shapes in sets that are admissible for the action -/
theorem reduce_adm {T : Tables} {C : Cert} (hC : certOK T C = true) {c c' : Cfg} {look : Option Tok}
    (hI : CertInv T C c look) (hs : step T c look = .reduce c') :
    ∃ (n : Nat) (f : String) (v : Val) (g : Int) (As : List Nat),
      n ≤ c.vals.length ∧ act f (c.vals.take n).reverse = .ok v ∧
      c' = { states := g.toNat :: c.states.drop n, vals := v :: c.vals.drop n } ∧
      HasShapes (c.vals.take n).reverse As ∧ admSet f As = true := by
  obtain ⟨a, lhs, f, rhs, vnew, g, ha, hnpos, hneg, hp, hlen, hact, hg, rfl⟩ := step_reduce_cert hs
  cases hn : rhs.length with
  | zero => rw [hn] at hact; exact absurd hact (act_nil f vnew)
  | succ n =>
    rw [hn] at hlen hact hg
    cases hI with
    | init s0 _ => simp at hlen
    | push s ss v vs _ hv hb =>
      simp only [List.headD_cons] at ha
      rw [lookName_eq] at ha
      have hcell := checkCell_of_certOK hC ha
      have hwalk := checkCell_reduce hcell ha hnpos hneg hp hn
      have hn' : n ≤ vs.length := by simpa using hlen
      have hv2 : HasShape v (C.top s (T.termIdx (lookNameK (look.map (·.kind))))) := by
        rw [lookIdx, lookName_eq] at hv; exact hv
      obtain ⟨c₁, acc', hfin, hshapes, hbl⟩ :=
        walkDown_spec n s _ ss vs [v] hwalk hb hn' ⟨hv2, trivial⟩
      have hargs : ((v :: vs).take (n + 1)).reverse = (vs.take n).reverse ++ [v] := by simp
      unfold reduceFin at hfin
      rw [hasShapes_no_zero _ _ hshapes, Bool.false_or, List.all_eq_true] at hfin
      refine ⟨n + 1, f, vnew, g, acc', hlen, hact, rfl, by rw [hargs]; exact hshapes, ?_⟩
      -- some state lies below the popped values, hence the check at the bottom of the walk ran
      obtain ⟨s0, m0, hm0⟩ : ∃ s0 m0, C.edge s0 c₁ = some m0 := by
        cases hss : ss.drop n with
        | nil => rw [hss] at hbl; simp [Below] at hbl
        | cons s0 rest =>
          rw [hss] at hbl
          cases hvs : vs.drop n with
          | nil =>
            rw [hvs] at hbl
            simp only [Below] at hbl
            obtain ⟨m0, hm0⟩ := Option.isSome_iff_exists.mp hbl.2
            exact ⟨s0, m0, hm0⟩
          | cons v0 vs0 =>
            rw [hvs] at hbl
            simp only [Below] at hbl
            obtain ⟨m0, hm0, _, _⟩ := hbl
            exact ⟨s0, m0, hm0⟩
      have := hfin (s0, m0) (edge_mem_preds hm0)
      simp only [Bool.and_eq_true] at this
      exact this.1

/-- the invariant: text, shape of the stack, layout, certificate -/
def LaidInv (T : Tables) (C : Cert) (s : Str) (c : Cfg) (toks : List Tok) : Prop :=
  Spells s c toks ∧ Shape T c ∧ SeqPos (seqOf c toks) 0 ∧ CertInv T C c toks.head?

theorem laidInv_shift {T : Tables} {C : Cert} (hT : TablesOK T) (hC : certOK T C = true) {s : Str}
    (c : Cfg) (t : Tok) (toks : List Tok) (c' : Cfg)
    (hP : LaidInv T C s c (t :: toks)) (hs : step T c (some t) = .shift c') :
    LaidInv T C s c' toks := by
  obtain ⟨h1, h2, h3, h4⟩ := hP
  refine ⟨spells_shift c t toks c' h1 hs, shape_shift hT h2 hs, ?_, inv_shift hC h4 hs _⟩
  obtain ⟨t', a, hl, _, _, rfl⟩ := step_shift hs
  cases hl
  have : seqOf { states := a.toNat :: c.states, vals := t.toVal :: c.vals } toks
      = seqOf c (t :: toks) := by simp [seqOf]
  rw [this]; exact h3

theorem laidInv_reduce {T : Tables} {C : Cert} (hT : TablesOK T) (hC : certOK T C = true) {s : Str}
    (c : Cfg) (toks : List Tok) (c' : Cfg)
    (hP : LaidInv T C s c toks) (hs : step T c toks.head? = .reduce c') :
    LaidInv T C s c' toks := by
  obtain ⟨h1, h2, h3, h4⟩ := hP
  refine ⟨spells_reduce c toks c' h1 hs, shape_reduce hT h2 hs, ?_, inv_reduce hC h4 hs⟩
  obtain ⟨n, f, v, g, As, hn, hact, rfl, hsh, hadm⟩ := reduce_adm hC h4 hs
  have e1 : seqOf c toks
      = (c.vals.drop n).reverse ++ (c.vals.take n).reverse ++ toks.map Tok.toVal := by
    simp only [seqOf, ← List.reverse_append, List.take_append_drop]
  have e2 : seqOf { states := g.toNat :: c.states.drop n, vals := v :: c.vals.drop n } toks
      = (c.vals.drop n).reverse ++ [v] ++ toks.map Tok.toVal := by
    simp [seqOf]
  have hok := h1.1
  rw [e1] at h3 hok
  rw [e2]
  have hflat := (act_ok hact hok.mid).flat
  rw [seqPos_append, seqPos_append] at h3 ⊢
  obtain ⟨⟨hb, ha⟩, hr⟩ := h3
  refine ⟨⟨hb, ?_, trivial⟩, ?_⟩
  · exact act_pos hact hok.mid ha hsh hadm
  · simpa [hflat] using hr

/-- **layout of a run**: with tables satisfying `TablesOK` and a certificate accepted by the
checker, a successful run over a well-formed, laid-out token sequence returns a value laid out at
offset 0 -/
theorem runLoop_laid {T : Tables} {C : Cert} (hT : TablesOK T) (hC : certOK T C = true) (fuel : Nat)
    (toks : List Tok) (lerr : Option LexErr) (v : Val) (hok : SeqOK (toks.map Tok.toVal))
    (hp : SeqPos (toks.map Tok.toVal) 0)
    (h : runLoop T fuel { states := [0], vals := [] } toks lerr = .ok v) :
    v.PosAt (v.lay.head.length) := by
  have := runLoop_ok (T := T) (P := LaidInv T C (flats (toks.map Tok.toVal)))
    (fun c t tk c' hP hs => laidInv_shift hT hC c t tk c' hP hs)
    (fun c tk c' hP hs => laidInv_reduce hT hC c tk c' hP hs)
    fuel { states := [0], vals := [] } toks lerr v
    ⟨⟨by simpa [seqOf] using hok, by simp [seqOf]⟩, shape_init T, by simpa [seqOf] using hp,
      .init 0 _⟩ h
  obtain ⟨c', toks', ⟨_, hsh, hpos, _⟩, hacc, _⟩ := this
  obtain ⟨hlook, hv⟩ := shape_accept hT hsh hacc
  have ht : toks' = [] := by cases toks' <;> simp at hlook ⊢
  subst ht
  simp only [seqOf, hv, List.reverse_cons, List.reverse_nil, List.nil_append, List.map_nil,
    List.append_nil, SeqPos, and_true] at hpos
  simpa using hpos

end Luqum
