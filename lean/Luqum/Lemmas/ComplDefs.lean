/-
  Luqum.Lemmas.ComplDefs — definitions for property C03, direction grammar ⇒ parser (completeness):
  the class `Parseable` of trees, the certificate format and its checker `complOK`.

  The certificate is produced by `tools/complcert.py`; nothing about that tool is trusted: `complOK`
  is proved sound for arbitrary tables and certificates in Luqum.Lemmas.ComplMain.

  The certificate is a pair `(R, G)`.
  `(s, a) ∈ R` (state, name of a look-ahead terminal) means: from any configuration whose top state
  is `s`, reading the tokens of any canonical non-operation tree `t` followed by a token of kind `a`
  (or the end of the input for `$end`) — with `a ≠ BOOST` when `t` is a prefix operation or a field —
  the driver reaches, without consuming the token after `t`, the configuration with
  `goto[s][unary_expression]` and an item equal to `t` pushed on the same stack.
  `s ∈ G` means: from top state `s` (entered on `LPAREN`), reading the tokens of any canonical tree
  followed by `RPAREN`, the driver reaches `goto[s][expression]` with an item equal to the tree.
  The operations (AND, OR, implicit) need no entries of their own: what they demand of the tables is
  a function of `R` (`chkAnd`, `chkOr`, `chkExpr`).
-/
import Luqum.Lemmas.CertDefs
import Luqum.Lemmas.Yield

namespace Luqum.Compl
open Luqum
open Luqum.Props.C09 (content contents)

/-! ### the trees the parser can produce -/

/-- the value of a `~` / `^` token whose numeral is spelled `src` (`Tok.toVal`) -/
def srcValue (src : Str) : Option Str := if src = [] then none else some src

/-- the numeral is convertible: the conversion `conv` (`decNum` / `intNum`) applied to the token
value that `yield` spells succeeds, and gives the stored value back up to `Dec.numEq` -/
def numOK (conv : TokV → Except ParseErr Num) (n : Num) : Bool :=
  match conv { value := srcValue n.source, lay := {} } with
  | .ok n' => n'.val.numEq n.val
  | .error _ => false

def fuzzyDflt : Dec := { coeff := 5, exp := -1 }
def boostDflt : Dec := { coeff := 1 }

/-- if a word, then not a reserved one (where the grammar has the terminal TERM) -/
def wordTerm : Tree → Bool
  | .term .word v _ => reservedKind v == .term
  | _ => true

/-- the words of a range bound are not reserved -/
def boundText : Tree → Bool
  | .unary .prohibit e _ => wordTerm e
  | t => wordTerm t

mutual
/-- the texts are what the lexer can hand to the grammar rule that builds the node: a word is not
`AND` / `OR` / `NOT`, and is `TO` only where the grammar has `p_to_as_term`; field names are not
reserved; numerals are convertible -/
def TextOK : Tree → Bool
  | .term .word v _ => reservedKind v == .term || reservedKind v == .to
  | .term .phrase _ _ => true
  | .term .regex _ _ => true
  | .field n e _ => reservedKind n == .term && TextOK e
  | .group _ e _ => TextOK e
  | .range lo hi _ _ _ => boundText lo && boundText hi
  | .approx .fuzzy e n _ => wordTerm e && numOK (decNum · fuzzyDflt) n
  | .approx .proximity _ n _ => numOK intNum n
  | .boost e n _ => TextOK e && numOK (decNum · boostDflt) n
  | .op _ xs _ => TextsOK xs
  | .unary _ e _ => TextOK e
  | .orange _ e _ _ => wordTerm e
  | .none _ => true
def TextsOK : List Tree → Bool
  | [] => true
  | x :: r => TextOK x && TextsOK r
end

/-- **the trees the parser can produce** (up to `==`): canonical form, texts and numerals as the
lexer and the semantic actions can produce them -/
def Parseable (t : Tree) : Bool := CanonAt false t && TextOK t

/-- a `FieldGroup` seen as the `Group` it is before `p_field_search` converts it -/
def ungroup : Tree → Tree
  | .group _ e l => .group .group e l
  | t => t

/-- `^` can apply to it -/
def boostable (t : Tree) : Bool := !isUnary t && !isField t

/-! ### table access -/

def nU : String := "unary_expression"
def nE : String := "expression"
def nPT : String := "phrase_or_term"
def nPPNT : String := "phrase_or_possibly_negative_term"

/-- `Tables.act?`, `Tables.goto?` and the production table read through lists (the kernel evaluates
`List.getD` much faster than `Array.getD`); equal to the originals: `actF_eq`, `gotoF_eq`,
`prodF_eq` -/
def actF (T : Tables) (s : Nat) (name : String) : Option Int :=
  (T.action.toList.getD s #[]).toList.getD (T.termIdx name) none
def gotoF (T : Tables) (s : Nat) (nt : String) : Option Int :=
  (T.goto.toList.getD s #[]).toList.getD (T.ntIdx nt) none
def prodF (T : Tables) (i : Nat) : String × List String × String :=
  T.prods.toList.getD i ("", [], "")

theorem actF_eq (T : Tables) (s : Nat) (name : String) : actF T s name = T.act? s name := by
  simp [actF, Tables.act?]
theorem gotoF_eq (T : Tables) (s : Nat) (nt : String) : gotoF T s nt = T.goto? s nt := by
  simp [gotoF, Tables.goto?]
theorem prodF_eq (T : Tables) (i : Nat) : prodF T i = T.prods.getD i ("", [], "") := by
  simp [prodF]

/-- the state a shift on terminal `name` leads to -/
def shiftTo (T : Tables) (s : Nat) (name : String) : Option Nat :=
  match actF T s name with
  | some a => if a > 0 then some a.toNat else none
  | none => none

/-- the production of the reduce action on terminal `name` -/
def redBy (T : Tables) (s : Nat) (name : String) : Option (String × List String × String) :=
  match actF T s name with
  | some a => if a < 0 then some (prodF T (-a).toNat) else none
  | none => none

def gotoN (T : Tables) (s : Nat) (nt : String) : Option Nat := (gotoF T s nt).map Int.toNat

/-- the state entered over `s0` when, in state `cur` with look-ahead `a`, the table reduces by a
production with action `f` and `n` right-hand-side symbols (`s0` is the state `n` slots below) -/
def redTo (T : Tables) (s0 cur : Nat) (a f : String) (n : Nat) : Option Nat :=
  match redBy T cur a with
  | some p => if p.2.2 = f ∧ p.2.1.length = n then gotoN T s0 p.1 else none
  | none => none

/-- from state `cur` lying directly on `s0`, unit reductions (look-ahead `a`) lead to
`goto[s0][target]` -/
def chainTo (T : Tables) (s0 : Nat) (a target : String) : Nat → Nat → Bool
  | 0, cur => gotoN T s0 target == some cur
  | fuel + 1, cur =>
    gotoN T s0 target == some cur ||
    match redBy T cur a with
    | some p =>
      p.2.1.length == 1 && unitActs.contains p.2.2 &&
      match gotoN T s0 p.1 with
      | some g => chainTo T s0 a target fuel g
      | none => false
    | none => false

def chainFuel : Nat := 4

/-- shift the terminal `tok`, then unit reductions up to `target` -/
def chkLeaf (T : Tables) (s : Nat) (tok a target : String) : Bool :=
  (shiftTo T s tok).any fun s1 => chainTo T s a target chainFuel s1

/-! ### the checker -/

/-- `phrase_or_term` in state `s` followed by `a` -/
def chkPT (T : Tables) (s : Nat) (a : String) : Bool :=
  chkLeaf T s "TERM" a nPT && chkLeaf T s "PHRASE" a nPT

/-- `MINUS phrase_or_term` as a range bound -/
def chkNeg (T : Tables) (s : Nat) (a : String) : Bool :=
  (shiftTo T s "MINUS").any fun s3 => chkPT T s3 a &&
    (gotoN T s3 nPT).any fun p => (redTo T s p a "p_possibly_negative_term" 2).any fun g =>
      chainTo T s a nPPNT chainFuel g

/-- a range bound in state `s` followed by `a` -/
def chkBound (T : Tables) (s : Nat) (a : String) : Bool :=
  chkLeaf T s "TERM" a nPPNT && chkLeaf T s "PHRASE" a nPPNT && chkNeg T s a

/-- a non-operation tree as an `expression` (never followed by `BOOST`) -/
def chkUE (T : Tables) (R : List (Nat × String)) (s : Nat) (a : String) : Bool :=
  a != "BOOST" && R.contains (s, a) && (gotoN T s nU).any fun u => chainTo T s a nE chainFuel u

/-- `x₁ OP x₂ OP … xₙ` (n ≥ 1) in state `s` followed by `a`, the operands being checked by `sub` -/
def chkLevel (T : Tables) (sub : Nat → String → Bool) (op f : String) (s : Nat) (a : String) : Bool :=
  sub s a && sub s op &&
  (gotoN T s nE).any fun e => (shiftTo T e op).any fun so => (gotoN T so nE).any fun eo =>
    sub so op && sub so a && redTo T s eo op f 3 == some e && redTo T s eo a f 3 == some e

def chkAnd (T : Tables) (R : List (Nat × String)) : Nat → String → Bool :=
  chkLevel T (chkUE T R) "AND_OP" "p_expression_and"

def chkOr (T : Tables) (R : List (Nat × String)) : Nat → String → Bool :=
  chkLevel T (chkAnd T R) "OR_OP" "p_expression_or"

/-- the token kinds an expression can start with -/
def firstKinds : List TokK :=
  [.term, .phrase, .regex, .to, .plus, .minus, .not, .lparen, .lbracket, .lessthan, .greaterthan]

def firstNames : List String := firstKinds.map TokK.name

/-- `x₁ x₂ … xₙ` (n ≥ 1, implicit operation) in state `s` followed by `a` -/
def chkExpr (T : Tables) (R : List (Nat × String)) (s : Nat) (a : String) : Bool :=
  chkOr T R s a &&
  (gotoN T s nE).any fun e => (gotoN T e nE).any fun ei =>
    chkOr T R e a && redTo T s ei a "p_expression_implicit" 2 == some e &&
    firstNames.all fun f =>
      chkOr T R s f && chkOr T R e f && redTo T s ei f "p_expression_implicit" 2 == some e

/-- `TO` as a term -/
def chkTo (T : Tables) (s : Nat) (a : String) (u : Nat) : Bool :=
  (shiftTo T s "TO").any fun s2 => redTo T s s2 a "p_to_as_term" 1 == some u

/-- `TERM APPROX` / `PHRASE APPROX` -/
def chkApprox (T : Tables) (s : Nat) (tok f a : String) (u : Nat) : Bool :=
  (shiftTo T s tok).any fun s1 => (shiftTo T s1 "APPROX").any fun s2 => redTo T s s2 a f 2 == some u

/-- `LPAREN expression RPAREN`; `G`: the states (entered on `LPAREN`) from which an expression
followed by `RPAREN` is handled -/
def chkGroup (T : Tables) (G : List Nat) (s : Nat) (a : String) (u : Nat) : Bool :=
  (shiftTo T s "LPAREN").any fun s1 => G.contains s1 &&
    (gotoN T s1 nE).any fun e => (shiftTo T e "RPAREN").any fun s2 =>
      redTo T s s2 a "p_grouping" 3 == some u

/-- `LBRACKET bound TO bound RBRACKET` -/
def chkRange (T : Tables) (s : Nat) (a : String) (u : Nat) : Bool :=
  (shiftTo T s "LBRACKET").any fun s1 => chkBound T s1 "TO" &&
    (gotoN T s1 nPPNT).any fun b1 => (shiftTo T b1 "TO").any fun s2 => chkBound T s2 "RBRACKET" &&
      (gotoN T s2 nPPNT).any fun b2 => (shiftTo T b2 "RBRACKET").any fun s3 =>
        redTo T s s3 a "p_range" 5 == some u

/-- `LESSTHAN phrase_or_term` / `GREATERTHAN phrase_or_term` -/
def chkORange (T : Tables) (s : Nat) (tok f a : String) (u : Nat) : Bool :=
  (shiftTo T s tok).any fun s1 => chkPT T s1 a &&
    (gotoN T s1 nPT).any fun p => redTo T s p a f 2 == some u

/-- `unary_expression BOOST` -/
def chkBoost (T : Tables) (R : List (Nat × String)) (s : Nat) (a : String) (u : Nat) : Bool :=
  R.contains (s, "BOOST") && (shiftTo T u "BOOST").any fun s1 => redTo T s s1 a "p_boosting" 2 == some u

/-- `PLUS unary_expression` etc. -/
def chkPrefix (T : Tables) (R : List (Nat × String)) (s : Nat) (tok f a : String) (u : Nat) : Bool :=
  (shiftTo T s tok).any fun s1 => R.contains (s1, a) &&
    (gotoN T s1 nU).any fun u1 => redTo T s u1 a f 2 == some u

/-- `TERM COLUMN unary_expression` -/
def chkField (T : Tables) (R : List (Nat × String)) (s : Nat) (a : String) (u : Nat) : Bool :=
  (shiftTo T s "TERM").any fun s1 => (shiftTo T s1 "COLUMN").any fun s2 => R.contains (s2, a) &&
    (gotoN T s2 nU).any fun u2 => redTo T s u2 a "p_field_search" 3 == some u

/-- the trees to which `^` does not apply, when the look-ahead is not `BOOST` -/
def chkPre (T : Tables) (R : List (Nat × String)) (s : Nat) (a : String) (u : Nat) : Bool :=
  chkPrefix T R s "PLUS" "p_expression_plus" a u &&
  chkPrefix T R s "MINUS" "p_expression_minus" a u &&
  chkPrefix T R s "NOT" "p_expression_not" a u &&
  chkField T R s a u

/-- what the membership of `(s, a)` in the certificate demands -/
def chkU (T : Tables) (R : List (Nat × String)) (G : List Nat) (s : Nat) (a : String) : Bool :=
  (gotoN T s nU).any fun u =>
    chkLeaf T s "TERM" a nU && chkLeaf T s "PHRASE" a nU && chkLeaf T s "REGEX" a nU &&
    chkTo T s a u &&
    chkApprox T s "TERM" "p_fuzzy" a u && chkApprox T s "PHRASE" "p_proximity" a u &&
    chkGroup T G s a u && chkRange T s a u &&
    chkORange T s "LESSTHAN" "p_lessthan" a u && chkORange T s "GREATERTHAN" "p_greaterthan" a u &&
    chkBoost T R s a u &&
    (a == "BOOST" || chkPre T R s a u)

/-- the state entered from state 0 on `expression` accepts at the end of the input -/
def chkAccept (T : Tables) : Bool :=
  (gotoN T 0 nE).any fun e => actF T e "$end" == some 0

/-- **the checker**: the certificate (`R`: pairs (state, look-ahead) for non-operation trees; `G`:
states inside a parenthesis) is closed, an expression followed by the end of the input is handled
from state 0, and then accepted -/
def complOK (T : Tables) (R : List (Nat × String)) (G : List Nat) : Bool :=
  (R.all fun p => chkU T R G p.1 p.2) && (G.all fun s => chkExpr T R s "RPAREN") &&
  chkExpr T R 0 "$end" && chkAccept T

end Luqum.Compl
