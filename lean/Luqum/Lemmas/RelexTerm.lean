/-
  Luqum.Lemmas.RelexTerm — the `TERM_RE` loop (`termRest`) in context: equation lemmas, the stop
  condition after a term, and the context lemma: a text that the loop consumes entirely when it is
  alone is consumed exactly, whatever was consumed before it (the look-behind `(?<=T\d{2})` only
  sees characters of the term itself, up to a boundary condition used for the stop condition only)
  and whatever follows, if what follows satisfies the stop condition.
-/
import Luqum.Lemmas.LexLossless

namespace Luqum

/-! ### equation lemmas for `termRest` -/

theorem isTermNext_colon : isTermNext ':' = false := by decide
theorem isTermNext_bslash : isTermNext '\\' = false := by decide

theorem termRest_nil (f : Nat) (pv : Str) : termRest f pv [] = 0 := by
  cases f <;> rfl

theorem termRest_next {f : Nat} {pv : Str} {c : Char} {r : Str} (h : isTermNext c = true) :
    termRest (f+1) pv (c :: r) = 1 + termRest f (c :: pv) r := by
  conv => lhs; unfold termRest
  simp [h]

theorem termRest_esc {f : Nat} {pv : Str} {d : Char} {r : Str} (h : d ≠ '\n') :
    termRest (f+1) pv ('\\' :: d :: r) = 2 + termRest f (d :: '\\' :: pv) r := by
  conv => lhs; unfold termRest
  simp [isTermNext_bslash, h]

theorem termRest_esc_nl {f : Nat} {pv : Str} {r : Str} :
    termRest f pv ('\\' :: '\n' :: r) = 0 := by
  cases f with
  | zero => rfl
  | succ f =>
    conv => lhs; unfold termRest
    simp [isTermNext_bslash]

theorem termRest_esc_end {f : Nat} {pv : Str} : termRest f pv ['\\'] = 0 := by
  cases f with
  | zero => rfl
  | succ f =>
    conv => lhs; unfold termRest
    simp [isTermNext_bslash]

theorem termRest_other {f : Nat} {pv : Str} {c : Char} {r : Str} (h1 : isTermNext c = false)
    (h2 : c ≠ '\\') (h3 : c ≠ ':') : termRest f pv (c :: r) = 0 := by
  cases f with
  | zero => rfl
  | succ f =>
    conv => lhs; unfold termRest
    simp [h1, h2, h3]

/-- `:\d\d` at the start -/
def secOK : Str → Bool
  | ':' :: s1 :: s2 :: _ => isDigitU s1 && isDigitU s2
  | _ => false

theorem termRest_time_sec {f : Nat} {k : Str} {d1 d2 m1 m2 s1 s2 : Char} {r : Str}
    (h : (isDigitU d1 && isDigitU d2 && isDigitU m1 && isDigitU m2) = true)
    (hs : (isDigitU s1 && isDigitU s2) = true) :
    termRest (f+1) (d2 :: d1 :: 'T' :: k) (':' :: m1 :: m2 :: ':' :: s1 :: s2 :: r) =
      6 + termRest f (s2 :: s1 :: ':' :: m2 :: m1 :: ':' :: d2 :: d1 :: 'T' :: k) r := by
  conv => lhs; unfold termRest
  simp only [isTermNext_colon, h, hs]
  simp

theorem termRest_time_nosec {f : Nat} {k : Str} {d1 d2 m1 m2 : Char} {r : Str}
    (h : (isDigitU d1 && isDigitU d2 && isDigitU m1 && isDigitU m2) = true)
    (hs : secOK r = false) :
    termRest (f+1) (d2 :: d1 :: 'T' :: k) (':' :: m1 :: m2 :: r) =
      3 + termRest f (m2 :: m1 :: ':' :: d2 :: d1 :: 'T' :: k) r := by
  conv => lhs; unfold termRest
  simp only [isTermNext_colon, h]
  simp
  split
  · rename_i s1 s2 r''
    simp [secOK] at hs
    simp; intro a b; simp [hs a] at b
  · rfl

/-- the reversed text ends with `T\d\d` -/
def tddR : Str → Bool
  | d2 :: d1 :: 'T' :: _ => isDigitU d1 && isDigitU d2
  | _ => false

/-- the reversed text ends with `T\d\d:\d\d` -/
def tmmR : Str → Bool
  | m2 :: m1 :: ':' :: d2 :: d1 :: 'T' :: _ => isDigitU d1 && isDigitU d2 && isDigitU m1 && isDigitU m2
  | _ => false

/-- `\d\d` at the start -/
def startsDD : Str → Bool
  | m1 :: m2 :: _ => isDigitU m1 && isDigitU m2
  | _ => false

theorem secOK_eq (r : Str) : secOK r = match r with | ':' :: r' => startsDD r' | _ => false := by
  unfold secOK startsDD
  split <;> simp
  rename_i h
  split
  · rename_i r' _
    split
    · rename_i m1 m2 r''; exact absurd rfl (h m1 m2 r'')
    · rfl
  · rfl

theorem tddR_shape {pv : Str} (h : tddR pv = true) :
    ∃ d2 d1 k, pv = d2 :: d1 :: 'T' :: k ∧ (isDigitU d1 && isDigitU d2) = true := by
  unfold tddR at h
  split at h
  · exact ⟨_, _, _, rfl, h⟩
  · cases h

theorem startsDD_shape {r : Str} (h : startsDD r = true) :
    ∃ m1 m2 r', r = m1 :: m2 :: r' ∧ (isDigitU m1 && isDigitU m2) = true := by
  unfold startsDD at h
  split at h
  · exact ⟨_, _, _, rfl, h⟩
  · cases h

theorem termRest_colon_stop {f : Nat} {pv r : Str} (h : (tddR pv && startsDD r) = false) :
    termRest f pv (':' :: r) = 0 := by
  cases f with
  | zero => rfl
  | succ f =>
    conv => lhs; unfold termRest
    simp only [isTermNext_colon]
    simp
    split
    · rename_i d2 d1 k m1 m2 r'
      simp [tddR, startsDD] at h
      simp; intro a b c d; simp [h a b c] at d
    · rfl

/-! ### the stop condition -/

/-- the `TERM_RE` loop stops in front of `r` when the characters of the term consumed so far are
`pv` (reversed). (A `\` is taken as a continuation even before a newline or the end of the input,
where the loop stops too but the lexer then fails.) -/
def termStops (pv r : Str) : Bool :=
  match r with
  | [] => true
  | c :: r' => !isTermNext c && c != '\\' && !(c == ':' && (tddR pv || tmmR pv) && startsDD r')

theorem termRest_stops {f : Nat} {pv pv' r : Str} (h : termStops pv r = true)
    (hb : tddR pv' = tddR pv) : termRest f pv' r = 0 := by
  cases r with
  | nil => exact termRest_nil _ _
  | cons c r' =>
    simp only [termStops, Bool.and_eq_true, Bool.not_eq_true', bne_iff_ne, ne_eq] at h
    obtain ⟨⟨h1, h2⟩, h3⟩ := h
    by_cases hc : c = ':'
    · subst hc
      apply termRest_colon_stop
      rw [hb]
      simp at h3
      cases ht : tddR pv
      · simp
      · simpa using h3 (Or.inl ht)
    · exact termRest_other h1 h2 hc

/-! ### a term in context -/

/-- **context lemma for the `TERM_RE` loop**: if the loop, knowing only the characters `known`
before it, consumes `xs` entirely, then with more characters before (`more`) and the text `r` after
it consumes exactly `xs`, provided the loop stops in front of `r` (`termStops`, a condition on the
characters of the term only) and the look-behind at the end of the term does not reach into `more` -/
theorem termRest_ctx : ∀ (fuel fuel' : Nat) (known more xs r : Str),
    termRest fuel known xs = xs.length → fuel ≤ fuel' →
    termStops (xs.reverse ++ known) r = true →
    tddR (xs.reverse ++ known ++ more) = tddR (xs.reverse ++ known) →
    termRest fuel' (known ++ more) (xs ++ r) = xs.length := by
  intro fuel
  induction fuel with
  | zero =>
    intro fuel' known more xs r h _ hs hb
    cases xs with
    | nil => simpa using termRest_stops (pv' := known ++ more) hs (by simpa using hb)
    | cons c xs => simp [termRest] at h
  | succ f ih =>
    intro fuel' known more xs r h hf hs hb
    cases xs with
    | nil => simpa using termRest_stops (pv' := known ++ more) hs (by simpa using hb)
    | cons c xs =>
      obtain ⟨f', rfl⟩ : ∃ f', fuel' = f' + 1 := ⟨fuel' - 1, by omega⟩
      have hf' : f ≤ f' := by omega
      simp only [List.reverse_cons, List.append_assoc, List.singleton_append] at hs hb
      by_cases hn : isTermNext c = true
      · rw [termRest_next hn] at h
        simp only [List.cons_append]
        rw [termRest_next hn]
        have := ih f' (c :: known) more xs r (by simp at h ⊢; omega) hf' hs (by simpa using hb)
        simp only [List.cons_append] at this
        simp [this]; omega
      · have hn : isTermNext c = false := by simpa using hn
        by_cases hc : c = '\\'
        · subst hc
          cases xs with
          | nil => rw [termRest_esc_end] at h; simp at h
          | cons d xs =>
            by_cases hd : d = '\n'
            · subst hd; rw [termRest_esc_nl] at h; simp at h
            · rw [termRest_esc hd] at h
              simp only [List.cons_append]
              rw [termRest_esc hd]
              simp only [List.reverse_cons, List.append_assoc, List.singleton_append] at hs hb
              have := ih f' (d :: '\\' :: known) more xs r (by simp at h ⊢; omega) hf' hs
                (by simpa using hb)
              simp only [List.cons_append] at this
              simp [this]; omega
        · by_cases hc' : c = ':'
          · subst hc'
            cases ht : tddR known && startsDD xs with
            | false => rw [termRest_colon_stop ht] at h; simp at h
            | true =>
              simp only [Bool.and_eq_true] at ht
              obtain ⟨d2, d1, k, rfl, hd⟩ := tddR_shape ht.1
              obtain ⟨m1, m2, r', rfl, hm⟩ := startsDD_shape ht.2
              have h4 : (isDigitU d1 && isDigitU d2 && isDigitU m1 && isDigitU m2) = true := by
                simp only [Bool.and_eq_true] at hd hm ⊢; exact ⟨⟨hd, hm.1⟩, hm.2⟩
              simp only [List.reverse_cons, List.append_assoc, List.singleton_append] at hs hb
              cases hsec : secOK r' with
              | true =>
                unfold secOK at hsec
                split at hsec
                · rename_i s1 s2 r''
                  rw [termRest_time_sec h4 hsec] at h
                  simp only [List.cons_append]
                  rw [termRest_time_sec h4 hsec]
                  simp only [List.reverse_cons, List.append_assoc, List.singleton_append] at hs hb
                  have := ih f' (s2 :: s1 :: ':' :: m2 :: m1 :: ':' :: d2 :: d1 :: 'T' :: k) more r'' r
                    (by simp at h ⊢; omega) hf' hs (by simpa using hb)
                  simp only [List.cons_append] at this
                  simp [this]; omega
                · cases hsec
              | false =>
                rw [termRest_time_nosec h4 hsec] at h
                simp only [List.cons_append]
                have hsec' : secOK (r' ++ r) = false := by
                  cases r' with
                  | nil =>
                    -- the time expression ends the term: the stop condition excludes `:\d\d`
                    simp only [List.nil_append, List.reverse_nil] at hs ⊢
                    rw [secOK_eq]
                    cases r with
                    | nil => rfl
                    | cons c r1 =>
                      by_cases hc : c = ':'
                      · subst hc
                        have h4' := h4
                        simp only [Bool.and_eq_true] at h4'
                        simp only [termStops, tmmR] at hs
                        simp [h4'.1.1.1, h4'.1.1.2, h4'.1.2, h4'.2] at hs
                        exact hs.2
                      · split
                        · rename_i heq; cases heq; exact absurd rfl hc
                        · rfl
                  | cons c r1 =>
                    by_cases hc : c = ':'
                    · subst hc
                      -- impossible: the loop stops at this `:` (no `T` three characters before)
                      rw [termRest_colon_stop (by simp [tddR])] at h
                      simp at h
                    · rw [secOK_eq]
                      simp only [List.cons_append]
                      split
                      · rename_i heq; cases heq; exact absurd rfl hc
                      · rfl
                rw [termRest_time_nosec h4 hsec']
                have := ih f' (m2 :: m1 :: ':' :: d2 :: d1 :: 'T' :: k) more r' r
                  (by simp at h ⊢; omega) hf' hs (by simpa using hb)
                simp only [List.cons_append] at this
                simp [this]; omega
          · rw [termRest_other hn hc hc'] at h; simp at h

end Luqum
