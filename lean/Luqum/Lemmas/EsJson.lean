/-
  Luqum.Lemmas.EsJson — the shape of the JSON clauses: the key of a leaf clause is never `bool` nor
  `nested` (for the methods the builder uses and field options that do not ask for such a "match
  type"), so that compound clauses and leaf clauses can be told apart on the JSON.
-/
import Luqum.Lemmas.EsStruct

namespace Luqum.Lemmas.Es
open Luqum

/-- the first key of a clause -/
def clauseKey : JVal → Str
  | .obj ((k, _) :: _) => k
  | _ => []

def boolKey : Str := "bool".toList
def nestedKey : Str := "nested".toList

/-- a key that is neither `bool` nor `nested` -/
def plainKey (k : Str) : Bool := k != boolKey && k != nestedKey

/-- a clause that is neither a `bool` nor a `nested` clause: an atom of the semantics -/
def isLeafClause (j : JVal) : Bool := plainKey (clauseKey j)

/-- the methods the builder gives to its items -/
def builderMethods : List Str :=
  ["term".toList, "match".toList, "match_phrase".toList, "range".toList, "fuzzy".toList]
def builderMethod (m : Str) : Bool := builderMethods.contains m

def optPlain : Option JVal → Bool
  | some (.str m) => plainKey m
  | _ => true

/-- no field option asks for the "match type" `bool` or `nested` -/
def cfgPlain (c : EsCfg) : Bool :=
  c.fieldOptions.all fun e => optPlain (jget e.2 "match_type".toList) && optPlain (jget e.2 "type".toList)

theorem plainKey_of_builderMethod {m : Str} (h : builderMethod m = true) : plainKey m = true := by
  have hall : ∀ m ∈ builderMethods, plainKey m = true := by decide
  exact hall m (List.contains_iff_mem.1 h)

theorem clauseKey_json (c : EsCfg) (i : EItem) :
    clauseKey (i.json c) = "exists".toList ∨ clauseKey (i.json c) = i.method c := by
  unfold EItem.json
  extract_lets field nameKv
  split
  · exact .inl rfl
  · split <;> exact .inr rfl

theorem method_plain (c : EsCfg) (i : EItem) (hc : cfgPlain c = true) (hi : builderMethod i.method0 = true) :
    plainKey (i.method c) = true := by
  have h0 := plainKey_of_builderMethod hi
  have hopts : ∀ opts, (c.fieldOptions.find? (fun e => e.1 == i.field)).map (·.2) = some opts →
      optPlain (jget opts "match_type".toList) = true ∧ optPlain (jget opts "type".toList) = true := by
    intro opts ho
    cases hf : c.fieldOptions.find? (fun e => e.1 == i.field) with
    | none => rw [hf] at ho; cases ho
    | some e =>
      rw [hf] at ho
      cases ho
      have := List.mem_of_find?_eq_some hf
      have := (List.all_eq_true.1 hc) e this
      simpa using this
  unfold EItem.method
  dsimp only
  split
  · decide
  · split
    · split
      · decide
      · split
        · cases hf : (c.fieldOptions.find? (fun e => e.1 == i.field)).map (·.2) with
          | none =>
            simp only [Option.getD_none, jget, List.find?_nil, Option.map_none]
            exact h0
          | some opts =>
            obtain ⟨h1, h2⟩ := hopts opts hf
            simp only [Option.getD_some]
            split
            · rename_i m hm; rw [hm] at h1; exact h1
            · exact h0
            · split
              · rename_i m hm; rw [hm] at h2; exact h2
              · exact h0
              · exact h0
        · exact h0
    · exact h0

/-- the JSON of a builder item is a leaf clause -/
theorem isLeafClause_json (c : EsCfg) (i : EItem) (hc : cfgPlain c = true)
    (hi : builderMethod i.method0 = true) : isLeafClause (i.json c) = true := by
  unfold isLeafClause
  rcases clauseKey_json c i with h | h <;> rw [h]
  · decide
  · exact method_plain c i hc hi

/-! ### every item the builder creates has one of its methods -/

mutual
/-- every item of the E-tree satisfies `P` -/
def allItems (P : EItem → Bool) : ETree → Bool
  | .item i => P i
  | .op _ items => allItemsL P items
  | .nested _ inner _ => allItems P inner
def allItemsL (P : EItem → Bool) : List ETree → Bool
  | [] => true
  | x :: r => allItems P x && allItemsL P r
end

theorem allItemsL_append (P : EItem → Bool) (xs ys : List ETree) :
    allItemsL P (xs ++ ys) = (allItemsL P xs && allItemsL P ys) := by
  induction xs with
  | nil => simp [allItemsL]
  | cons x r ih => simp [allItemsL, ih, Bool.and_assoc]

/-- the item has one of the builder's methods -/
def okItem (i : EItem) : Bool := builderMethod i.method0


/-- a property of items that the attribute setters of the builder preserve -/
structure Stable (P : EItem → Bool) : Prop where
  boost : ∀ (i : EItem) d, P i = true → P { i with boost := some d } = true
  fuzzy : ∀ (i : EItem) d, P i = true → P { i with fuzzy := some d, method0 := "fuzzy".toList } = true
  slop : ∀ (i : EItem) d, P i = true → P { i with slop := some d } = true
  zero : ∀ (i : EItem) v, P i = true → P { i with zeroTerms := v } = true

section All
variable {P : EItem → Bool} (hP : Stable P)
include hP

theorem allItems_setBoost (d : Dec) (e : ETree) (h : allItems P e = true) :
    allItems P (setBoost d e) = true := by
  cases e with
  | item i => exact hP.boost i d h
  | _ => exact h

theorem allItems_setFuzzy (d : Dec) (e : ETree) (h : allItems P e = true) :
    allItems P (setFuzzy d e) = true := by
  cases e with
  | item i => exact hP.fuzzy i d h
  | _ => exact h

theorem allItems_setSlop (d : Dec) (e : ETree) (h : allItems P e = true) :
    allItems P (setSlop d e) = true := by
  cases e with
  | item i =>
    simp only [setSlop]; split
    · exact hP.slop i d h
    · exact h
  | _ => exact h

theorem allItemsL_setZeroTerms (v : Str) : ∀ (es : List ETree), allItemsL P es = true →
    allItemsL P (setZeroTerms v es) = true
  | [], _ => rfl
  | .item i :: r, h => by
      simp only [allItemsL, allItems, Bool.and_eq_true] at h
      simp only [setZeroTerms, allItemsL, allItems, Bool.and_eq_true]
      exact ⟨hP.zero i v h.1, allItemsL_setZeroTerms v r h.2⟩
  | .op k items :: r, h => by
      simp only [allItemsL, Bool.and_eq_true] at h
      simp only [setZeroTerms, allItemsL, Bool.and_eq_true]
      exact ⟨h.1, allItemsL_setZeroTerms v r h.2⟩
  | .nested p i n :: r, h => by
      simp only [allItemsL, Bool.and_eq_true] at h
      simp only [setZeroTerms, allItemsL, Bool.and_eq_true]
      exact ⟨h.1, allItemsL_setZeroTerms v r h.2⟩

theorem allItems_buildOp (k : EOpK) (es : List ETree) (h : allItemsL P es = true) :
    allItems P (buildOp k es) = true := by
  cases k <;> simp only [buildOp, allItems]
  · exact allItemsL_setZeroTerms hP _ es h
  · exact allItemsL_setZeroTerms hP _ es h
  · exact h
  · exact h

omit hP in
mutual
theorem allItems_excludeNested (path : Str) : ∀ (e : ETree), allItems P e = true →
    allItems P (excludeNested path e) = true
  | .item i, h => h
  | .op k items, h => by
      simp only [excludeNested, allItems] at h ⊢; exact allItemsL_excludeNested path items h
  | .nested p inner name, h => by
      simp only [excludeNested]; split
      · exact allItems_excludeNested path inner h
      · exact h
theorem allItemsL_excludeNested (path : Str) : ∀ (es : List ETree), allItemsL P es = true →
    allItemsL P (excludeNestedList path es) = true
  | [], _ => rfl
  | x :: r, h => by
      simp only [allItemsL, Bool.and_eq_true] at h
      simp only [excludeNestedList, allItemsL, Bool.and_eq_true]
      exact ⟨allItems_excludeNested path x h.1, allItemsL_excludeNested path r h.2⟩
end

omit hP in
theorem allItemsL_fieldWrap (c : EsCfg) (x : EsCtx) (n : Str) (e : Tree) (l : Lay) (en : ETree)
    (h : allItems P en = true) : allItemsL P (fieldWrap c x n e l en) = true := by
  unfold fieldWrap; dsimp only
  split
  · simpa [allItemsL] using h
  · simp only [allItemsL, allItems, Bool.and_true]; exact allItems_excludeNested _ _ h
  · simpa [allItemsL] using h

omit hP in
theorem exactlyOne_ok {r : Except EsErr (List ETree)} {en : ETree} (h : exactlyOne r = .ok en) :
    r = .ok [en] := by
  unfold exactlyOne at h
  split at h
  · cases h
  · cases h; rfl
  · cases h

omit hP in
theorem map_ok {α β} {f : α → β} {r : Except EsErr α} {b : β} (h : r.map f = .ok b) :
    ∃ a, r = .ok a ∧ b = f a := by
  cases r with
  | error e => cases h
  | ok a => cases h; exact ⟨a, rfl, rfl⟩

/-- is a term or a range: the nodes for which the builder creates an item -/
def leafTree : Tree → Bool
  | .term .. => true
  | .range .. => true
  | _ => false

variable (c : EsCfg)
  (hleaf : ∀ (t : Tree) (x : EsCtx) (par : Option Tree) (es : List ETree), leafTree t = true →
    visitS c x par t = .ok es → allItemsL P es = true)
include hleaf

set_option linter.unusedSectionVars false in
mutual
/-- a stable property of the items the builder creates holds for all items of its result -/
theorem visitS_all : ∀ (t : Tree) (x : EsCtx) (par : Option Tree) (es : List ETree),
    visitS c x par t = .ok es → allItemsL P es = true
  | .term k v l, x, par, es, h => hleaf _ x par es rfl h
  | .range a b il ih l, x, par, es, h => hleaf _ x par es rfl h
  | .none _, x, par, es, h => by simp only [visitS] at h; cases h; rfl
  | .field n e l, x, par, es, h => by
      simp only [visitS] at h
      obtain ⟨en, h1, rfl⟩ := map_ok h
      have := visitS_all e _ none _ (exactlyOne_ok h1)
      exact allItemsL_fieldWrap c x n e l en (by simpa [allItemsL] using this)
  | .group k e l, x, par, es, h => by
      simp only [visitS] at h; exact visitS_all e _ none es h
  | .orange k e i l, x, par, es, h => by
      simp only [visitS] at h; exact visitS_all e _ none es h
  | .boost e n l, x, par, es, h => by
      simp only [visitS] at h
      obtain ⟨en, h1, rfl⟩ := map_ok h
      have := visitS_all e _ none _ (exactlyOne_ok h1)
      simp only [allItemsL, Bool.and_true] at this ⊢
      exact allItems_setBoost hP _ _ this
  | .approx .fuzzy e n l, x, par, es, h => by
      simp only [visitS] at h
      obtain ⟨en, h1, rfl⟩ := map_ok h
      have := visitS_all e _ none _ (exactlyOne_ok h1)
      simp only [allItemsL, Bool.and_true] at this ⊢
      exact allItems_setFuzzy hP _ _ this
  | .approx .proximity e n l, x, par, es, h => by
      simp only [visitS] at h
      obtain ⟨en, h1, rfl⟩ := map_ok h
      have := visitS_all e _ none _ (exactlyOne_ok h1)
      simp only [allItemsL, Bool.and_true] at this ⊢
      split
      · exact allItems_setSlop hP _ _ this
      · exact allItems_setFuzzy hP _ _ this
  | .unary k e l, x, par, es, h => by
      simp only [visitS] at h
      split at h
      · exact visitS_all e x par es h
      · obtain ⟨items, h1, rfl⟩ := map_ok h
        have := visitS_all e _ _ _ h1
        simp only [allItemsL, Bool.and_true]
        exact allItems_buildOp hP _ _ this
  | .op k xs l, x, par, es, h => by
      simp only [visitS] at h
      have hfin : ∀ x', (visitsS c x' (.op k xs l) xs).map (fun items => [buildOp (opEK c k) items]) = .ok es →
          allItemsL P es = true := by
        intro x' h
        obtain ⟨items, h1, rfl⟩ := map_ok h
        have := visitsS_all xs _ _ _ h1
        simp only [allItemsL, Bool.and_true]
        exact allItems_buildOp hP _ _ this
      split at h
      · split at h
        · exact visitsS_all xs _ _ _ h
        · split at h
          · unfold mixError at h; split at h <;> cases h
          · exact hfin _ h
      · exact hfin _ h
theorem visitsS_all : ∀ (xs : List Tree) (x : EsCtx) (parent : Tree) (es : List ETree),
    visitsS c x parent xs = .ok es → allItemsL P es = true
  | [], x, parent, es, h => by simp only [visitsS] at h; cases h; rfl
  | t :: r, x, parent, es, h => by
      simp only [visitsS] at h
      split at h
      · cases h
      · rename_i items h1
        split at h
        · cases h
        · rename_i rest h2
          cases h
          rw [allItemsL_append, visitS_all t _ _ _ h1, visitsS_all r _ _ _ h2]; rfl
end

end All

theorem stable_okItem : Stable okItem :=
  ⟨fun _ _ h => h, fun _ _ _ => rfl, fun _ _ h => h, fun _ _ h => h⟩

/-- every item the builder creates has one of the builder's methods -/
theorem visitS_okItems (c : EsCfg) (t : Tree) (x : EsCtx) (par : Option Tree) (es : List ETree)
    (h : visitS c x par t = .ok es) : allItemsL okItem es = true := by
  refine visitS_all stable_okItem c ?_ t x par es h
  intro t x par es ht h
  match t, ht with
  | .term .word v l, _ =>
    simp only [visitS] at h; cases h
    simp only [allItemsL, allItems, okItem, Bool.and_true]
    split
    · split <;> rfl
    · rfl
  | .term .phrase v l, _ =>
    simp only [visitS] at h
    split at h <;> cases h <;> rfl
  | .term .regex v l, _ => simp only [visitS] at h; cases h; rfl
  | .range a b il ih l, _ =>
    simp only [visitS] at h
    split at h
    · cases h; rfl
    · cases h

end Luqum.Lemmas.Es
