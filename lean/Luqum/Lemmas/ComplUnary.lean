/-
  Luqum.Lemmas.ComplUnary — completeness, the productions of `unary_expression` one by one (for
  ARBITRARY tables): clause of the checker + eventualities of the sub-trees ⇒ eventuality of the tree.
-/
import Luqum.Lemmas.ComplLeaf

namespace Luqum.Compl
open Luqum
open Luqum.Props.C09 (content contents)

/-! ### terms -/

theorem act_toTerm (tv : TokV) : ∃ l, act "p_to_as_term" [.tok .to tv] =
    .ok (.item (.term .word (tv.value.getD []) l)) := ⟨_, rfl⟩

theorem ev_term {T : Tables} {s u : Nat} {a : String}
    (h1 : chkLeaf T s "TERM" a nU = true) (h2 : chkLeaf T s "PHRASE" a nU = true)
    (h3 : chkLeaf T s "REGEX" a nU = true) (h4 : chkTo T s a u = true)
    (hu : gotoN T s nU = some u) (k : TermK) (v : Str) (l : Lay)
    (hw : TextOK (.term k v l) = true) (toks : List Tok)
    (hk : toks.map tokKey = yield (.term k v l)) : Ev T s nU a toks (.term k v {}) := by
  intro ss vs rest hl
  cases k with
  | word =>
    simp only [TextOK, Bool.or_eq_true, beq_iff_eq] at hw
    rcases hw with hw | hw
    · simp only [yield, hw] at hk
      obtain ⟨t, ts, rfl, hkind, htext, hts⟩ := keys_cons hk
      cases keys_nil hts
      simp only at hkind htext
      obtain ⟨g, hg, hrun⟩ := run_leaf h1 t (by rw [hkind]; rfl) hl ss vs
      rw [toVal_term hkind] at hrun
      exact ⟨g, _, hg, by simp [content, htext], hrun⟩
    · simp only [yield, hw] at hk
      obtain ⟨t, ts, rfl, hkind, htext, hts⟩ := keys_cons hk
      cases keys_nil hts
      simp only at hkind htext
      simp only [chkTo, Option.any_eq_true, beq_iff_eq] at h4
      obtain ⟨s2, hs2, hred⟩ := h4
      obtain ⟨l', hact⟩ := act_toTerm { value := some t.text, lay := tokLay t }
      rw [← toVal_plain hkind rfl] at hact
      exact ⟨u, _, hu, by simp [content, htext], (run_shift hs2 t (by rw [hkind]; rfl) ss vs _).trans
        (run_reduce' hred hl [] rfl [t.toVal] rfl hact ss vs)⟩
  | phrase =>
    simp only [yield] at hk
    obtain ⟨t, ts, rfl, hkind, htext, hts⟩ := keys_cons hk
    cases keys_nil hts
    simp only at hkind htext
    obtain ⟨g, hg, hrun⟩ := run_leaf h2 t (by rw [hkind]; rfl) hl ss vs
    rw [toVal_phrase hkind] at hrun
    exact ⟨g, _, hg, by simp [content, htext], hrun⟩
  | regex =>
    simp only [yield] at hk
    obtain ⟨t, ts, rfl, hkind, htext, hts⟩ := keys_cons hk
    cases keys_nil hts
    simp only at hkind htext
    obtain ⟨g, hg, hrun⟩ := run_leaf h3 t (by rw [hkind]; rfl) hl ss vs
    rw [toVal_regex hkind] at hrun
    exact ⟨g, _, hg, by simp [content, htext], hrun⟩

/-! ### `~` -/

theorem act_fuzzy (e : Tree) (av : TokV) :
    act "p_fuzzy" [.item e, .tok .approx av] =
      (match decNum av fuzzyDflt with
        | .ok n => .ok (.item (mgrPostUnary e av.lay (fun x l => .approx .fuzzy x n l)))
        | .error err => .error err) := rfl

theorem act_proximity (e : Tree) (av : TokV) :
    act "p_proximity" [.item e, .tok .approx av] =
      (match intNum av with
        | .ok n => .ok (.item (mgrPostUnary e av.lay (fun x l => .approx .proximity x n l)))
        | .error err => .error err) := rfl

theorem ev_fuzzy {T : Tables} {s u : Nat} {a : String}
    (h : chkApprox T s "TERM" "p_fuzzy" a u = true) (hu : gotoN T s nU = some u)
    (e : Tree) (n : Num) (l : Lay) (hc : CanonAt false (.approx .fuzzy e n l) = true)
    (hw : TextOK (.approx .fuzzy e n l) = true) (toks : List Tok)
    (hk : toks.map tokKey = yield (.approx .fuzzy e n l)) :
    Ev T s nU a toks (content (.approx .fuzzy e n l)) := by
  intro ss vs rest hl
  simp only [CanonAt] at hc
  simp only [TextOK, Bool.and_eq_true] at hw
  obtain ⟨hwt, hnum⟩ := hw
  cases e with
  | term k w l0 =>
    cases k with
    | word =>
      simp only [wordTerm, beq_iff_eq] at hwt
      simp only [yield, hwt, List.cons_append, List.nil_append] at hk
      obtain ⟨t1, ts, rfl, hk1, hx1, hts⟩ := keys_cons hk
      obtain ⟨t2, ts, rfl, hk2, hx2, hts⟩ := keys_cons hts
      cases keys_nil hts
      simp only at hk1 hx1 hk2 hx2
      simp only [chkApprox, Option.any_eq_true, beq_iff_eq] at h
      obtain ⟨s1, hs1, s2, hs2, hred⟩ := h
      obtain ⟨n', hn', hnc⟩ := decNum_of_numOK hnum (tokLay t2)
      have hact := act_fuzzy (.term .word t1.text (tokLay t1)) { value := srcValue n.source, lay := tokLay t2 }
      rw [hn', ← toVal_term hk1, ← toVal_approx hk2 hx2] at hact
      exact ⟨u, _, hu, by simp [mgrPostUnary, content, hnc, hx1],
        (run_shift hs1 t1 (by rw [hk1]; rfl) ss vs _).trans
        ((run_shift hs2 t2 (by rw [hk2]; rfl) _ _ _).trans
          (run_reduce' hred hl [s1] rfl [t1.toVal, t2.toVal] rfl hact ss vs))⟩
    | _ => simp [isWord] at hc
  | _ => simp [isWord] at hc

theorem ev_proximity {T : Tables} {s u : Nat} {a : String}
    (h : chkApprox T s "PHRASE" "p_proximity" a u = true) (hu : gotoN T s nU = some u)
    (e : Tree) (n : Num) (l : Lay) (hc : CanonAt false (.approx .proximity e n l) = true)
    (hw : TextOK (.approx .proximity e n l) = true) (toks : List Tok)
    (hk : toks.map tokKey = yield (.approx .proximity e n l)) :
    Ev T s nU a toks (content (.approx .proximity e n l)) := by
  intro ss vs rest hl
  simp only [CanonAt] at hc
  simp only [TextOK] at hw
  cases e with
  | term k w l0 =>
    cases k with
    | phrase =>
      simp only [yield, List.cons_append, List.nil_append] at hk
      obtain ⟨t1, ts, rfl, hk1, hx1, hts⟩ := keys_cons hk
      obtain ⟨t2, ts, rfl, hk2, hx2, hts⟩ := keys_cons hts
      cases keys_nil hts
      simp only at hk1 hx1 hk2 hx2
      simp only [chkApprox, Option.any_eq_true, beq_iff_eq] at h
      obtain ⟨s1, hs1, s2, hs2, hred⟩ := h
      obtain ⟨n', hn', hnc⟩ := intNum_of_numOK hw (tokLay t2)
      have hact := act_proximity (.term .phrase t1.text (tokLay t1))
        { value := srcValue n.source, lay := tokLay t2 }
      rw [hn', ← toVal_phrase hk1, ← toVal_approx hk2 hx2] at hact
      exact ⟨u, _, hu, by simp [mgrPostUnary, content, hnc, hx1],
        (run_shift hs1 t1 (by rw [hk1]; rfl) ss vs _).trans
        ((run_shift hs2 t2 (by rw [hk2]; rfl) _ _ _).trans
          (run_reduce' hred hl [s1] rfl [t1.toVal, t2.toVal] rfl hact ss vs))⟩
    | _ => simp [isPhrase] at hc
  | _ => simp [isPhrase] at hc

/-! ### ranges -/

theorem act_range (lb : TokV) (lo : Tree) (to : TokV) (hi : Tree) (rb : TokV) : ∃ lo' hi' l,
    act "p_range" [.tok .lbracket lb, .item lo, .tok .to to, .item hi, .tok .rbracket rb] =
      .ok (.item (.range lo' hi' (lb.value == some ['[']) (rb.value == some [']']) l)) ∧
    content lo' = content lo ∧ content hi' = content hi :=
  ⟨_, _, _, rfl, by simp, by simp⟩

theorem ev_range {T : Tables} {s u : Nat} {a : String}
    (h : chkRange T s a u = true) (hu : gotoN T s nU = some u)
    (lo hi : Tree) (il ih : Bool) (l : Lay) (hc : CanonAt false (.range lo hi il ih l) = true)
    (hw : TextOK (.range lo hi il ih l) = true) (toks : List Tok)
    (hk : toks.map tokKey = yield (.range lo hi il ih l)) :
    Ev T s nU a toks (content (.range lo hi il ih l)) := by
  intro ss vs rest hl
  simp only [CanonAt, Bool.and_eq_true] at hc
  simp only [TextOK, Bool.and_eq_true] at hw
  have hy : yield (.range lo hi il ih l) = (TokK.lbracket, [if il then '[' else '{']) ::
      (yield lo ++ (TokK.to, "TO".toList) ::
        (yield hi ++ [(TokK.rbracket, [if ih then ']' else '}'])])) := by
    simp [yield]
  rw [hy] at hk
  obtain ⟨tlb, ts, rfl, hklb, hxlb, hts⟩ := keys_cons hk
  obtain ⟨tlo, ts, rfl, htlo, hts⟩ := keys_append hts
  obtain ⟨tto, ts, rfl, hkto, hxto, hts⟩ := keys_cons hts
  obtain ⟨thi, ts, rfl, hthi, hts⟩ := keys_append hts
  obtain ⟨trb, ts, rfl, hkrb, hxrb, hts⟩ := keys_cons hts
  cases keys_nil hts
  simp only at hklb hxlb hkrb hxrb hkto hxto
  simp only [chkRange, Option.any_eq_true, Bool.and_eq_true, beq_iff_eq] at h
  obtain ⟨s1, hs1, hb1, b1, hgb1, s2, hs2, hb2, b2, hgb2, s3, hs3, hred⟩ := h
  -- the low bound
  obtain ⟨b1', lo', hb1', hclo, hrun1⟩ := ev_bound hb1 lo hc.1 hw.1 tlo htlo (s :: ss) (tlb.toVal :: vs)
    (tto :: (thi ++ trb :: rest)) (by simp [lookName, hkto]; rfl)
  rw [hgb1] at hb1'; cases hb1'
  -- the high bound
  obtain ⟨b2', hi', hb2', hchi, hrun2⟩ := ev_bound hb2 hi hc.2 hw.2 thi hthi (b1 :: s1 :: s :: ss)
    (tto.toVal :: .item lo' :: tlb.toVal :: vs) (trb :: rest) (by simp [lookName, hkrb]; rfl)
  rw [hgb2] at hb2'; cases hb2'
  obtain ⟨lo'', hi'', l', hact, hc1, hc2⟩ := act_range { value := some tlb.text, lay := tokLay tlb } lo'
    { value := some tto.text, lay := tokLay tto } hi' { value := some trb.text, lay := tokLay trb }
  rw [← toVal_plain hklb rfl, ← toVal_plain hkto rfl, ← toVal_plain hkrb rfl] at hact
  have e1 : (tlb :: (tlo ++ tto :: (thi ++ [trb]))) ++ rest =
      tlb :: (tlo ++ tto :: (thi ++ trb :: rest)) := by simp
  rw [e1]
  refine ⟨u, _, hu, ?_, (run_shift hs1 tlb (by rw [hklb]; rfl) ss vs _).trans (hrun1.trans
    ((run_shift hs2 tto (by rw [hkto]; rfl) _ _ _).trans (hrun2.trans
      ((run_shift hs3 trb (by rw [hkrb]; rfl) _ _ _).trans
        (run_reduce' hred hl [b2, s2, b1, s1] rfl
          [tlb.toVal, .item lo', tto.toVal, .item hi', trb.toVal] rfl hact ss vs)))))⟩
  simp only [content, hc1, hc2, hclo, hchi, hxlb, hxrb]
  cases il <;> cases ih <;> simp <;> decide

/-! ### `<` and `>` -/

theorem act_lessthan (o : TokV) (e : Tree) :
    act "p_lessthan" [.tok .lessthan o, .item e] =
      .ok (.item (mgrUnary o.lay e (fun a l => .orange .to a ((o.value.getD []).contains '=') l))) := rfl

theorem act_greaterthan (o : TokV) (e : Tree) :
    act "p_greaterthan" [.tok .greaterthan o, .item e] =
      .ok (.item (mgrUnary o.lay e (fun a l => .orange .from a ((o.value.getD []).contains '=') l))) := rfl

theorem ev_orange {T : Tables} {s u : Nat} {a : String}
    (h1 : chkORange T s "LESSTHAN" "p_lessthan" a u = true)
    (h2 : chkORange T s "GREATERTHAN" "p_greaterthan" a u = true) (hu : gotoN T s nU = some u)
    (k : ORK) (e : Tree) (inc : Bool) (l : Lay) (hc : CanonAt false (.orange k e inc l) = true)
    (hw : TextOK (.orange k e inc l) = true) (toks : List Tok)
    (hk : toks.map tokKey = yield (.orange k e inc l)) :
    Ev T s nU a toks (content (.orange k e inc l)) := by
  intro ss vs rest hl
  simp only [CanonAt] at hc
  simp only [TextOK] at hw
  cases k with
  | to =>
    simp only [yield] at hk
    obtain ⟨t, ts, rfl, hkind, htext, hts⟩ := keys_cons hk
    simp only at hkind htext
    simp only [chkORange, Option.any_eq_true, Bool.and_eq_true, beq_iff_eq] at h1
    obtain ⟨s1, hs1, hpt, p, hp, hred⟩ := h1
    obtain ⟨p', e', hp', hce, hrun⟩ := ev_pt hpt e hc hw ts hts (s :: ss) (t.toVal :: vs) rest hl
    rw [hp] at hp'; cases hp'
    have hact := act_lessthan { value := some t.text, lay := tokLay t } e'
    rw [← toVal_plain hkind rfl] at hact
    refine ⟨u, _, hu, ?_, (run_shift hs1 t (by rw [hkind]; rfl) ss vs _).trans (hrun.trans
      (run_reduce' hred hl [s1] rfl [t.toVal, .item e'] rfl hact ss vs))⟩
    simp only [mgrUnary, content, content_setHead, hce, htext]
    cases inc <;> simp
  | «from» =>
    simp only [yield] at hk
    obtain ⟨t, ts, rfl, hkind, htext, hts⟩ := keys_cons hk
    simp only at hkind htext
    simp only [chkORange, Option.any_eq_true, Bool.and_eq_true, beq_iff_eq] at h2
    obtain ⟨s1, hs1, hpt, p, hp, hred⟩ := h2
    obtain ⟨p', e', hp', hce, hrun⟩ := ev_pt hpt e hc hw ts hts (s :: ss) (t.toVal :: vs) rest hl
    rw [hp] at hp'; cases hp'
    have hact := act_greaterthan { value := some t.text, lay := tokLay t } e'
    rw [← toVal_plain hkind rfl] at hact
    refine ⟨u, _, hu, ?_, (run_shift hs1 t (by rw [hkind]; rfl) ss vs _).trans (hrun.trans
      (run_reduce' hred hl [s1] rfl [t.toVal, .item e'] rfl hact ss vs))⟩
    simp only [mgrUnary, content, content_setHead, hce, htext]
    cases inc <;> simp

/-! ### parentheses -/

theorem act_grouping (lp : TokV) (e : Tree) (rp : TokV) : ∃ e' l,
    act "p_grouping" [.tok .lparen lp, .item e, .tok .rparen rp] = .ok (.item (.group .group e' l)) ∧
    content e' = content e :=
  ⟨_, _, rfl, by simp⟩

theorem ev_group {T : Tables} {G : List Nat} {s u : Nat} {a : String}
    (h : chkGroup T G s a u = true) (hu : gotoN T s nU = some u)
    (k : GrpK) (e : Tree) (l : Lay) (toks : List Tok)
    (hk : toks.map tokKey = yield (.group k e l))
    (hev : ∀ s1 te, G.contains s1 = true → te.map tokKey = yield e →
      Ev T s1 nE "RPAREN" te (content e)) :
    Ev T s nU a toks (content (ungroup (.group k e l))) := by
  intro ss vs rest hl
  simp only [yield] at hk
  obtain ⟨tl, ts, rfl, hkl, hxl, hts⟩ := keys_cons hk
  obtain ⟨te, ts, rfl, hte, hts⟩ := keys_append hts
  obtain ⟨tr, ts, rfl, hkr, hxr, hts⟩ := keys_cons hts
  cases keys_nil hts
  simp only at hkl hxl hkr hxr
  simp only [chkGroup, Option.any_eq_true, Bool.and_eq_true, beq_iff_eq] at h
  obtain ⟨s1, hs1, hex, g, hg, s2, hs2, hred⟩ := h
  obtain ⟨g', e', hg', hce, hrun⟩ := hev s1 te hex hte (s :: ss) (tl.toVal :: vs) (tr :: rest)
    (by simp [lookName, hkr]; rfl)
  rw [hg] at hg'; cases hg'
  obtain ⟨e'', l', hact, hc1⟩ := act_grouping { value := some tl.text, lay := tokLay tl } e'
    { value := some tr.text, lay := tokLay tr }
  rw [← toVal_plain hkl rfl, ← toVal_plain hkr rfl] at hact
  have e1 : (tl :: (te ++ [tr])) ++ rest = tl :: (te ++ tr :: rest) := by simp
  rw [e1]
  exact ⟨u, _, hu, by simp [ungroup, content, hc1, hce],
    (run_shift hs1 tl (by rw [hkl]; rfl) ss vs _).trans (hrun.trans
    ((run_shift hs2 tr (by rw [hkr]; rfl) _ _ _).trans
      (run_reduce' hred hl [g, s1] rfl [tl.toVal, .item e', tr.toVal] rfl hact ss vs)))⟩

/-! ### `^` -/

theorem act_boosting (e : Tree) (av : TokV) :
    act "p_boosting" [.item e, .tok .boost av] =
      (match decNum av boostDflt with
        | .ok n => .ok (.item (mgrPostUnary e av.lay (fun x l => .boost x n l)))
        | .error err => .error err) := rfl

theorem ev_boost {T : Tables} {R : List (Nat × String)} {s u : Nat} {a : String}
    (h : chkBoost T R s a u = true) (hu : gotoN T s nU = some u)
    (e : Tree) (n : Num) (l : Lay) (hnum : numOK (decNum · boostDflt) n = true) (toks : List Tok)
    (hk : toks.map tokKey = yield (.boost e n l)) (c : Tree)
    (hev : ∀ te, R.contains (s, "BOOST") = true → te.map tokKey = yield e → Ev T s nU "BOOST" te c) :
    Ev T s nU a toks (.boost c (Props.C09.Num.content n) {}) := by
  intro ss vs rest hl
  simp only [yield] at hk
  obtain ⟨te, ts, rfl, hte, hts⟩ := keys_append hk
  obtain ⟨tb, ts, rfl, hkb, hxb, hts⟩ := keys_cons hts
  cases keys_nil hts
  simp only at hkb hxb
  simp only [chkBoost, Option.any_eq_true, Bool.and_eq_true, beq_iff_eq] at h
  obtain ⟨hR, s1, hs1, hred⟩ := h
  obtain ⟨u', e', hu', hce, hrun⟩ := hev te hR hte ss vs (tb :: rest) (by simp [lookName, hkb]; rfl)
  rw [hu] at hu'; cases hu'
  obtain ⟨n', hn', hnc⟩ := decNum_of_numOK hnum (tokLay tb)
  have hact := act_boosting e' { value := srcValue n.source, lay := tokLay tb }
  rw [hn', ← toVal_boost hkb hxb] at hact
  have e1 : (te ++ [tb]) ++ rest = te ++ tb :: rest := by simp
  rw [e1]
  exact ⟨u, _, hu, by simp [mgrPostUnary, content, hnc, hce],
    hrun.trans ((run_shift hs1 tb (by rw [hkb]; rfl) _ _ _).trans
    (run_reduce' hred hl [u] rfl [.item e', tb.toVal] rfl hact ss vs))⟩

/-! ### prefix operators -/

theorem ev_prefix {T : Tables} {R : List (Nat × String)} {s u : Nat} {a tok f : String}
    (h : chkPrefix T R s tok f a u = true) (hu : gotoN T s nU = some u)
    (kk : TokK) (hkk : kk.name = tok) (hplain : plainKind kk = true) (uk : UnK)
    (hact : ∀ o e, act f [.tok kk o, .item e] = .ok (.item (mgrUnary o.lay e (.unary uk))))
    (t0 : Tok) (ht0 : t0.kind = kk) (te : List Tok) (c : Tree)
    (hev : ∀ s1, R.contains (s1, a) = true → Ev T s1 nU a te c) :
    Ev T s nU a (t0 :: te) (.unary uk c {}) := by
  intro ss vs rest hl
  simp only [chkPrefix, Option.any_eq_true, Bool.and_eq_true, beq_iff_eq] at h
  obtain ⟨s1, hs1, hR, u1, hu1, hred⟩ := h
  obtain ⟨u1', e', hu1', hce, hrun⟩ := hev s1 hR (s :: ss) (t0.toVal :: vs) rest hl
  rw [hu1] at hu1'; cases hu1'
  have hact' := hact { value := some t0.text, lay := tokLay t0 } e'
  rw [← toVal_plain ht0 hplain] at hact'
  exact ⟨u, _, hu, by simp [mgrUnary, content, hce],
    (run_shift hs1 t0 (by rw [ht0, hkk]) ss vs _).trans (hrun.trans
    (run_reduce' hred hl [s1] rfl [t0.toVal, .item e'] rfl hact' ss vs))⟩

/-! ### fields -/

theorem toFieldGroup_ungroup {e : Tree} (hc : CanonAt true e = true) :
    toFieldGroup (content (ungroup e)) = content e := by
  cases e with
  | group k x l =>
    simp only [CanonAt, Bool.and_eq_true, beq_iff_eq] at hc
    cases k with
    | group => simp at hc
    | fieldGroup => simp [ungroup, content, toFieldGroup]
  | _ => simp [ungroup, content, toFieldGroup]

theorem ev_field {T : Tables} {R : List (Nat × String)} {s u : Nat} {a : String}
    (h : chkField T R s a u = true) (hu : gotoN T s nU = some u)
    (n : Str) (e : Tree) (l : Lay) (hc : CanonAt true e = true)
    (toks : List Tok) (hk : toks.map tokKey = yield (.field n e l))
    (hev : ∀ s1 te, R.contains (s1, a) = true → te.map tokKey = yield e →
      Ev T s1 nU a te (content (ungroup e))) :
    Ev T s nU a toks (content (.field n e l)) := by
  intro ss vs rest hl
  simp only [yield] at hk
  obtain ⟨t1, ts, rfl, hk1, hx1, hts⟩ := keys_cons hk
  obtain ⟨t2, te, rfl, hk2, hx2, hte⟩ := keys_cons hts
  simp only at hk1 hx1 hk2 hx2
  simp only [chkField, Option.any_eq_true, Bool.and_eq_true, beq_iff_eq] at h
  obtain ⟨s1, hs1, s2, hs2, hR, u2, hu2, hred⟩ := h
  obtain ⟨u2', e', hu2', hce, hrun⟩ := hev s2 te hR hte (s1 :: s :: ss) (t2.toVal :: t1.toVal :: vs) rest hl
  rw [hu2] at hu2'; cases hu2'
  have hact := act_field_eq t1.text (tokLay t1) { value := some t2.text, lay := tokLay t2 } e'
  rw [← toVal_term hk1, ← toVal_plain hk2 rfl] at hact
  refine ⟨u, _, hu, ?_, (run_shift hs1 t1 (by rw [hk1]; rfl) ss vs _).trans
    ((run_shift hs2 t2 (by rw [hk2]; rfl) _ _ _).trans (hrun.trans
      (run_reduce' hred hl [s2, s1] rfl [t1.toVal, t2.toVal, .item e'] rfl hact ss vs)))⟩
  simp only [content, content_setHead, content_toFieldGroup, hce, toFieldGroup_ungroup hc, hx1]

end Luqum.Compl
