/-
  Luqum.Lemmas.AutoName — helper lemmas for C15 (`auto_name`): the name generator is strictly
  increasing for a rank function (given three checkable facts on the generated alphabet), the naming
  visit never fails, gives names exactly to the direct operands of operations and records exactly
  those in the mapping.
-/
import Luqum.Model.Naming
import Luqum.Lemmas.NamedPaths

namespace Luqum.Lemmas.AutoName
open Luqum Luqum.Lemmas.NamedPaths

/-! ### the alphabet and the successor function on names -/

/-- What `next_name` needs from the alphabet `LETTERS` and the dict `_pos_letter`
(checked by `decide` on the generated data in `Props/C15.lean`):
* the first letter has a recorded position;
* every recorded position `p` is smaller than the number of letters, and the letter that follows
  position `p` (if any) is recorded at a position strictly greater than `p`
  (a repeated letter is recorded at its LAST position, so the successor may jump forward, never
  backward). -/
def alphaOk : Bool :=
  (match letters.head? with
   | some c => (posLetter c).isSome
   | none => false) &&
  Generated.namingPosLetter.all (fun e =>
    decide (e.2 < letters.length) &&
    match letters[e.2 + 1]? with
    | some c => (match posLetter c with | some j => decide (e.2 < j) | none => false)
    | none => true)

theorem posLetter_mem {c : Char} {p : Nat} (h : posLetter c = some p) :
    ∃ e ∈ Generated.namingPosLetter, e.2 = p := by
  unfold posLetter at h
  cases hf : Generated.namingPosLetter.find? (fun e => e.1 == c) with
  | none => simp [hf] at h
  | some e =>
    simp [hf] at h
    exact ⟨e, List.mem_of_find?_eq_some hf, h⟩

theorem alpha_first (h : alphaOk = true) : ∃ c j, letters.head? = some c ∧ posLetter c = some j := by
  unfold alphaOk at h
  simp only [Bool.and_eq_true] at h
  cases hh : letters.head? with
  | none => simp [hh] at h
  | some c =>
    have h1 := h.1
    simp only [hh] at h1
    obtain ⟨j, hj⟩ := Option.isSome_iff_exists.1 h1
    exact ⟨c, j, rfl, hj⟩

theorem alpha_step (h : alphaOk = true) {c : Char} {p : Nat} (hp : posLetter c = some p) :
    p < letters.length ∧
      ∀ c', letters[p + 1]? = some c' → ∃ j, posLetter c' = some j ∧ p < j := by
  obtain ⟨e, he, rfl⟩ := posLetter_mem hp
  unfold alphaOk at h
  simp only [Bool.and_eq_true, List.all_eq_true] at h
  have h2 := h.2 e he
  simp only [decide_eq_true_eq] at h2
  refine ⟨h2.1, ?_⟩
  intro c' hc'
  have h3 := h2.2
  simp only [hc'] at h3
  cases hj : posLetter c' with
  | none => simp [hj] at h3
  | some j => simp [hj] at h3; exact ⟨j, rfl, h3⟩

/-- the last letter of the name has a recorded position (so `next_name` does not raise) -/
def nameOk (l : Str) : Prop := ∃ c p, l.getLast? = some c ∧ posLetter c = some p

/-- rank of a name: names are ordered by length, then by the position of the last letter -/
def rank (l : Str) : Nat :=
  (l.length - 1) * letters.length + ((l.getLast?.bind posLetter).getD 0)

/-- 0 before the first name, `rank + 1` afterwards -/
def lastRank : Option Str → Nat
  | none => 0
  | some l => rank l + 1

/-- **`next_name` never fails and strictly increases the rank.** -/
theorem nextName_spec (h : alphaOk = true) (o : Option Str) (ho : ∀ l, o = some l → nameOk l) :
    ∃ nm, nextName o = some nm ∧ nameOk nm ∧ lastRank o ≤ rank nm := by
  obtain ⟨c0, j0, hc0, hj0⟩ := alpha_first h
  cases o with
  | none =>
    refine ⟨[c0], by simp [nextName, hc0], ⟨c0, j0, by simp, hj0⟩, by simp [lastRank]⟩
  | some l =>
    obtain ⟨c, p, hl, hp⟩ := ho l rfl
    obtain ⟨hpN, hstep⟩ := alpha_step h hp
    have hne : l ≠ [] := by intro h0; subst h0; simp at hl
    have hlen : 1 ≤ l.length := by
      cases l with
      | nil => exact absurd rfl hne
      | cons _ _ => simp
    have hrl : rank l = (l.length - 1) * letters.length + p := by simp [rank, hl, hp]
    cases hn : letters[p + 1]? with
    | some c' =>
      obtain ⟨j, hj, hpj⟩ := hstep c' hn
      refine ⟨l.dropLast ++ [c'], by simp [nextName, hl, hp, hn], ⟨c', j, by simp, hj⟩, ?_⟩
      have : rank (l.dropLast ++ [c']) = (l.length - 1) * letters.length + j := by
        simp [rank, hj]
      simp only [lastRank, hrl, this]; omega
    | none =>
      refine ⟨l ++ [c0], by simp [nextName, hl, hp, hn, hc0], ⟨c0, j0, by simp, hj0⟩, ?_⟩
      have h1 : rank (l ++ [c0]) = l.length * letters.length + j0 := by simp [rank, hj0]
      have h2 : l.length * letters.length = (l.length - 1) * letters.length + letters.length := by
        obtain ⟨k, hk⟩ : ∃ k, l.length = k + 1 := ⟨l.length - 1, by omega⟩
        rw [hk, Nat.succ_mul]; simp
      simp only [lastRank, hrl, h1, h2]; omega

/-! ### the state of the naming visit -/

/-- invariant of the state: no failure so far, the last name can be incremented, every recorded name
is at most the last name (for the rank), no name is recorded twice -/
structure Inv (st : NameSt) : Prop where
  notFailed : st.failed = false
  lastOk : ∀ l, st.last = some l → nameOk l
  bound : ∀ e ∈ st.map, rank e.1 < lastRank st.last
  nodup : st.map.Pairwise (fun a b => a.1 ≠ b.1)

theorem inv_init : Inv {} :=
  ⟨rfl, (by intro l h; cases h), (by intro e h; cases h), List.Pairwise.nil⟩

/-- what `genNames` adds to the mapping: the `j`-th name for the `j`-th operand -/
def zipNames (path : List Nat) : Nat → List Str → List (Str × List Nat)
  | _, [] => []
  | i, nm :: r => (nm, path ++ [i]) :: zipNames path (i + 1) r

theorem mem_zipNames (path : List Nat) (i : Nat) (names : List Str) (nm : Str) (p : List Nat) :
    (nm, p) ∈ zipNames path i names ↔ ∃ j, names[j]? = some nm ∧ p = path ++ [i + j] := by
  induction names generalizing i with
  | nil => simp [zipNames]
  | cons a r ih =>
    simp only [zipNames, List.mem_cons, Prod.mk.injEq, ih]
    constructor
    · rintro (⟨rfl, rfl⟩ | ⟨j, hj, rfl⟩)
      · exact ⟨0, by simp, by simp⟩
      · exact ⟨j + 1, by simp [hj], by simp; omega⟩
    · rintro ⟨j, hj, rfl⟩
      cases j with
      | zero => simp at hj; left; exact ⟨hj.symm, by simp⟩
      | succ j => simp at hj; right; exact ⟨j, hj, by simp; omega⟩

/-- naming the `n` operands of an operation: no failure, `n` fresh names, recorded in order -/
theorem genNames_spec (h : alphaOk = true) (path : List Nat) (n : Nat) :
    ∀ (st : NameSt) (i : Nat), Inv st →
      Inv (genNames st path i n).2 ∧ (genNames st path i n).1.length = n ∧
      (genNames st path i n).2.map = st.map ++ zipNames path i (genNames st path i n).1 := by
  induction n with
  | zero => intro st i hst; simp [genNames, zipNames, hst]
  | succ n ih =>
    intro st i hst
    obtain ⟨nm, hnm, hok, hrk⟩ := nextName_spec h st.last hst.lastOk
    have hfresh : ∀ e ∈ st.map, e.1 ≠ nm := by
      intro e he heq
      have := hst.bound e he
      rw [heq] at this; omega
    have hfilter : st.map.filter (fun e => e.1 != nm) = st.map := by
      rw [List.filter_eq_self]
      intro e he; simpa using hfresh e he
    have hst1 : Inv { st with last := some nm, map := st.map ++ [(nm, path ++ [i])] } := by
      refine ⟨hst.notFailed, ?_, ?_, ?_⟩
      · intro l hl; cases hl; exact hok
      · intro e he
        simp only [List.mem_append, List.mem_singleton] at he
        simp only [lastRank]
        rcases he with he | rfl
        · have := hst.bound e he; omega
        · simp
      · rw [List.pairwise_append]
        refine ⟨hst.nodup, List.pairwise_singleton _ _, ?_⟩
        intro a ha b hb
        simp only [List.mem_singleton] at hb
        subst hb; exact hfresh a ha
    obtain ⟨i1, i2, i3⟩ := ih _ (i + 1) hst1
    simp only [genNames, hnm, hfilter]
    refine ⟨i1, by simp [i2], ?_⟩
    rw [i3]; simp [zipNames]

/-! ### trees without names, erasing names -/

mutual
/-- no node of the tree carries a name -/
def noNames : Tree → Bool
  | .term _ _ l => l.name.isNone
  | .none l => l.name.isNone
  | .field _ e l => l.name.isNone && noNames e
  | .group _ e l => l.name.isNone && noNames e
  | .approx _ e _ l => l.name.isNone && noNames e
  | .boost e _ l => l.name.isNone && noNames e
  | .unary _ e l => l.name.isNone && noNames e
  | .orange _ e _ l => l.name.isNone && noNames e
  | .range a b _ _ l => l.name.isNone && noNames a && noNames b
  | .op _ xs l => l.name.isNone && noNamesList xs
def noNamesList : List Tree → Bool
  | [] => true
  | x :: r => noNames x && noNamesList r
end

/-- the name carried by the element at path `p` (none: no such element, or it has no name) -/
def nameAt (t : Tree) (p : List Nat) : Option Str := (t.at? p).bind (fun n => n.lay.name)

theorem nameAt_nil (t : Tree) : nameAt t [] = t.lay.name := by simp [nameAt, at?_nil]

theorem nameAt_cons (t : Tree) (i : Nat) (r : List Nat) :
    nameAt t (i :: r) = (t.children[i]?).bind (fun c => nameAt c r) := by
  simp only [nameAt, at?_cons]
  cases t.children[i]? <;> rfl

theorem noNames_root : ∀ t : Tree, noNames t = true → t.lay.name = none
  | .term .., h | .none _, h => by simpa [noNames, Tree.lay] using h
  | .field .., h | .group .., h | .approx .., h | .boost .., h | .unary .., h | .orange .., h
  | .op .., h => by
      simp only [noNames, Bool.and_eq_true, Option.isNone_iff_eq_none] at h; exact h.1
  | .range .., h => by
      simp only [noNames, Bool.and_eq_true, Option.isNone_iff_eq_none] at h; exact h.1.1

theorem noNamesList_get : ∀ (xs : List Tree) (j : Nat) (c : Tree),
    noNamesList xs = true → xs[j]? = some c → noNames c = true
  | [], j, c, _, hc => by simp at hc
  | x :: r, 0, c, h, hc => by
      simp at hc; subst hc; simp only [noNamesList, Bool.and_eq_true] at h; exact h.1
  | x :: r, j + 1, c, h, hc => by
      simp only [noNamesList, Bool.and_eq_true] at h
      simp at hc; exact noNamesList_get r j c h.2 hc

theorem setLay_children (x : Tree) (l : Lay) : (x.setLay l).children = x.children := by
  cases x <;> rfl

theorem setLay_lay (x : Tree) (l : Lay) : (x.setLay l).lay = l := by
  cases x <;> rfl

theorem setLay_copy (x : Tree) (l : Lay) : (x.setLay l).copy = (x.setLay l.noName).copy := by
  cases x <;> simp [Tree.setLay, Tree.copy, Lay.noName]

theorem nameAt_setLay (x : Tree) (l : Lay) (r : List Nat) :
    nameAt (x.setLay l) r = if r = [] then l.name else nameAt x r := by
  cases r with
  | nil => simp [nameAt_nil, setLay_lay]
  | cons i r => simp [nameAt_cons, setLay_children]

/-- setting the name of a node does not change its copy -/
theorem setName_copy (x : Tree) (nm : Option Str) : (x.setLay { x.lay with name := nm }).copy = x.copy := by
  cases x <;> simp [Tree.setLay, Tree.copy, Lay.noName, Tree.lay]

theorem setNames_copies : ∀ (xs : List Tree) (ns : List Str),
    Tree.copies (setNames xs ns) = Tree.copies xs
  | [], ns => by cases ns <;> simp [setNames]
  | x :: r, [] => by simp [setNames]
  | x :: r, nm :: ns => by
      simp [setNames, Tree.copies, setName_copy, setNames_copies r ns]

theorem setNames_get : ∀ (xs : List Tree) (ns : List Str) (j : Nat), xs.length = ns.length →
    (setNames xs ns)[j]? =
      (xs[j]?).bind (fun x => (ns[j]?).map (fun nm => x.setLay { x.lay with name := some nm }))
  | [], [], j, _ => by simp [setNames]
  | [], _ :: _, j, h => by simp at h
  | _ :: _, [], j, h => by simp at h
  | x :: r, nm :: ns, 0, _ => by simp [setNames]
  | x :: r, nm :: ns, j + 1, h => by
      simp only [setNames, List.getElem?_cons_succ]
      exact setNames_get r ns j (by simpa using h)

/-! ### the naming visit -/

mutual
/-- the visit changes nothing but names: the name-erasing copy is unchanged -/
theorem nameNode_copy : ∀ (t : Tree) (st : NameSt) (path : List Nat),
    (nameNode st path t).1.copy = t.copy
  | .term .., st, path => by simp [nameNode]
  | .none _, st, path => by simp [nameNode]
  | .field _ e _, st, path => by simp [nameNode, Tree.copy, nameNode_copy e]
  | .group _ e _, st, path => by simp [nameNode, Tree.copy, nameNode_copy e]
  | .approx _ e _ _, st, path => by simp [nameNode, Tree.copy, nameNode_copy e]
  | .boost e _ _, st, path => by simp [nameNode, Tree.copy, nameNode_copy e]
  | .unary _ e _, st, path => by simp [nameNode, Tree.copy, nameNode_copy e]
  | .orange _ e _ _, st, path => by simp [nameNode, Tree.copy, nameNode_copy e]
  | .range a b _ _ _, st, path => by simp [nameNode, Tree.copy, nameNode_copy a, nameNode_copy b]
  | .op _ xs _, st, path => by simp [nameNode, Tree.copy, setNames_copies, nameList_copies xs]
theorem nameList_copies : ∀ (xs : List Tree) (st : NameSt) (path : List Nat) (i : Nat),
    Tree.copies (nameList st path i xs).1 = Tree.copies xs
  | [], st, path, i => by simp [nameList]
  | x :: r, st, path, i => by simp [nameList, Tree.copies, nameNode_copy x, nameList_copies r]
end

/-- the visit does not touch the layout (nor the name) of the node it is called on -/
theorem nameNode_lay (t : Tree) (st : NameSt) (path : List Nat) : (nameNode st path t).1.lay = t.lay := by
  cases t <;> simp [nameNode, Tree.lay]

mutual
theorem nameNode_inv (h : alphaOk = true) : ∀ (t : Tree) (st : NameSt) (path : List Nat),
    Inv st → Inv (nameNode st path t).2
  | .term .., st, path, hst => by simpa [nameNode] using hst
  | .none _, st, path, hst => by simpa [nameNode] using hst
  | .field _ e _, st, path, hst => by simpa [nameNode] using nameNode_inv h e st _ hst
  | .group _ e _, st, path, hst => by simpa [nameNode] using nameNode_inv h e st _ hst
  | .approx _ e _ _, st, path, hst => by simpa [nameNode] using nameNode_inv h e st _ hst
  | .boost e _ _, st, path, hst => by simpa [nameNode] using nameNode_inv h e st _ hst
  | .unary _ e _, st, path, hst => by simpa [nameNode] using nameNode_inv h e st _ hst
  | .orange _ e _ _, st, path, hst => by simpa [nameNode] using nameNode_inv h e st _ hst
  | .range a b _ _ _, st, path, hst => by
      simpa [nameNode] using nameNode_inv h b _ _ (nameNode_inv h a st _ hst)
  | .op _ xs _, st, path, hst => by
      simpa [nameNode] using nameList_inv h xs _ path 0 (genNames_spec h path xs.length st 0 hst).1
theorem nameList_inv (h : alphaOk = true) : ∀ (xs : List Tree) (st : NameSt) (path : List Nat) (i : Nat),
    Inv st → Inv (nameList st path i xs).2
  | [], st, path, i, hst => by simpa [nameList] using hst
  | x :: r, st, path, i, hst => by
      simpa [nameList] using nameList_inv h r _ path (i + 1) (nameNode_inv h x st _ hst)
end

theorem nameList_length : ∀ (xs : List Tree) (st : NameSt) (path : List Nat) (i : Nat),
    (nameList st path i xs).1.length = xs.length
  | [], st, path, i => by simp [nameList]
  | x :: r, st, path, i => by simp [nameList, nameList_length r]

/-- relation between an operand and its visited version, lifted to the lists by index -/
def Pointwise (P : Tree → Tree → Prop) (xs xs' : List Tree) : Prop :=
  xs'.length = xs.length ∧ ∀ (j : Nat) c c', xs[j]? = some c → xs'[j]? = some c' → P c c'

theorem Pointwise.cons {P : Tree → Tree → Prop} {x x' : Tree} {r r' : List Tree}
    (h0 : P x x') (hr : Pointwise P r r') : Pointwise P (x :: r) (x' :: r') := by
  refine ⟨by simp [hr.1], ?_⟩
  intro j c c' hc hc'
  cases j with
  | zero => simp at hc hc'; subst hc hc'; exact h0
  | succ j => simp at hc hc'; exact hr.2 j c c' hc hc'

theorem nameList_lay : ∀ (xs : List Tree) (st : NameSt) (path : List Nat) (i : Nat),
    Pointwise (fun c c' => c'.lay = c.lay) xs (nameList st path i xs).1
  | [], st, path, i => by simp [nameList, Pointwise]
  | x :: r, st, path, i => by
      simp only [nameList]
      exact Pointwise.cons (nameNode_lay x st _) (nameList_lay r _ path (i + 1))

/-- the single-operand cases of the two main inductions -/
private theorem single_names (t t' e e' : Tree) (hc : t.children = [e]) (hc' : t'.children = [e'])
    (ho : isOp t = false) (hl : t'.lay.name = none)
    (ih : ∀ q, (nameAt e' q).isSome = isOperand e q) (q : List Nat) :
    (nameAt t' q).isSome = isOperand t q := by
  match q with
  | [] => simp [nameAt_nil, hl, isOperand]
  | 0 :: r => simp [nameAt_cons, hc', isOperand, hc, ho, ih]
  | (_ + 1) :: r => simp [nameAt_cons, hc', isOperand, hc]

mutual
/-- **Which elements get a name**: exactly the direct operands of operations. -/
theorem nameNode_names (h : alphaOk = true) : ∀ (t : Tree) (st : NameSt) (path : List Nat),
    Inv st → noNames t = true → ∀ q, (nameAt (nameNode st path t).1 q).isSome = isOperand t q
  | .term k v l, st, path, hst, hn, q => by
      have := noNames_root _ hn
      cases q <;> simp_all [nameNode, nameAt_nil, nameAt_cons, isOperand, Tree.children, Tree.lay]
  | .none l, st, path, hst, hn, q => by
      have := noNames_root _ hn
      cases q <;> simp_all [nameNode, nameAt_nil, nameAt_cons, isOperand, Tree.children, Tree.lay]
  | .field n e l, st, path, hst, hn, q => by
      have hl := noNames_root _ hn
      simp only [noNames, Bool.and_eq_true] at hn
      simp only [nameNode]
      exact single_names (.field n e l) (.field n (nameNode st (path ++ [0]) e).1 l) e _ rfl rfl rfl hl (nameNode_names h e st _ hst hn.2) q
  | .group k e l, st, path, hst, hn, q => by
      have hl := noNames_root _ hn
      simp only [noNames, Bool.and_eq_true] at hn
      simp only [nameNode]
      exact single_names (.group k e l) (.group k (nameNode st (path ++ [0]) e).1 l) e _ rfl rfl rfl hl (nameNode_names h e st _ hst hn.2) q
  | .approx k e n l, st, path, hst, hn, q => by
      have hl := noNames_root _ hn
      simp only [noNames, Bool.and_eq_true] at hn
      simp only [nameNode]
      exact single_names (.approx k e n l) (.approx k (nameNode st (path ++ [0]) e).1 n l) e _ rfl rfl rfl hl (nameNode_names h e st _ hst hn.2) q
  | .boost e n l, st, path, hst, hn, q => by
      have hl := noNames_root _ hn
      simp only [noNames, Bool.and_eq_true] at hn
      simp only [nameNode]
      exact single_names (.boost e n l) (.boost (nameNode st (path ++ [0]) e).1 n l) e _ rfl rfl rfl hl (nameNode_names h e st _ hst hn.2) q
  | .unary k e l, st, path, hst, hn, q => by
      have hl := noNames_root _ hn
      simp only [noNames, Bool.and_eq_true] at hn
      simp only [nameNode]
      exact single_names (.unary k e l) (.unary k (nameNode st (path ++ [0]) e).1 l) e _ rfl rfl rfl hl (nameNode_names h e st _ hst hn.2) q
  | .orange k e i l, st, path, hst, hn, q => by
      have hl := noNames_root _ hn
      simp only [noNames, Bool.and_eq_true] at hn
      simp only [nameNode]
      exact single_names (.orange k e i l) (.orange k (nameNode st (path ++ [0]) e).1 i l) e _ rfl rfl rfl hl (nameNode_names h e st _ hst hn.2) q
  | .range a b il ih l, st, path, hst, hn, q => by
      have hl := noNames_root _ hn
      simp only [noNames, Bool.and_eq_true] at hn
      have ha := nameNode_names h a st (path ++ [0]) hst hn.1.2
      have hb := nameNode_names h b _ (path ++ [1]) (nameNode_inv h a st (path ++ [0]) hst) hn.2
      simp only [nameNode]
      simp only [Tree.lay] at hl
      match q with
      | [] => simp [nameAt_nil, Tree.lay, hl, isOperand]
      | 0 :: r => simp [nameAt_cons, Tree.children, isOperand, isOp, ha]
      | 1 :: r => simp [nameAt_cons, Tree.children, isOperand, isOp, hb]
      | (_ + 2) :: r => simp [nameAt_cons, Tree.children, isOperand]
  | .op k xs l, st, path, hst, hn, q => by
      have hl := noNames_root _ hn
      simp only [noNames, Bool.and_eq_true] at hn
      obtain ⟨g1, g2, -⟩ := genNames_spec h path xs.length st 0 hst
      have hxs := nameList_names h xs _ path 0 g1 hn.2
      have hlen := nameList_length xs (genNames st path 0 xs.length).2 path 0
      simp only [nameNode]
      simp only [Tree.lay] at hl
      match q with
      | [] => simp [nameAt_nil, Tree.lay, hl, isOperand]
      | j :: r =>
        simp only [nameAt_cons, Tree.children, isOperand, isOp, Bool.true_and]
        rw [setNames_get _ _ _ (by rw [hlen, g2])]
        cases hc : xs[j]? with
        | none =>
          have : (nameList (genNames st path 0 xs.length).2 path 0 xs).1[j]? = none := by
            rw [List.getElem?_eq_none_iff] at hc ⊢; omega
          simp [this]
        | some c =>
          have hj : j < xs.length := (List.getElem?_eq_some_iff.1 hc).1
          obtain ⟨c', hc'⟩ : ∃ c', (nameList (genNames st path 0 xs.length).2 path 0 xs).1[j]? = some c' :=
            ⟨_, List.getElem?_eq_getElem (by omega)⟩
          obtain ⟨nm, hnm⟩ : ∃ nm, (genNames st path 0 xs.length).1[j]? = some nm :=
            ⟨_, List.getElem?_eq_getElem (by omega)⟩
          simp only [hc', hnm, Option.bind_some, Option.map_some, nameAt_setLay]
          cases r with
          | nil => simp
          | cons i r => simpa using hxs.2 j c c' hc hc' (i :: r)
theorem nameList_names (h : alphaOk = true) : ∀ (xs : List Tree) (st : NameSt) (path : List Nat) (i : Nat),
    Inv st → noNamesList xs = true →
      Pointwise (fun c c' => ∀ q, (nameAt c' q).isSome = isOperand c q) xs (nameList st path i xs).1
  | [], st, path, i, hst, hn => by simp [nameList, Pointwise]
  | x :: r, st, path, i, hst, hn => by
      simp only [noNamesList, Bool.and_eq_true] at hn
      simp only [nameList]
      exact Pointwise.cons (nameNode_names h x st _ hst hn.1)
        (nameList_names h r _ path (i + 1) (nameNode_inv h x st _ hst) hn.2)
end

/-! ### what the visit records in the mapping -/

private theorem leaf_map (t : Tree) (hc : t.children = []) (hl : t.lay.name = none)
    (path : List Nat) (M : List (Str × List Nat)) (nm : Str) (p : List Nat) :
    (nm, p) ∈ M ↔ (nm, p) ∈ M ∨ ∃ q, p = path ++ q ∧ nameAt t q = some nm := by
  constructor
  · exact Or.inl
  · rintro (h | ⟨q, -, h⟩)
    · exact h
    · cases q <;> simp [nameAt_nil, nameAt_cons, hc, hl] at h

private theorem single_map (t' e' : Tree) (hc' : t'.children = [e']) (hl : t'.lay.name = none)
    (path : List Nat) (M M' : List (Str × List Nat))
    (ih : ∀ nm p, (nm, p) ∈ M' ↔ (nm, p) ∈ M ∨ ∃ q, p = (path ++ [0]) ++ q ∧ nameAt e' q = some nm)
    (nm : Str) (p : List Nat) :
    (nm, p) ∈ M' ↔ (nm, p) ∈ M ∨ ∃ q, p = path ++ q ∧ nameAt t' q = some nm := by
  rw [ih]
  apply or_congr Iff.rfl
  constructor
  · rintro ⟨q, rfl, h⟩
    exact ⟨0 :: q, by simp, by simp [nameAt_cons, hc', h]⟩
  · rintro ⟨q, rfl, h⟩
    match q, h with
    | [], h => simp [nameAt_nil, hl] at h
    | 0 :: r, h => exact ⟨r, by simp, by simpa [nameAt_cons, hc'] using h⟩
    | (_ + 1) :: r, h => simp [nameAt_cons, hc'] at h

mutual
/-- **What is recorded**: the mapping after the visit of `t` (located at `path`) is the mapping
before, plus `name ↦ path ++ q` for every element of the visited tree that carries a name. -/
theorem nameNode_map (h : alphaOk = true) : ∀ (t : Tree) (st : NameSt) (path : List Nat),
    Inv st → noNames t = true → ∀ nm p,
      (nm, p) ∈ (nameNode st path t).2.map ↔
        (nm, p) ∈ st.map ∨ ∃ q, p = path ++ q ∧ nameAt (nameNode st path t).1 q = some nm
  | .term k v l, st, path, hst, hn, nm, p => by
      simp only [nameNode]; exact leaf_map _ rfl (noNames_root _ hn) path _ nm p
  | .none l, st, path, hst, hn, nm, p => by
      simp only [nameNode]; exact leaf_map _ rfl (noNames_root _ hn) path _ nm p
  | .field n e l, st, path, hst, hn, nm, p => by
      have hl := noNames_root _ hn
      simp only [noNames, Bool.and_eq_true] at hn
      simp only [nameNode]
      exact single_map (.field n (nameNode st (path ++ [0]) e).1 l) _ rfl hl path _ _
        (nameNode_map h e st _ hst hn.2) nm p
  | .group k e l, st, path, hst, hn, nm, p => by
      have hl := noNames_root _ hn
      simp only [noNames, Bool.and_eq_true] at hn
      simp only [nameNode]
      exact single_map (.group k (nameNode st (path ++ [0]) e).1 l) _ rfl hl path _ _
        (nameNode_map h e st _ hst hn.2) nm p
  | .approx k e n l, st, path, hst, hn, nm, p => by
      have hl := noNames_root _ hn
      simp only [noNames, Bool.and_eq_true] at hn
      simp only [nameNode]
      exact single_map (.approx k (nameNode st (path ++ [0]) e).1 n l) _ rfl hl path _ _
        (nameNode_map h e st _ hst hn.2) nm p
  | .boost e n l, st, path, hst, hn, nm, p => by
      have hl := noNames_root _ hn
      simp only [noNames, Bool.and_eq_true] at hn
      simp only [nameNode]
      exact single_map (.boost (nameNode st (path ++ [0]) e).1 n l) _ rfl hl path _ _
        (nameNode_map h e st _ hst hn.2) nm p
  | .unary k e l, st, path, hst, hn, nm, p => by
      have hl := noNames_root _ hn
      simp only [noNames, Bool.and_eq_true] at hn
      simp only [nameNode]
      exact single_map (.unary k (nameNode st (path ++ [0]) e).1 l) _ rfl hl path _ _
        (nameNode_map h e st _ hst hn.2) nm p
  | .orange k e i l, st, path, hst, hn, nm, p => by
      have hl := noNames_root _ hn
      simp only [noNames, Bool.and_eq_true] at hn
      simp only [nameNode]
      exact single_map (.orange k (nameNode st (path ++ [0]) e).1 i l) _ rfl hl path _ _
        (nameNode_map h e st _ hst hn.2) nm p
  | .range a b il ih l, st, path, hst, hn, nm, p => by
      have hl := noNames_root _ hn
      simp only [noNames, Bool.and_eq_true] at hn
      have ha := nameNode_map h a st (path ++ [0]) hst hn.1.2
      have hb := nameNode_map h b _ (path ++ [1]) (nameNode_inv h a st (path ++ [0]) hst) hn.2
      simp only [nameNode]
      simp only [Tree.lay] at hl
      rw [hb, ha, or_assoc]
      apply or_congr Iff.rfl
      constructor
      · rintro (⟨q, rfl, hq⟩ | ⟨q, rfl, hq⟩)
        · exact ⟨0 :: q, by simp, by simp [nameAt_cons, Tree.children, hq]⟩
        · exact ⟨1 :: q, by simp, by simp [nameAt_cons, Tree.children, hq]⟩
      · rintro ⟨q, rfl, hq⟩
        match q, hq with
        | [], hq => simp [nameAt_nil, Tree.lay, hl] at hq
        | 0 :: r, hq => exact Or.inl ⟨r, by simp, by simpa [nameAt_cons, Tree.children] using hq⟩
        | 1 :: r, hq => exact Or.inr ⟨r, by simp, by simpa [nameAt_cons, Tree.children] using hq⟩
        | (_ + 2) :: r, hq => simp [nameAt_cons, Tree.children] at hq
  | .op k xs l, st, path, hst, hn, nm, p => by
      have hl := noNames_root _ hn
      simp only [noNames, Bool.and_eq_true] at hn
      obtain ⟨g1, g2, g3⟩ := genNames_spec h path xs.length st 0 hst
      have hxs := nameList_map h xs _ path 0 g1 hn.2
      have hlen := nameList_length xs (genNames st path 0 xs.length).2 path 0
      have hlay := nameList_lay xs (genNames st path 0 xs.length).2 path 0
      simp only [nameNode]
      simp only [Tree.lay] at hl
      rw [hxs, g3, List.mem_append, mem_zipNames, or_assoc]
      apply or_congr Iff.rfl
      have hget := fun j => setNames_get (nameList (genNames st path 0 xs.length).2 path 0 xs).1
        (genNames st path 0 xs.length).1 j (by rw [hlen, g2])
      constructor
      · rintro (⟨j, hj, rfl⟩ | ⟨j, c', r, hc', rfl, hr⟩)
        · have hjl : j < xs.length := by
            have := (List.getElem?_eq_some_iff.1 hj).1; omega
          obtain ⟨c', hc'⟩ : ∃ c', (nameList (genNames st path 0 xs.length).2 path 0 xs).1[j]? = some c' :=
            ⟨_, List.getElem?_eq_getElem (by omega)⟩
          refine ⟨[j], by simp, ?_⟩
          simp [nameAt_cons, Tree.children, hget, hc', hj, nameAt_setLay]
        · have hjl : j < xs.length := by
            have := (List.getElem?_eq_some_iff.1 hc').1; omega
          obtain ⟨c, hc⟩ : ∃ c, xs[j]? = some c := ⟨_, List.getElem?_eq_getElem hjl⟩
          obtain ⟨nm', hnm'⟩ : ∃ nm', (genNames st path 0 xs.length).1[j]? = some nm' :=
            ⟨_, List.getElem?_eq_getElem (by omega)⟩
          have hroot : c'.lay.name = none := by
            rw [hlay.2 j c c' hc hc']; exact noNames_root _ (noNamesList_get xs j c hn.2 hc)
          have hrne : r ≠ [] := by
            rintro rfl; simp [nameAt_nil, hroot] at hr
          refine ⟨j :: r, by simp, ?_⟩
          simp [nameAt_cons, Tree.children, hget, hc', hnm', nameAt_setLay, hrne, hr]
      · rintro ⟨q, rfl, hq⟩
        match q, hq with
        | [], hq => simp [nameAt_nil, Tree.lay, hl] at hq
        | j :: r, hq =>
          simp only [nameAt_cons, Tree.children, hget] at hq
          cases hc' : (nameList (genNames st path 0 xs.length).2 path 0 xs).1[j]? with
          | none => simp [hc'] at hq
          | some c' =>
            cases hnm' : (genNames st path 0 xs.length).1[j]? with
            | none => simp [hc', hnm'] at hq
            | some nm' =>
              simp only [hc', hnm', Option.bind_some, Option.map_some, nameAt_setLay] at hq
              cases r with
              | nil => simp at hq; subst hq; exact Or.inl ⟨j, hnm', by simp⟩
              | cons i r => exact Or.inr ⟨j, c', i :: r, hc', by simp, by simpa using hq⟩
theorem nameList_map (h : alphaOk = true) : ∀ (xs : List Tree) (st : NameSt) (path : List Nat) (i : Nat),
    Inv st → noNamesList xs = true → ∀ nm p,
      (nm, p) ∈ (nameList st path i xs).2.map ↔
        (nm, p) ∈ st.map ∨ ∃ (j : Nat) (c' : Tree) (r : List Nat),
          (nameList st path i xs).1[j]? = some c' ∧ p = path ++ [i + j] ++ r ∧ nameAt c' r = some nm
  | [], st, path, i, hst, hn, nm, p => by simp [nameList]
  | x :: rest, st, path, i, hst, hn, nm, p => by
      simp only [noNamesList, Bool.and_eq_true] at hn
      have hx := nameNode_map h x st (path ++ [i]) hst hn.1
      have hr := nameList_map h rest _ path (i + 1) (nameNode_inv h x st (path ++ [i]) hst) hn.2
      simp only [nameList]
      rw [hr, hx, or_assoc]
      apply or_congr Iff.rfl
      constructor
      · rintro (⟨q, rfl, hq⟩ | ⟨j, c', r, hc', rfl, hq⟩)
        · exact ⟨0, _, q, by simp, by simp, hq⟩
        · exact ⟨j + 1, c', r, by simpa using hc', by simp; omega, hq⟩
      · rintro ⟨j, c', r, hc', rfl, hq⟩
        cases j with
        | zero => simp at hc'; subst hc'; exact Or.inl ⟨r, by simp, hq⟩
        | succ j => exact Or.inr ⟨j, c', r, by simpa using hc', by simp; omega, hq⟩
end

/-! ### `auto_name` -/

theorem noName_of_none (l : Lay) (h : l.name = none) : l.noName = l := by
  cases l; simp_all [Lay.noName]

mutual
/-- a tree without names is its own name-erasing copy -/
theorem copy_of_noNames : ∀ t : Tree, noNames t = true → t.copy = t
  | .term .., h | .none _, h => by
      simp only [noNames, Option.isNone_iff_eq_none] at h; simp [Tree.copy, noName_of_none _ h]
  | .field _ e _, h | .group _ e _, h | .approx _ e _ _, h | .boost e _ _, h | .unary _ e _, h
  | .orange _ e _ _, h => by
      simp only [noNames, Bool.and_eq_true, Option.isNone_iff_eq_none] at h
      simp [Tree.copy, noName_of_none _ h.1, copy_of_noNames e h.2]
  | .range a b _ _ _, h => by
      simp only [noNames, Bool.and_eq_true, Option.isNone_iff_eq_none] at h
      simp [Tree.copy, noName_of_none _ h.1.1, copy_of_noNames a h.1.2, copy_of_noNames b h.2]
  | .op _ xs _, h => by
      simp only [noNames, Bool.and_eq_true, Option.isNone_iff_eq_none] at h
      simp [Tree.copy, noName_of_none _ h.1, copies_of_noNames xs h.2]
theorem copies_of_noNames : ∀ xs : List Tree, noNamesList xs = true → Tree.copies xs = xs
  | [], _ => rfl
  | x :: r, h => by
      simp only [noNamesList, Bool.and_eq_true] at h
      simp [Tree.copies, copy_of_noNames x h.1, copies_of_noNames r h.2]
end

theorem noNamesList_of_forall : ∀ xs : List Tree, (∀ x ∈ xs, noNames x = true) → noNamesList xs = true
  | [], _ => rfl
  | x :: r, h => by
      simp only [noNamesList, Bool.and_eq_true]
      exact ⟨h x (by simp), noNamesList_of_forall r (fun y hy => h y (by simp [hy]))⟩

theorem noNamesList_iff (xs : List Tree) : noNamesList xs = true ↔ ∀ x ∈ xs, noNames x = true := by
  constructor
  · intro h x hx
    obtain ⟨j, hj, rfl⟩ := List.getElem_of_mem hx
    exact noNamesList_get xs j _ h (List.getElem?_eq_getElem hj)
  · exact noNamesList_of_forall xs

theorem noNames_iff_children (t : Tree) :
    noNames t = true ↔ t.lay.name = none ∧ ∀ c ∈ t.children, noNames c = true := by
  cases t <;>
    simp [noNames, Tree.lay, Tree.children, noNamesList_iff, and_assoc]

/-- `noNames` in terms of `element_from_path`: no element carries a name -/
theorem noNames_iff_at (t : Tree) :
    noNames t = true ↔ ∀ p n, t.at? p = some n → n.lay.name = none := by
  constructor
  · intro h p
    induction p generalizing t with
    | nil => intro n hn; simp [at?_nil] at hn; subst hn; exact noNames_root _ h
    | cons i r ih =>
      intro n hn
      rw [at?_cons] at hn
      cases hc : t.children[i]? with
      | none => simp [hc] at hn
      | some c =>
        simp [hc] at hn
        exact ih c (((noNames_iff_children t).1 h).2 c (List.mem_of_getElem? hc)) n hn
  · intro h
    have key : ∀ (k : Nat) (t : Tree), t.nodeCount ≤ k →
        (∀ p n, t.at? p = some n → n.lay.name = none) → noNames t = true := by
      intro k
      induction k with
      | zero => intro t hk; cases t <;> simp [Tree.nodeCount] at hk
      | succ k ih =>
        intro t hk h
        rw [noNames_iff_children]
        refine ⟨h [] t (at?_nil t), ?_⟩
        intro c hc
        obtain ⟨i, hi, rfl⟩ := List.getElem_of_mem hc
        apply ih
        · have : ∀ (xs : List Tree) (j : Nat) (hj : j < xs.length), xs[j].nodeCount ≤ Tree.nodeCounts xs := by
            intro xs
            induction xs with
            | nil => intro j hj; simp at hj
            | cons x r ihr =>
              intro j hj
              cases j with
              | zero => simp [Tree.nodeCounts]
              | succ j => simp [Tree.nodeCounts]; have := ihr j (by simpa using hj); omega
          cases t <;> simp [Tree.children] at hi
          all_goals first
            | (have := this _ i hi; simp [Tree.nodeCount, Tree.children] at hk ⊢; omega)
            | (simp [Tree.nodeCount, Tree.children] at hk ⊢
               first
                | omega
                | (subst hi; simp; omega)
                | (rcases (by omega : i = 0 ∨ i = 1) with rfl | rfl <;> simp <;> omega))
        · intro p n hn
          exact h (i :: p) n (by rw [at?_cons, List.getElem?_eq_getElem hi]; simpa using hn)
    exact key _ t (Nat.le_refl _) h

theorem nameAt_eq_some (t : Tree) (p : List Nat) (nm : Str) :
    nameAt t p = some nm ↔ ∃ n, t.at? p = some n ∧ n.lay.name = some nm := by
  simp [nameAt, Option.bind_eq_some_iff]

/-- **Core of C15.** -/
theorem autoName_core (h : alphaOk = true) (t : Tree) (hn : noNames t = true) :
    ∃ t' m, autoName t = some (t', m) ∧ t'.copy = t ∧
      (∀ p, (nameAt t' p).isSome = true ↔ p ∈ named t) ∧
      (∀ nm p, (nm, p) ∈ m ↔ nameAt t' p = some nm) ∧
      m.Pairwise (fun a b => a.1 ≠ b.1) := by
  have hinv := nameNode_inv h t {} [] inv_init
  have hnames := nameNode_names h t {} [] inv_init hn
  have hmap := nameNode_map h t {} [] inv_init hn
  have hcopy := nameNode_copy t {} []
  rw [copy_of_noNames t hn] at hcopy
  simp only [List.nil_append, exists_eq_left'] at hmap
  have hmap' : ∀ nm p, (nm, p) ∈ (nameNode {} [] t).2.map ↔ nameAt (nameNode {} [] t).1 p = some nm := by
    intro nm p; rw [hmap]; simp
  unfold autoName
  simp only [hinv.notFailed, Bool.false_eq_true, if_false]
  cases hemp : (nameNode {} [] t).2.map.isEmpty with
  | false =>
    refine ⟨_, _, rfl, hcopy, ?_, hmap', hinv.nodup⟩
    obtain ⟨⟨nm, p0⟩, he⟩ := List.isEmpty_eq_false_iff_exists_mem.1 hemp
    have h0 : isOperand t p0 = true := by
      rw [← hnames p0, (hmap' nm p0).1 he]; rfl
    have hop : hasOperand t = true := (hasOperand_iff t).2 ⟨p0, h0⟩
    intro p
    rw [hnames p, mem_named, hop]; simp
  | true =>
    have hnil : (nameNode {} [] t).2.map = [] := List.isEmpty_iff.1 hemp
    obtain ⟨nm, hnm, -, -⟩ := nextName_spec h _ hinv.lastOk
    have hnone : ∀ q, nameAt (nameNode {} [] t).1 q = none := by
      intro q
      cases hq : nameAt (nameNode {} [] t).1 q with
      | none => rfl
      | some nm' => have := (hmap' nm' q).2 hq; simp [hnil] at this
    have hno : ∀ q, isOperand t q = false := by
      intro q; rw [← hnames q, hnone q]; rfl
    have hop : hasOperand t = false := by
      cases hh : hasOperand t with
      | false => rfl
      | true => obtain ⟨q, hq⟩ := (hasOperand_iff t).1 hh; simp [hno q] at hq
    simp only [hnm, if_true]
    refine ⟨_, _, rfl, ?_, ?_, ?_, List.pairwise_singleton _ _⟩
    · rw [setName_copy]; exact hcopy
    · intro p
      rw [nameAt_setLay, mem_named, hop, hno p]
      by_cases hp : p = [] <;> simp [hp, hnone]
    · intro nm' p
      rw [nameAt_setLay]
      by_cases hp : p = []
      · simp [hp, eq_comm]
      · simp [hp, hnone]

end Luqum.Lemmas.AutoName
